"""Check context: tiers, seeds, TLC accounting, violations / known findings, evidence."""
import atexit
import json
import os
import shutil
import sys
import tempfile
import time

from harness import tlc as tlcmod

VERIF = os.path.dirname(os.path.dirname(os.path.abspath(__file__)))
REPO = os.environ.get('VERIF_REPO', '/repo')


import threading
_ACCOUNT = threading.Lock()


class Check:
    def __init__(self, pid, tier, seed):
        self.pid = pid
        self.tier = tier
        self.seed = seed
        self.t0 = time.time()
        self.states = 0
        self.transitions = 0
        self.traces = 0
        self.samples = []
        self.violations = []
        self.known_hits = {}
        self.assumptions = []
        self.extra = {}
        self.tlc_runs = []
        self.coverage = {}
        findings = []
        paths = [os.path.join(VERIF, 'known_findings.json')]
        extra = os.path.join(VERIF, 'known_findings.d')
        if os.path.isdir(extra):
            paths += sorted(os.path.join(extra, n) for n in os.listdir(extra) if n.endswith('.json'))
        for path in paths:
            with open(path) as fh:
                findings += json.load(fh)['findings']
        self.known = {f['id']: f for f in findings if f['property'] == pid and f.get('status') == 'open'}

    @property
    def quick(self):
        return self.tier == 'quick'

    # ---------------------------------------------------------------- TLC
    def tlc(self, module, cfg=None, require=(), expect_ok=True, **kw):
        if not self.quick:      # the thorough tier may share the machine with other checks: never give up on wall time early
            kw['timeout'] = 4 * kw.get('timeout', 1500)
        # bounded heap: the JVM default (a quarter of the RAM per process) lets a handful of concurrent TLC runs exhaust the
        # machine (seen: rc=-9 from the OOM killer with several checks running side by side)
        kw.setdefault('heap', '5g' if self.quick else '14g')
        res = tlcmod.run(module, cfg, **kw)
        with _ACCOUNT:   # drivers may run several TLC processes from a thread pool
            return self._account(module, cfg, require, expect_ok, res)

    def _account(self, module, cfg, require, expect_ok, res):
        self.states += res.distinct
        self.transitions += res.generated
        self.tlc_runs.append({'module': module, 'cfg': cfg or module + '.cfg', 'distinct': res.distinct,
                              'generated': res.generated, 'depth': res.depth, 'wall_s': round(res.wall, 2),
                              'violated': res.violated})
        for k, (d, g) in res.coverage.items():
            od, og = self.coverage.get(f'{module}.{k}', (0, 0))
            self.coverage[f'{module}.{k}'] = (od + d, og + g)
        if require:
            tlcmod.require_coverage(res, require)
        if expect_ok and res.violated:
            # a design-level counterexample in the model itself: a machinery/model problem unless the driver
            # decided to treat it (drivers that expect counterexamples pass expect_ok=False)
            raise tlcmod.MachineryError(f'{module}: TLC reports {res.violated} violated\n{res.stdout[-4000:]}')
        return res

    # ---------------------------------------------------------------- results
    def sample(self, obj, cap=6):
        if len(self.samples) < cap:
            self.samples.append(obj)

    def validated(self, n=1):
        self.traces += n

    def fail(self, what, replay, finding=None):
        """Report a property failure observed on the real code. `finding` = id of a known finding whose input
        class this failing input belongs to (decided by the driver from the input, never from the outcome alone)."""
        if finding is not None and finding in self.known:
            self.known_hits.setdefault(finding, []).append(what)
            return
        self.violations.append({'what': what, 'replay': replay})

    def assume(self, text):
        if text not in self.assumptions:
            self.assumptions.append(text)

    def selftest(self, name, rejected):
        """Binding self-test: a deliberately corrupted observation must have been rejected."""
        self.extra.setdefault('binding_selftest', {})[name] = bool(rejected)
        if not rejected:
            raise tlcmod.MachineryError(f'binding self-test {name}: corrupted observation was accepted')

    def finish(self):
        rdir = os.path.join(VERIF, 'evidence', 'replay')
        os.makedirs(rdir, exist_ok=True)
        lines = []
        for fid, hits in sorted(self.known_hits.items()):
            lines.append(f'KNOWN-FINDING: property={self.pid} {fid}: {self.known[fid]["what"]} ({len(hits)} inputs, e.g. {hits[0]})')
        for i, v in enumerate(self.violations[:20]):
            path = os.path.join(rdir, f'{self.pid}-{i}.json')
            with open(path, 'w') as fh:
                json.dump({'property': self.pid, 'what': v['what'], 'replay': v['replay'], 'seed': self.seed,
                           'tier': self.tier}, fh, indent=1, default=str)
            lines.append(f'VIOLATION property={self.pid} replay={path} :: {v["what"]}')
        cov = {
            'states': self.states,
            'transitions': self.transitions,
            'traces_validated_against_impl': self.traces,
            'samples': self.samples or ['(none)'],
            'tlc_runs': self.tlc_runs,
            'action_coverage': {k: {'distinct': d, 'generated': g} for k, (d, g) in sorted(self.coverage.items())},
            'known_findings_matched': {k: len(v) for k, v in self.known_hits.items()},
        }
        cov.update(self.extra)
        ev = {
            'property_id': self.pid,
            'tier': self.tier,
            'seed': self.seed,
            'level': 'model_checking',
            'coverage': cov,
            'assumptions': self.assumptions,
            'wall_s': round(time.time() - self.t0, 2),
            'violations': len(self.violations),
        }
        os.makedirs(os.path.join(VERIF, 'evidence'), exist_ok=True)
        with open(os.path.join(VERIF, 'evidence', f'{self.pid}.json'), 'w') as fh:
            json.dump(ev, fh, indent=1, default=str)
        for l in lines:
            print(l)
        print(f'[{self.pid}] tier={self.tier} seed={self.seed} states={self.states} transitions={self.transitions} '
              f'traces={self.traces} violations={len(self.violations)} known={sum(len(v) for v in self.known_hits.values())} '
              f'wall={ev["wall_s"]}s')
        return 1 if self.violations else 0


def sandbox():
    """Fresh cwd + FORML_HOME outside /repo and /verif (importing forml drops log files / reads config)."""
    tmp = tempfile.mkdtemp(prefix='verif-run-')
    os.environ['FORML_HOME'] = tmp
    os.environ['TMPDIR'] = tmp          # forml's own temp dirs (asset.TMPDIR) and everything else land inside the sandbox
    tempfile.tempdir = tmp
    os.environ.setdefault('PYTHONHASHSEED', '0')
    os.chdir(tmp)
    atexit.register(shutil.rmtree, tmp, True)
    return tmp


def write_json(obj, name):
    """Write a trace/observation batch into the sandbox cwd and return its absolute path."""
    path = os.path.abspath(name)
    with open(path, 'w') as fh:
        json.dump(obj, fh)
    return path
