"""Real lifecycle actions (train / apply / perftrack evaluation / serving call) against a real posix registry holding a
real project package whose pipeline is built from an expression AST over symbolic actors.

Every action can run in its own fresh interpreter (`python -m harness.lifecycle <spec.json>`): the pipeline module of
the package is imported afresh, the expression is expanded afresh (new node / group ids) and the states are bound
through the registry only.
"""
import json
import os
import pathlib
import sys

PROJECT = 'vproj'
RELEASE = '1'
METRIC = 950

MANIFEST = "NAME = 'vproj'\nVERSION = '1'\nPACKAGE = 'vproj'\nMODULES = {}\n"
SOURCE_PY = '''from forml import project
from harness import lifecycle
project.setup(project.Source.query(lifecycle.T.select(lifecycle.T.x), lifecycle.T.y))
'''
PIPELINE_PY = '''import json
from forml import project
from forml.pipeline import wrap
from harness import pipelines, symbolic
AST = json.loads({ast!r})
project.setup(pipelines.make(AST, 1, {tmp!r}) >> wrap.Operator.mapper(symbolic.Stateful)(str(pipelines.PROBE)))
'''
EVALUATION_PY = '''from forml import evaluation, project
from harness import lifecycle, pipelines, symbolic
project.setup(project.Evaluation(evaluation.Function(pipelines.sym_function(lifecycle.METRIC)),
                                 evaluation.HoldOut(splitter=symbolic.Stateful.builder('951', 2))))
'''


def schema():
    from forml.io import dsl

    class T(dsl.Schema):
        x = dsl.Field(dsl.Integer())
        y = dsl.Field(dsl.Integer())

    return T


class _Lazy:
    def __getattr__(self, item):
        global T
        T = schema()
        return getattr(T, item)


T = _Lazy()


def make_package(root, ast, tmp):
    """Directory-based project package with the given pipeline expression."""
    root = pathlib.Path(root)
    (root / PROJECT).mkdir(parents=True, exist_ok=True)
    (root / '__4ml__.py').write_text(MANIFEST)
    (root / PROJECT / '__init__.py').write_text('')
    (root / PROJECT / 'source.py').write_text(SOURCE_PY)
    (root / PROJECT / 'pipeline.py').write_text(PIPELINE_PY.format(ast=json.dumps(ast), tmp=str(tmp)))
    (root / PROJECT / 'evaluation.py').write_text(EVALUATION_PY)
    return root


def publish(registry_root, package_root):
    from forml import project
    from forml.io import asset
    from forml.provider.registry.filesystem import posix
    directory = asset.Directory(posix.Registry(registry_root))
    directory.get(PROJECT).put(project.Package(package_root))


def sym_feed():
    from forml import io
    from harness import pipelines

    class SymFeed(io.Feed):
        """Feed whose extraction operator is the symbolic source (the feed layer is not the subject here)."""

        def load(self, extract, lower=None, upper=None):
            return pipelines.source_operator()

        @property
        def sources(self):
            return {}

    return SymFeed()


SINK = 995


def sym_sink():
    from forml import io
    from forml.pipeline import wrap
    from harness import symbolic

    class SymSink(io.Sink):
        """Sink closing the composition with a stateless symbolic mapper (as a configured platform always has one)."""

        def save(self, schema):
            return wrap.Operator.mapper(symbolic.Stateless)(str(SINK))

    return SymSink()


PARAMS = set()


def applied_params(value, found):
    """Hyper-parameters (as JSON text) under which stateful actors were APPLIED inside a raw value."""
    if isinstance(value, (tuple, list)):
        for x in value:
            applied_params(x, found)
        return
    if not isinstance(value, dict):
        return
    args = value.get('args', ())
    if value.get('tag') == 'app' and len(args) > 1 and isinstance(args[1], dict) and args[1].get('tag') == 'st':
        found.add(args[0]['label'])
    for a in args[2:] if value.get('tag') == 'app' else args:
        applied_params(a, found)


def rec_runner(out):
    from forml import flow, runtime
    from harness import graphs, refinterp

    class RecRunner(runtime.Runner):
        """Runner executing the compiled table with the independent interpreter and recording every functor value."""

        @classmethod
        def run(cls, symbols, **kwargs):
            values = refinterp.run(symbols)
            out.extend(graphs.norm(v) for ins, v in values.items() if isinstance(ins, flow.Functor))
            for ins, v in values.items():
                if isinstance(ins, flow.Functor):
                    applied_params(v, PARAMS)

    return RecRunner


def fresh_directory(registry_root):
    """What a fresh reader sees: new registry object, forml's process-global asset caches cleared."""
    from forml.io import asset
    from forml.io.asset._directory.level import major, minor
    from forml.provider.registry.filesystem import posix
    for cache in (minor.TAGS, minor.STATES, major.ARTIFACTS):
        cache.clear()
    return asset.Directory(posix.Registry(registry_root))


def racing_directory(registry_root):
    """Registry whose first state read is overtaken by a complete training run of another process."""
    import subprocess
    import tempfile
    from forml.io import asset
    from forml.provider.registry.filesystem import posix
    fresh_directory(registry_root)

    class Racing(posix.Registry):
        fired = False

        def read(self, project, release, generation, sid):
            if not Racing.fired:
                Racing.fired = True
                work = tempfile.mkdtemp(prefix='race-')
                spec = {'registry': registry_root, 'op': 'train', 'g': 0, 'cwd': work, 'out': os.path.join(work, 'obs.json')}
                json.dump(spec, open(os.path.join(work, 'spec.json'), 'w'))
                subprocess.run([sys.executable, '-W', 'ignore', '-m', 'harness.lifecycle', os.path.join(work, 'spec.json')],
                               env=dict(os.environ, FORML_HOME=work), capture_output=True, timeout=300, check=False)
            return super().read(project, release, generation, sid)

    return asset.Directory(Racing(registry_root))


def faulty_directory(registry_root):
    """Registry whose first state read runs out of file descriptors inside the real read (EMFILE from open())."""
    import resource
    from forml.io import asset
    from forml.provider.registry.filesystem import posix
    fresh_directory(registry_root)

    class Faulty(posix.Registry):
        fired = False

        def read(self, project, release, generation, sid):
            if Faulty.fired:
                return super().read(project, release, generation, sid)
            Faulty.fired = True
            soft, hard = resource.getrlimit(resource.RLIMIT_NOFILE)
            resource.setrlimit(resource.RLIMIT_NOFILE, (3, hard))
            try:
                return super().read(project, release, generation, sid)
            finally:
                resource.setrlimit(resource.RLIMIT_NOFILE, (soft, hard))

    return asset.Directory(Faulty(registry_root))


def step(registry_root, op, generation, window='none'):
    """One lifecycle action with everything rebuilt (instance, project components, expansion). Returns observation."""
    from forml.io import asset
    from forml.provider.runner import pyfunc
    from harness import graphs
    graphs.reset_ports()
    race, fault = op.endswith('-race'), op.endswith('-fault')
    op = op.replace('-race', '').replace('-fault', '')
    directory = racing_directory(registry_root) if race else faulty_directory(registry_root) if fault else fresh_directory(registry_root)
    instance = asset.Instance(project=PROJECT, release=RELEASE, generation=generation or None, registry=directory)
    values = []
    feed = sym_feed()
    sink = sym_sink()
    # the hyper-parameters of the code as it is NOW (a training commits its own, a later load runs with the current ones),
    # on actors whose state is the whole object
    from harness import pipelines, symbolic
    pipelines.STATEFUL = symbolic.Whole
    pipelines.HYPER = {'rate': 'at-training' if op == 'train' else 'current'}
    PARAMS.clear()
    if op == 'serve':
        raw = pyfunc.Runner(instance, feed, sink).call(None)
        applied_params(raw, PARAMS)
        answer = graphs.norm(raw)
        values.append(answer['args'][1] if answer['tag'] == 'app' and answer['id'] == SINK else answer)
    else:
        runner = rec_runner(values)(instance, feed, sink)
        bounds = {'none': (), 'upper': (None, 3), 'both': (1, 3)}[window if op == 'train' else 'none']
        getattr(runner, {'train': 'train', 'apply': 'apply', 'perftrack': 'eval_perftrack'}[op])(*bounds)
    obs = {'values': values, 'params': sorted(PARAMS)}
    if op == 'train':
        release = fresh_directory(registry_root).get(PROJECT).get(RELEASE)
        gens = [int(g) for g in release.list()]
        last = release.get(max(gens))
        obs['generations'] = gens
        obs['states'] = [graphs.norm(last.get(i)) for i in range(len(last.tag.states))]
    return obs


def main():
    spec = json.load(open(sys.argv[1]))
    os.chdir(spec['cwd'])
    import logging
    logging.disable(logging.ERROR)
    try:
        obs = step(spec['registry'], spec['op'], spec['g'], spec.get('w', 'none'))
    except Exception as exc:  # pylint: disable=broad-except
        import traceback
        obs = {'error': f'{type(exc).__name__}: {exc}', 'trace': traceback.format_exc()[-1500:]}
    json.dump(obs, open(spec['out'], 'w'))
    sys.stdout.flush()
    os._exit(0)


if __name__ == '__main__':
    main()
