"""Concretisation of the abstract segments of specs/Compiler.tla on the real flow API, fake persistent assets and
normalisation of the symbolic terms into the record shape used by the specifications ([tag, id, args])."""
import json
import sys
import uuid

from harness import symbolic


def _quiet_del(unraisable):
    # Subscription.__del__ of nodes whose registry entry was reset prints an AttributeError; irrelevant noise
    if 'Subscription.__del__' in repr(unraisable.object):
        return
    sys.__unraisablehook__(unraisable)


sys.unraisablehook = _quiet_del


def reset_ports():
    """Hygiene only: the process-global subscription registry keeps every node ever created (all nodes of one shape
    share a hash), which makes long replay loops quadratic. All nodes of earlier scenarios are garbage by now."""
    from forml import flow
    reg = getattr(flow.Subscription, '_PORTS', None)
    if reg is not None:
        reg.clear()


def T(tag, ident=0, args=()):
    return {'tag': tag, 'id': ident, 'args': list(args)}


NILT = T('nil')


def norm(term):
    """Real symbolic term -> spec shape (hyper-parameters dropped, labels are group numbers, out index 1-based)."""
    if isinstance(term, (bytes, bytearray)):
        term = json.loads(term.decode()) if term else symbolic.NIL
    if isinstance(term, dict) and 'whole' in term:  # whole-object state (symbolic.Whole): the model term inside
        term = term['whole']
    if isinstance(term, (tuple, list)):  # multi-output actor: every element wraps the same application
        inner = {symbolic.canon(t['args'][0]) for t in term}
        assert len(inner) == 1 and all(t['tag'] == 'out' for t in term), term
        return norm(term[0]['args'][0])
    tag = term['tag']
    if tag == 'nil':
        return NILT
    if tag == 'loaded':
        return T('loaded', int(term['label']))
    if tag == 'out':
        return T('out', int(term['label']) + 1, [norm(term['args'][0])])
    if tag == 'app':
        return T(tag, int(term['label']), [norm(a) for a in term['args'][1:]])
    if tag == 'st':  # [params, previous state, features, labels, nonce]
        return T(tag, int(term['label']), [norm(a) for a in term['args'][1:4]])
    raise ValueError(f'unexpected term {term}')


class FakeRelease:
    def __init__(self, owner):
        self.owner = owner

    def dump(self, state):
        sid = uuid.uuid4()
        self.owner.dumped[sid] = state
        return sid

    def put(self, tag):
        self.owner.commits.append(list(tag.states))
        return self.owner


class FakeGeneration:
    """Recording stand-in for asset.Generation as used by asset.State (get / release.dump / release.put / tag)."""

    def __init__(self):
        from forml.io import asset
        self.loads = []
        self.dumped = {}
        self.commits = []
        self.release = FakeRelease(self)
        self.tag = asset.Tag()

    def get(self, offset):
        self.loads.append(offset + 1)
        return json.dumps(symbolic.term('loaded', offset + 1)).encode()


def build_segment(nodes, sf, rnd=None, flaky=None, stateful=None):
    """Build real workers for the abstract `nodes` ([{szin, szout, grp, trained, ins}], 1-based ids, node 1 = source).
    Wiring calls are issued in a seeded random order (the compiler's visit order follows subscription order)."""
    from forml import flow
    reset_ports()
    first = {}
    real = []
    for n in nodes:
        g = n['grp']
        if g in first:
            real.append(first[g].fork())
            continue
        cls = symbolic.Source if n['szin'] == 0 else (stateful or symbolic.Stateful) if sf[g - 1] else symbolic.Stateless
        if flaky and flaky[0] == g:      # (group, marker file): that (stateless) actor fails on its first application
            builder = symbolic.FlakyOnce.builder(str(g), n['szout'], marker=flaky[1])
        else:
            builder = cls.builder(str(g), n['szout'])
        node = flow.Worker(builder, n['szin'], n['szout'])
        first[g] = node
        real.append(node)
    calls = []
    for i, n in enumerate(nodes):
        if n['trained']:
            (tp, ti), (lp, li) = n['ins']
            calls.append(lambda i=i, tp=tp, ti=ti, lp=lp, li=li: real[i].train(real[tp - 1][ti - 1], real[lp - 1][li - 1]))
        else:
            for q, (p, o) in enumerate(n['ins']):
                calls.append(lambda i=i, q=q, p=p, o=o: real[i][q].subscribe(real[p - 1][o - 1]))
    if rnd is not None:
        rnd.shuffle(calls)
    for call in calls:
        call()
    return real, {g: node.gid for g, node in first.items()}


def pick_tail(nodes):
    """A non-trained leaf with a single output (simple tail), or None."""
    fed = {p for n in nodes if not n['trained'] for (p, _) in n['ins']}
    for i, n in enumerate(nodes, start=1):
        if not n['trained'] and i not in fed and n['szout'] == 1:
            return i
    return None


def run_with_fault(nodes, sf, pers, group, marker, rnd=None):
    """Compile the segment whose actor `group` fails with an I/O error on its first application and execute the table once.
    Returns (exception class name or None, number of further applications of that actor, commits)."""
    import os

    from forml import flow
    from forml.io import asset
    from harness import refinterp
    real, gids = build_segment(nodes, sf, rnd, flaky=(group, marker))
    segment = flow.Segment(real[0], real[pick_tail(nodes) - 1])
    gen = FakeGeneration()
    assets = asset.State(gen, [gids[g] for g in pers], asset.Tag()) if pers else None
    symbols = flow.compile(segment, assets)
    try:
        refinterp.run(symbols)
        raised = None
    except Exception as exc:  # pylint: disable=broad-except
        raised = type(exc).__name__
    again = os.path.getsize(marker) if os.path.exists(marker) else -1
    return raised, again, len(gen.commits)


def compile_and_run(nodes, sf, pers, rnd=None, mutate=None):
    """Real flow.compile + independent interpretation. Returns the observation validated by TraceCompiler.tla."""
    from forml import flow
    from forml.io import asset
    from harness import refinterp
    real, gids = build_segment(nodes, sf, rnd)
    tail = pick_tail(nodes)
    segment = flow.Segment(real[0], real[tail - 1])
    gen = FakeGeneration()
    assets = asset.State(gen, [gids[g] for g in pers], asset.Tag()) if pers else None
    symbols = flow.compile(segment, assets)
    if mutate:
        symbols = mutate(symbols)
    values = refinterp.run(symbols)
    functors = [v for ins, v in values.items() if isinstance(ins, flow.Functor)]
    obs = {'nodes': nodes, 'sf': sf, 'pers': pers, 'values': [norm(v) for v in functors],
           'commits': [[norm(gen.dumped[s]) for s in c] for c in gen.commits], 'loads': list(gen.loads),
           'symbols': len(symbols)}
    # the table is a value: executing it once more (a runner may be handed a precompiled table any number of times)
    # is again the direct evaluation of the task graph
    first = len(gen.commits)
    again = refinterp.run(symbols)
    obs['values2'] = [norm(v) for ins, v in again.items() if isinstance(ins, flow.Functor)]
    obs['commits2'] = [[norm(gen.dumped[s]) for s in c] for c in gen.commits[first:]]
    return obs, symbols


class FileRelease:
    def __init__(self, root):
        self.root = root

    def dump(self, state):
        sid = uuid.uuid4()
        with open(f'{self.root}/dump-{sid}', 'wb') as fh:
            fh.write(state)
        return sid

    def put(self, tag):
        import os
        fd = os.open(f'{self.root}/commits', os.O_WRONLY | os.O_APPEND | os.O_CREAT, 0o644)
        os.write(fd, (json.dumps([str(s) for s in tag.states]) + '\n').encode())
        os.close(fd)
        return FileGeneration(self.root)


class FileGeneration:
    """Picklable recording stand-in for asset.Generation: effects go to files under `root` (any process)."""

    def __init__(self, root):
        self.root = root
        self.release = FileRelease(root)

    @property
    def tag(self):
        from forml.io import asset
        return asset.Tag()

    def get(self, offset):
        import os
        fd = os.open(f'{self.root}/loads', os.O_WRONLY | os.O_APPEND | os.O_CREAT, 0o644)
        os.write(fd, f'{offset + 1}\n'.encode())
        os.close(fd)
        if getattr(self, 'empty', False):      # a generation without states (what an untrained release answers)
            return b''
        return json.dumps(symbolic.term('loaded', offset + 1)).encode()

    # ---- read back (driver side)
    def effects(self):
        import os
        loads, commits = [], []
        if os.path.exists(f'{self.root}/loads'):
            loads = [int(l) for l in open(f'{self.root}/loads')]
        if os.path.exists(f'{self.root}/commits'):
            for line in open(f'{self.root}/commits'):
                commits.append([norm(open(f'{self.root}/dump-{s}', 'rb').read()) for s in json.loads(line)])
        return loads, commits
