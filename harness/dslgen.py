"""Shared generator of forml DSL statements (used by C07 / C08; meant to be reused by C06 / C09 / C14).

The module works on an *abstract syntax tree* in the JSON encoding of DESIGN.md section 4.1.  The very same
JSON value is (a) what ``build`` turns into real ``forml.io.dsl`` objects through the public DSL API,
(b) what ``project`` reads back from a real object through its public attributes and (c) what the TLA+
module ``specs/DslAst.tla`` evaluates (``WellFormed``, ``SchemaOf``, ``=``) after ``JsonDeserialize``.
TLC refuses to compare values of different sorts, therefore every node of a sort carries *all* fields of
that sort, unused ones holding a fixed filler:

source   {"t": "table"|"ref"|"join"|"set"|"query", "name", "kind", "cols", "l", "r", "on",
          "sel", "where", "group", "having", "order", "rows"}
    table   name = schema name, cols = [[field name, kind name]...]  (a table is self-describing, like dsl.Table)
    ref     l = referenced source, name = reference name
    join    l, r = origins, kind = inner|left|right|full|cross, on = condition feature or NIL_F
    set     l, r = sources, kind = union|intersection|difference
    query   l = queried origin, sel/group = [feature...], where/having = feature or NIL_F,
            order = [{"x": feature, "dir": "ascending"|"descending"}...], rows = [] or [count, offset]
feature  {"f": "col"|"lit"|"alias"|"op"|"agg", "src", "name", "kind", "v", "op", "args"}
    col     src = origin (table / ref) the element belongs to, name = element name
    lit     v = repr() of the python value (always a string: no floats / big ints inside TLC), kind = its kind
    alias   args = [operable], name = alias
    op      op = add|sub|mul|div|mod|eq|ne|lt|le|gt|ge|and|or|not|isnull|notnull|cast|abs|ceil|floor, args;
            cast keeps its target kind in ``kind``
    agg     op = count|sum|min|max|avg, args = [operable]
NIL_S = {"t": "nil"}, NIL_F = {"f": "nil"} mark absent sub-terms.

Kinds are the strings of ``KINDS`` ("int", "float", "str", "bool", "date", "ts").

Public surface
    constructors   table ref join setop query col lit alias op agg cast order
    catalog        CATALOG, TABLES (3 tables: A(i int, f float, s str, b bool), B(i int, s str, k int), C = B's fields)
    build(ast)     AST -> real DSL object; raises whatever the DSL raises (GrammarError for grammar violations)
    project(obj)   real DSL object -> AST (public attributes only);  schema_of(obj) -> [[name, kind]...]
    canon(ast)     canonical string usable as a dictionary key
    walk / get / replace      generic positions ("paths") inside an AST
    statements(depth, ...)    all conforming statements up to a depth bound (deterministic order)
    random_statement(rnd, depth)   a seeded random conforming statement over deeper nestings
    violations(ast)           every single-rule violation of a statement at every position
    mutations(ast)            every one-leaf mutation of a statement (literal, operator, alias (renamed / dropped), direction, column,
                              join kind, set kind, reference name, table, limit)
    COLLIDING_SAME_KIND / COLLIDING_CROSS_KIND   literal values whose CPython hashes collide

Nothing in here decides a verdict: well-formedness and schemas are judged by TLC on the AST.
"""
import ast as pyast
import copy
import itertools
import json
import types

NIL_S = {'t': 'nil'}
NIL_F = {'f': 'nil'}

KINDS = ('int', 'float', 'str', 'bool', 'date', 'ts')
NUMERIC = ('int', 'float')
ARITH = ('add', 'sub', 'mul', 'div', 'mod')
COMPARE = ('eq', 'ne', 'lt', 'le', 'gt', 'ge')
LOGICAL = ('and', 'or', 'not')
NULLTEST = ('isnull', 'notnull')
MATH = ('abs', 'ceil', 'floor')
AGGS = ('count', 'sum', 'min', 'max', 'avg')
JOINS = ('inner', 'left', 'right', 'full', 'cross')
SETS = ('union', 'intersection', 'difference')
DIRS = ('ascending', 'descending')

M61 = 2 ** 61 - 1  # CPython's hash modulus for numbers on 64-bit builds
#: literal pairs of the SAME kind with equal python hashes (hash(-1) == hash(-2) == -2; hash(x) == hash(x + k*M61);
#: floats hash like the equal rational, so float(2**61) hashes like 1.0)
COLLIDING_SAME_KIND = [(-1, -2), (0, M61), (1, 1 + M61), (5, 5 + 2 * M61), (7, 7 - M61), (-3, -3 - M61),
                       (-1.0, -2.0), (1.0, float(2 ** 61)), (0.5, 0.5 + float(2 ** 61))]
COLLIDING_SAME_KIND = [p for p in COLLIDING_SAME_KIND if p[0] != p[1] and hash(p[0]) == hash(p[1])]
#: literal values of DIFFERENT kinds with equal python hashes / python equality
COLLIDING_CROSS_KIND = [(1, 1.0), (1, True), (1.0, True), (0, False), (0, 0.0), (314159, float('inf'))]
COLLIDING_CROSS_KIND = [p for p in COLLIDING_CROSS_KIND if hash(p[0]) == hash(p[1])]


# ------------------------------------------------------------------------------------------------ constructors
def _src(t, **kw):
    node = {'t': t, 'name': '', 'kind': '', 'cols': [], 'l': NIL_S, 'r': NIL_S, 'on': NIL_F, 'sel': [],
            'where': NIL_F, 'group': [], 'having': NIL_F, 'order': [], 'rows': []}
    node.update(kw)
    return node


def _feat(f, **kw):
    node = {'f': f, 'src': NIL_S, 'name': '', 'kind': '', 'v': '', 'op': '', 'args': []}
    node.update(kw)
    return node


def table(name, cols=None):
    """Table node; ``cols`` default to the catalog entry of that name."""
    return _src('table', name=name, cols=[list(c) for c in (cols if cols is not None else CATALOG[name])])


def ref(source, name):
    return _src('ref', l=source, name=name)


def join(left, right, kind='inner', on=None):
    return _src('join', l=left, r=right, kind=kind, on=on if on is not None else NIL_F)


def setop(left, right, kind='union'):
    return _src('set', l=left, r=right, kind=kind)


def query(source, sel=(), where=None, group=(), having=None, order=(), rows=None):
    """Query node; ``order`` items are ``order(x, dir)`` nodes or bare features (ascending)."""
    return _src('query', l=source, sel=list(sel), where=where if where is not None else NIL_F, group=list(group),
                having=having if having is not None else NIL_F,
                order=[o if 'dir' in o else order_term(o) for o in order], rows=list(rows) if rows else [])


def order_term(x, direction='ascending'):
    return {'x': x, 'dir': direction}


def col(source, name):
    return _feat('col', src=source, name=name)


def kind_of_value(value):
    """Kind name the DSL is documented to reflect for a python literal value."""
    import datetime
    if isinstance(value, bool):
        return 'bool'
    if isinstance(value, int):
        return 'int'
    if isinstance(value, float):
        return 'float'
    if isinstance(value, str):
        return 'str'
    if isinstance(value, datetime.datetime):
        return 'ts'
    if isinstance(value, datetime.date):
        return 'date'
    raise ValueError(f'no literal encoding for {value!r}')


def lit(value):
    return _feat('lit', v=repr(value), kind=kind_of_value(value))


def lit_value(node):
    """Python value of a literal node."""
    kind, text = node['kind'], node['v']
    if kind == 'bool':
        return text == 'True'
    if kind == 'int':
        return int(text)
    if kind == 'float':
        return float(text)
    if kind == 'str':
        return pyast.literal_eval(text)
    import datetime
    return eval(text, {'datetime': datetime})  # pylint: disable=eval-used  (repr of date/datetime, generator only)


def alias(x, name):
    return _feat('alias', args=[x], name=name)


def op(name, *args):
    return _feat('op', op=name, args=list(args))


def cast(x, kind):
    return _feat('op', op='cast', args=[x], kind=kind)


def agg(name, x):
    return _feat('agg', op=name, args=[x])


# ------------------------------------------------------------------------------------------------ catalog
CATALOG = {
    'A': [('i', 'int'), ('f', 'float'), ('s', 'str'), ('b', 'bool')],
    'B': [('i', 'int'), ('s', 'str'), ('k', 'int')],
    'C': [('i', 'int'), ('s', 'str'), ('k', 'int')],  # same fields as B: B/C are valid set operands of each other
}
TABLES = {name: table(name) for name in CATALOG}


def canon(node):
    """Canonical text of an AST (dictionary key, equality of ASTs == equality of canon texts)."""
    return json.dumps(node, sort_keys=True, separators=(',', ':'))


def is_source(node):
    return isinstance(node, dict) and 't' in node


def is_feature(node):
    return isinstance(node, dict) and 'f' in node


# ------------------------------------------------------------------------------------------------ build
_KIND_CLASSES = None
_OPS = None
_TABLE_CACHE = {}


def _dsl():
    from forml.io import dsl  # imported lazily: importing forml has side effects (cwd log file, FORML_HOME)
    return dsl


def _kinds():
    global _KIND_CLASSES
    if _KIND_CLASSES is None:
        dsl = _dsl()
        _KIND_CLASSES = {'int': dsl.Integer, 'float': dsl.Float, 'str': dsl.String, 'bool': dsl.Boolean,
                         'date': dsl.Date, 'ts': dsl.Timestamp}
    return _KIND_CLASSES


def kind_name(kind):
    """Name of a real dsl kind instance (exact class, not isinstance: Timestamp is a subclass of Date)."""
    for name, cls in _kinds().items():
        if type(kind) is cls:  # pylint: disable=unidiomatic-typecheck
            return name
    return f'?{kind!r}'


def _ops():
    global _OPS
    if _OPS is None:
        from forml.io.dsl import function as fn
        _OPS = {
            'op': {'add': fn.Addition, 'sub': fn.Subtraction, 'mul': fn.Multiplication, 'div': fn.Division,
                   'mod': fn.Modulus, 'eq': fn.Equal, 'ne': fn.NotEqual, 'lt': fn.LessThan, 'le': fn.LessEqual,
                   'gt': fn.GreaterThan, 'ge': fn.GreaterEqual, 'and': fn.And, 'or': fn.Or, 'not': fn.Not,
                   'isnull': fn.IsNull, 'notnull': fn.NotNull, 'abs': fn.Abs, 'ceil': fn.Ceil, 'floor': fn.Floor},
            'agg': {'count': fn.Count, 'sum': fn.Sum, 'min': fn.Min, 'max': fn.Max, 'avg': fn.Avg},
        }
        _OPS['cast'] = fn.Cast
        _OPS['rev'] = {cls: (sort, name) for sort in ('op', 'agg') for name, cls in _OPS[sort].items()}
    return _OPS


def make_table(name, cols):
    """A brand-new dsl.Table (``class <name>(dsl.Schema)`` with the given fields), never cached."""
    dsl = _dsl()
    fields = {c: dsl.Field(_kinds()[k]()) for c, k in cols}
    if ord(name[0]) % 2:
        # declared like a class statement nested in a catalog class / a function: python puts the qualified name into the
        # class namespace (schemas are declared at module level, in catalog classes and inside functions alike)
        fields['__qualname__'] = f'Catalog.{name}'
    return types.new_class(name, (dsl.Schema,), exec_body=lambda ns: ns.update(fields))


def respell(value):
    """Another python spelling of the SAME literal value: a python value that is ``==`` to ``value``, hashes like it and
    that the DSL reflects to the same kind (values read back from numpy / pandas containers, the sign of a float zero).
    None where there is none."""
    import datetime
    if isinstance(value, bool):
        return None  # numpy.bool_ is not a literal type of the DSL
    if isinstance(value, int):
        import numpy
        return numpy.int64(value) if -2 ** 63 <= value < 2 ** 63 else None
    if isinstance(value, float):
        import numpy
        return -value if value == 0.0 else numpy.float64(value)
    if isinstance(value, str):
        import numpy
        return numpy.str_(value)
    if isinstance(value, datetime.datetime):
        import pandas
        return pandas.Timestamp(value)
    return None


class Builder:
    """AST -> real DSL objects.  ``fresh=True`` re-creates even the tables (used to obtain two independently
    built copies of one structure); otherwise tables are shared per (name, cols).
    Spelling of the literal leaves (the structure built is the same):
    ``implicit=True`` hands literals over as plain python constants wherever the DSL documents that it converts them
    itself (operands of operators / functions; a literal asked for on its own - an argument of select / where / ... -
    is RETURNED as the bare python value); ``respelled=True`` builds every literal from ``respell(value)``."""

    def __init__(self, fresh=False, implicit=False, respelled=False):
        self.tables = {} if fresh else _TABLE_CACHE
        self.memo = {}
        self.implicit = implicit
        self.respelled = respelled

    def literal(self, node):
        """Python value a literal leaf is built from."""
        value = lit_value(node)
        if self.respelled:
            other = respell(value)
            value = value if other is None else other
        return value

    def source(self, node):
        key = canon(node)
        if key not in self.memo:
            self.memo[key] = self._source(node)
        return self.memo[key]

    def _source(self, node):
        dsl = _dsl()
        kind = node['t']
        if kind == 'table':
            key = (node['name'], tuple(map(tuple, node['cols'])))
            if key not in self.tables:
                self.tables[key] = make_table(node['name'], node['cols'])
            return self.tables[key]
        if kind == 'ref':
            return self.source(node['l']).reference(node['name'])
        if kind == 'join':
            left, right = self.source(node['l']), self.source(node['r'])
            cond = None if node['on']['f'] == 'nil' else self.feature(node['on'])
            if node['kind'] == 'cross':
                if cond is None:
                    return left.cross_join(right)
                return dsl.Join(left, right, dsl.Join.Kind.CROSS, cond)  # the builder method cannot express it
            return getattr(left, f'{node["kind"]}_join')(right, cond)
        if kind == 'set':
            return getattr(self.source(node['l']), node['kind'])(self.source(node['r']))
        if kind == 'query':
            # documented clause order; select precedes groupby so that no intermediate statement is rejected
            # for a reason the final statement does not have
            obj = self.source(node['l'])
            touched = False
            if node['sel']:
                obj, touched = obj.select(*(self.feature(f) for f in node['sel'])), True
            if node['where']['f'] != 'nil':
                obj, touched = obj.where(self.feature(node['where'])), True
            if node['group']:
                obj, touched = obj.groupby(*(self.feature(f) for f in node['group'])), True
            if node['having']['f'] != 'nil':
                obj, touched = obj.having(self.feature(node['having'])), True
            if node['order']:
                obj, touched = obj.orderby(*((self.feature(o['x']), o['dir']) for o in node['order'])), True
            if node['rows']:
                obj, touched = obj.limit(*node['rows']), True
            return obj if touched else obj.query
        raise ValueError(f'not a source node: {node}')

    def feature(self, node):
        dsl = _dsl()
        sort = node['f']
        if sort == 'col':
            return self.source(node['src'])[node['name']]
        if sort == 'lit':
            return self.literal(node) if self.implicit else dsl.Literal(self.literal(node))
        if sort == 'alias':
            inner = self.feature(node['args'][0])
            return (dsl.Literal(inner) if node['args'][0]['f'] == 'lit' and self.implicit else inner).alias(node['name'])
        args = [self.feature(a) for a in node['args']]
        if sort == 'agg':
            return _ops()['agg'][node['op']](*args)
        if sort == 'op':
            if node['op'] == 'cast':
                return _ops()['cast'](args[0], _kinds()[node['kind']]())
            return _ops()['op'][node['op']](*args)
        raise ValueError(f'not a feature node: {node}')


def build(node, fresh=False, **spelling):
    """Build the real DSL object of a source or feature AST; raises what the DSL raises."""
    builder = Builder(fresh, **spelling)
    return builder.source(node) if is_source(node) else builder.feature(node)


# ------------------------------------------------------------------------------------------------ project
_TABLE_PROJECTIONS = {}


def project(obj):
    """Real DSL object (source or feature) -> AST, through public attributes only."""
    dsl = _dsl()
    if isinstance(obj, dsl.Table):
        # iterating a schema is slow in forml and tables are immutable: remember the projection per table object
        hit = _TABLE_PROJECTIONS.get(id(obj))
        if hit is None or hit[0] is not obj:
            hit = (obj, table(obj.schema.__name__, [(f.name, kind_name(f.kind)) for f in obj.schema]))
            _TABLE_PROJECTIONS[id(obj)] = hit
        return hit[1]  # shared: ASTs are never modified in place (replace() copies)
    if isinstance(obj, dsl.Reference):
        return ref(project(obj.instance), obj.name)
    if isinstance(obj, dsl.Join):
        return join(project(obj.left), project(obj.right), obj.kind.value,
                    None if obj.condition is None else project(obj.condition))
    if isinstance(obj, dsl.Set):
        return setop(project(obj.left), project(obj.right), obj.kind.value)
    if isinstance(obj, dsl.Query):
        return query(project(obj.source), [project(f) for f in obj.selection],
                     None if obj.prefilter is None else project(obj.prefilter), [project(f) for f in obj.grouping],
                     None if obj.postfilter is None else project(obj.postfilter),
                     [order_term(project(o.feature), o.direction.value) for o in obj.ordering],
                     None if obj.rows is None else [obj.rows.count, obj.rows.offset])
    if isinstance(obj, dsl.Aliased):
        return alias(project(obj.operable), obj.name)
    if isinstance(obj, dsl.Element):
        return col(project(obj.origin), obj.name)
    if isinstance(obj, dsl.Literal):
        return _feat('lit', v=repr(obj.value), kind=kind_name(obj.kind))
    ops = _ops()
    if type(obj) is ops['cast']:  # pylint: disable=unidiomatic-typecheck
        return cast(project(obj.value), kind_name(obj.kind))
    if type(obj) in ops['rev']:
        sort, name = ops['rev'][type(obj)]
        return _feat(sort, op=name, args=[project(a) for a in obj if isinstance(a, dsl.Feature)])
    if isinstance(obj, dsl.Feature) and hasattr(obj, 'operable') and obj.operable is not obj:
        return project(obj.operable)  # lazy comparison proxy
    raise ValueError(f'no projection for {type(obj).__name__}: {obj!r}')


def schema_of(obj):
    """[[name, kind]...] of a real source, read from its public ``.schema``."""
    return [[f.name, kind_name(f.kind)] for f in obj.schema]


# ------------------------------------------------------------------------------------------------ positions
def walk(node, path=()):
    """Yield (path, sub-node) for every source / feature / order-term node of an AST, pre-order."""
    yield path, node
    if is_source(node):
        if node['t'] == 'nil':
            return
        for key in ('l', 'r', 'on', 'where', 'having'):
            child = node[key]
            if child.get('t', child.get('f')) != 'nil':
                yield from walk(child, path + (key,))
        for key in ('sel', 'group'):
            for i, child in enumerate(node[key]):
                yield from walk(child, path + (key, i))
        for i, term in enumerate(node['order']):
            yield from walk(term['x'], path + ('order', i, 'x'))
    elif is_feature(node):
        if node['f'] == 'nil':
            return
        if node['f'] == 'col':
            yield from walk(node['src'], path + ('src',))
        for i, child in enumerate(node['args']):
            yield from walk(child, path + ('args', i))


def get(node, path):
    for step in path:
        node = node[step]
    return node


def replace(node, path, new):
    """Deep copy of ``node`` with the sub-term at ``path`` replaced by ``new``."""
    if not path:
        return copy.deepcopy(new)
    out = copy.deepcopy(node)
    holder = out
    for step in path[:-1]:
        holder = holder[step]
    holder[path[-1]] = copy.deepcopy(new)
    return out


def substitute(node, old, new):
    """Deep copy with EVERY occurrence of sub-term ``old`` replaced by ``new`` (e.g. renaming a reference together
    with all elements taken from it)."""
    if isinstance(node, dict):
        if node == old:
            return copy.deepcopy(new)
        return {k: substitute(v, old, new) for k, v in node.items()}
    if isinstance(node, list):
        return [substitute(v, old, new) for v in node]
    return node


# ------------------------------------------------------------------------------------------------ static helpers
# These helpers steer the *generators* only (which candidates to emit); no verdict is derived from them.
def outputs(source):
    """[(name or '', kind or '')...] the generator expects a source to expose (names only need to be good enough to
    build elements of references and set operands)."""
    t = source['t']
    if t == 'table':
        return [tuple(c) for c in source['cols']]
    if t == 'ref':
        return outputs(source['l'])
    if t == 'join':
        return outputs(source['l']) + outputs(source['r'])
    if t == 'set':
        return outputs(source['l'])
    if t == 'query':
        if not source['sel']:
            return outputs(source['l'])
        return [(feature_name(f), feature_kind(f)) for f in source['sel']]
    return []


def feature_name(f):
    return f['name'] if f['f'] in ('col', 'alias') else ''


def feature_kind(f):
    sort = f['f']
    if sort == 'lit':
        return f['kind']
    if sort == 'col':
        return dict(outputs(f['src'])).get(f['name'], '')
    if sort == 'alias':
        return feature_kind(f['args'][0])
    if sort == 'agg':
        return 'int' if f['op'] == 'count' else feature_kind(f['args'][0])
    if f['op'] == 'cast':
        return f['kind']
    if f['op'] in COMPARE + LOGICAL + NULLTEST:
        return 'bool'
    if f['op'] in ('ceil', 'floor'):
        return 'int'
    kinds = [feature_kind(a) for a in f['args']]
    return 'float' if 'float' in kinds else 'int'


def elements(source):
    """Element (col) nodes addressable in a query over / join of this origin."""
    t = source['t']
    if t in ('table', 'ref'):
        return [col(source, n) for n, _ in outputs(source)]
    if t == 'join':
        return elements(source['l']) + elements(source['r'])
    return []


def has_agg(f):
    return f['f'] == 'agg' or any(has_agg(a) for a in f['args'])


def named(source):
    """All outputs have distinct non-empty names (precondition for referencing a statement / using it in a set)."""
    names = [n for n, _ in outputs(source)]
    return all(names) and len(set(names)) == len(names)


# ------------------------------------------------------------------------------------------------ enumerators
def feature_pool(origin, rich=False):
    """A small, deterministic family of well-kinded operable features over the elements of ``origin``:
    elements, literals of each kind, arithmetic, comparisons, logical combinations, aggregates.
    Returns a dict with the lists 'any' (scalar, aggregate-free), 'num', 'pred' (boolean, aggregate-free), 'agg'
    (aggregates), 'aggpred' (boolean over aggregates, for having)."""
    elems = elements(origin)
    kinds = {canon(e): feature_kind(e) for e in elems}
    nums = [e for e in elems if kinds[canon(e)] in NUMERIC]
    strs = [e for e in elems if kinds[canon(e)] == 'str']
    bools = [e for e in elems if kinds[canon(e)] == 'bool']
    arith, preds, aggs, aggpreds = [], [], [], []
    if nums:
        n0, n1 = nums[0], nums[-1]
        arith = [op('add', n0, lit(1)), op('mul', n0, n1)]
        preds = [op('gt', n0, lit(1)), op('eq', n1, lit(2)), op('le', n0, n1)]
        aggs = [agg('count', n0), agg('sum', n1), agg('max', n0)]
        aggpreds = [op('gt', agg('count', n0), lit(1))]
        if rich:
            arith += [op('sub', n1, lit(2.5)), op('mod', n0, lit(2)), op('abs', n0), cast(n0, 'float')]
            preds += [op('ne', n0, lit(-1)), op('lt', n1, lit(3)), op('ge', n0, lit(0)), op('notnull', n0)]
            aggs += [agg('min', n1)]  # avg / division are never generated: their result kind is not documented
            aggpreds += [op('le', agg('sum', n1), lit(10))]
    if strs:
        preds.append(op('eq', strs[0], lit('a')))
        aggs.append(agg('count', strs[0]))
        if rich:
            preds.append(op('isnull', strs[0]))
    preds += bools[:1]
    if len(preds) >= 2:
        preds.append(op('and', preds[0], preds[1]))
        preds.append(op('or', preds[0], op('not', preds[1])))
    scalars = elems + arith + [lit(1), lit('a'), lit(True), lit(2.5)][:4 if rich else 2]
    return {'elems': elems, 'any': scalars + preds[:1], 'num': nums + arith, 'pred': preds, 'agg': aggs,
            'aggpred': aggpreds}


def queries(origin, rich=False):
    """Conforming queries over one origin: a product of a few options per clause (deterministic order)."""
    pool = feature_pool(origin, rich)
    elems, scalars, preds, aggs = pool['elems'], pool['any'], pool['pred'], pool['agg']
    selections = [[]] + [[e] for e in elems[:2]] + [elems[:2][::-1]]
    selections += [[alias(scalars[len(elems)], 'x')]] if len(scalars) > len(elems) else []
    selections += [[elems[0], alias(elems[-1], 'y')], [alias(lit(1), 'one'), elems[0]]]
    # un-aliased expressions / aggregates (the documentation's own examples select them): such outputs have no name
    selections += [[elems[0], pool['num'][-1]]] if pool['num'] and pool['num'][-1]['f'] == 'op' else []
    selections += [[aggs[0]]] if aggs else []
    if rich:
        selections += [[alias(f, f'c{i}') for i, f in enumerate(pool['num'][:3])], [alias(preds[0], 'p')] if preds else []]
    wheres = [None] + preds[:(4 if rich else 2)]
    orders = [[], [order_term(elems[0])], [order_term(elems[-1], 'descending'), order_term(elems[0])]]
    if pool['num'] and rich:
        orders.append([order_term(pool['num'][-1], 'descending')])
    rows = [None, [2, 0], [1, 1]] if rich else [None, [2, 1]]
    for sel, where, order, lim in itertools.product(selections, wheres, orders, rows):
        if sel or where is not None or order or lim:
            yield query(origin, sel, where, (), None, order, lim)
    # grouped queries: every selected feature is a grouping feature or an aggregate
    groupings = [[e] for e in elems[:2]] + ([[elems[0], elems[-1]]] if len(elems) > 1 else [])
    if pool['num'] and rich:
        groupings.append([pool['num'][-1]])
    for group in groupings:
        gsel = [[group[0], alias(a, 'agg')] for a in aggs[:(3 if rich else 2)]]
        gsel += [[alias(aggs[0], 'n')], [alias(op('add', aggs[0], lit(1)), 'm'), alias(group[-1], 'g')]] if aggs else []
        for sel, where, having in itertools.product(gsel, wheres[:2], [None] + pool['aggpred'][:1] + preds[:1]):
            yield query(origin, sel, where, group, having, [order_term(group[0])] if rich else [], None)


def join_conditions(left, right):
    """Boolean, aggregate-free conditions over the elements of both sides (first pair per shared kind)."""
    conds = []
    for a in elements(left):
        for b in elements(right):
            ka, kb = feature_kind(a), feature_kind(b)
            if ka == kb and ka in ('int', 'str') and a['name'] == b['name']:
                conds.append(op('eq', a, b))
    if conds:
        conds.append(op('and', conds[0], op('gt', elements(left)[0], lit(0)))
                     if feature_kind(elements(left)[0]) in NUMERIC else conds[0])
    return conds[:3]


def origins(depth, rich=False):
    """Origins (tables, references, joins) up to the nesting depth (depth 0: tables; 1: references of tables,
    joins of tables incl. a self-join through a reference; 2: joins of joins, references of statements)."""
    tabs = list(TABLES.values())
    yield from tabs
    if depth < 1:
        return
    for t in tabs[:2]:
        yield ref(t, 'r')
    first = []
    for left, right in [(tabs[0], tabs[1]), (tabs[1], tabs[2]), (tabs[0], ref(tabs[0], 'r'))]:
        conds = join_conditions(left, right)
        for kind, cond in itertools.product(JOINS[:4] if rich else JOINS[:2], conds[:(2 if rich else 1)]):
            first.append(join(left, right, kind, cond))
        first.append(join(left, right, 'cross'))
    yield from first
    if depth < 2:
        return
    for left in [j for j in first if j['l']['name'] == 'A' and j['r']['name'] == 'B'][:(4 if rich else 2)]:
        for cond in join_conditions(left, tabs[2])[:1]:
            yield join(left, tabs[2], 'left', cond)
        yield join(tabs[2], left, 'cross')
    # references of (named) statements: the way a sub-query / a set is queried again
    named_queries = [q for q in queries(tabs[0], False) if q['sel'] and named(q)]
    for stmt in named_queries[::max(1, len(named_queries) // (6 if rich else 3))]:
        yield ref(stmt, 'sub')
    yield ref(setop(query(tabs[1]), query(tabs[2]), 'union'), 'sub')


def statements(depth=1, rich=False, cap=None, rnd=None):
    """All conforming statements (queries and sets) up to the depth bound, tables first.
    depth 0: the tables' trivial queries; depth 1: queries over tables / references / joins of tables, sets of
    tables; depth 2: queries over joins of joins and over references of statements, sets of queries.
    ``cap`` (with a ``random.Random`` ``rnd``) sub-samples uniformly when the family is larger."""
    out, seen = [], set()

    def emit(node):
        key = canon(node)
        if key not in seen:
            seen.add(key)
            out.append(node)

    for t in TABLES.values():
        emit(query(t))
    if depth >= 1:
        for origin in origins(min(depth, 2), rich):
            for q in queries(origin, rich):
                emit(q)
        tabs = list(TABLES.values())
        for kind in SETS:
            emit(setop(query(tabs[1]), query(tabs[2]), kind))
    if depth >= 2:
        flat = [q for q in out if q['t'] == 'query' and q['sel'] and named(q)]
        by_schema = {}
        for q in flat:
            by_schema.setdefault(tuple(outputs(q)), []).append(q)
        for group in by_schema.values():
            step = max(1, len(group) // (6 if rich else 3))
            picks = group[::step]
            for a, b in itertools.combinations(picks, 2):
                emit(setop(a, b, SETS[(len(canon(a)) + len(canon(b))) % 3]))
    if cap is not None and len(out) > cap:
        out = sorted(rnd.sample(out, cap), key=canon) if rnd else out[:cap]
    return out


def random_origin(rnd, depth):
    """A random origin nesting up to ``depth`` levels of joins / references of statements (seeded ``random.Random``)."""
    tabs = list(TABLES.values())
    if depth <= 0 or rnd.random() < 0.25:
        return rnd.choice(tabs)
    if rnd.random() < 0.4:
        return ref(random_statement(rnd, depth - 1, named_only=True), rnd.choice(['u', 'v', 'w']))
    left = random_origin(rnd, depth - 1)
    right = rnd.choice(tabs + [ref(rnd.choice(tabs), 'z')])
    conds = join_conditions(left, right)
    if conds and rnd.random() < 0.8:
        return join(left, right, rnd.choice(JOINS[:4]), rnd.choice(conds))
    return join(left, right, 'cross')


def random_statement(rnd, depth=3, named_only=False):
    """A random conforming query over a random origin of the given nesting depth."""
    origin = random_origin(rnd, depth)
    pool = [q for q in queries(origin, rich=True) if not named_only or (q['sel'] and named(q))]
    return rnd.choice(pool)


def _foreign_for(feature_node, root_source):
    """A column of a table that is NOT part of root_source with the given node's kind (for the subset rule)."""
    used = {canon(e['src']) for e in elements(root_source)}
    want = feature_kind(feature_node)
    for t in list(TABLES.values()) + [ref(TABLES['A'], 'zz')]:
        if canon(t) in used:
            continue
        for e in elements(t):
            if feature_kind(e) == want:
                return e
    return None


def violations(stmt):
    """Yield (rule, path, mutated statement): each single documented rule violated at each position of ``stmt``.
    rule names: subset, boolean, aggregate, grouping, kinds, set_schema, join_condition.
    The mutants are *candidates*: whether a candidate really is ill-formed is decided by TLC (WellFormed)."""
    for path, node in walk(stmt):
        if is_source(node):
            if node['t'] == 'join':
                if node['kind'] == 'cross':
                    conds = join_conditions(node['l'], node['r'])
                    if conds:
                        yield 'join_condition', path, replace(stmt, path + ('on',), conds[0])
                else:
                    yield 'join_condition', path, replace(stmt, path + ('on',), NIL_F)
                    yield 'join_condition', path, replace(replace(stmt, path + ('kind',), 'cross'), path + ('on',),
                                                          node['on'])
                    nums = [e for e in elements(node) if feature_kind(e) in NUMERIC]
                    if nums:
                        yield 'boolean', path + ('on',), replace(stmt, path + ('on',), nums[0])
                        yield 'aggregate', path + ('on',), replace(stmt, path + ('on',),
                                                                   op('gt', agg('max', nums[0]), lit(0)))
            elif node['t'] == 'set':
                for side in ('l', 'r'):
                    operand = node[side]
                    outs = outputs(operand)
                    if operand['t'] == 'query' and len(operand['sel']) > 1:
                        yield 'set_schema', path + (side,), replace(stmt, path + (side, 'sel'), operand['sel'][:-1])
                        yield 'set_schema', path + (side,), replace(stmt, path + (side, 'sel'), operand['sel'][::-1])
                    if operand['t'] == 'query' and operand['sel']:
                        first = operand['sel'][0]
                        inner = first['args'][0] if first['f'] == 'alias' else first
                        yield 'set_schema', path + (side,), replace(stmt, path + (side, 'sel', 0),
                                                                    alias(inner, 'renamed'))
                        if feature_kind(inner) in NUMERIC and not has_agg(inner):
                            other = 'float' if feature_kind(inner) == 'int' else 'int'
                            yield 'set_schema', path + (side,), replace(
                                stmt, path + (side, 'sel', 0), alias(cast(inner, other), outs[0][0] or 'c'))
                    if operand['t'] == 'query' and not operand['sel'] and operand['l']['t'] == 'table':
                        other = 'A' if operand['l']['name'] != 'A' else 'B'
                        yield 'set_schema', path + (side,), replace(stmt, path + (side, 'l'), TABLES[other])
            elif node['t'] == 'query':
                origin = node['l']
                pool = feature_pool(origin)
                nums = [e for e in pool['elems'] if feature_kind(e) in NUMERIC]
                for clause in ('where', 'having'):
                    if node[clause]['f'] != 'nil' and nums:
                        yield 'boolean', path + (clause,), replace(stmt, path + (clause,), nums[0])
                        yield 'boolean', path + (clause,), replace(stmt, path + (clause,), op('add', nums[0], lit(1)))
                if node['where']['f'] == 'nil' and nums:
                    yield 'boolean', path + ('where',), replace(stmt, path + ('where',), lit(1))
                    yield 'aggregate', path + ('where',), replace(stmt, path + ('where',),
                                                                  op('gt', agg('count', nums[0]), lit(0)))
                if node['group']:
                    for i, g in enumerate(node['group']):
                        if feature_kind(g) in NUMERIC:
                            yield 'aggregate', path + ('group', i), replace(stmt, path + ('group', i), agg('max', g))
                    loose = [e for e in pool['elems'] if canon(e) not in {canon(g) for g in node['group']}]
                    for i, f in enumerate(node['sel']):
                        if has_agg(f) and loose:
                            new = alias(loose[0], f['name']) if f['f'] == 'alias' else loose[0]
                            yield 'grouping', path + ('sel', i), replace(stmt, path + ('sel', i), new)
                    if loose:
                        yield 'grouping', path + ('sel',), replace(stmt, path + ('sel',), node['sel'] + [loose[0]])
                        yield 'grouping', path + ('sel',), replace(stmt, path + ('sel',),
                                                                  node['sel'] + [alias(op('add', lit(1), lit(1)), 'k2')])
                    if node['group'] and feature_kind(node['group'][0]) in NUMERIC:
                        g0 = node['group'][0]
                        yield 'grouping', path + ('sel',), replace(stmt, path + ('sel',),
                                                                  node['sel'] + [alias(op('add', g0, lit(1)), 'g1')])
                elif node['sel'] and not any(has_agg(f) for f in node['sel']):
                    used = {canon(f['args'][0] if f['f'] == 'alias' else f) for f in node['sel']}
                    loose = [e for e in pool['elems'] if canon(e) not in used]
                    if loose:
                        yield 'grouping', path + ('group',), replace(stmt, path + ('group',), [loose[0]])
                elif not node['sel']:
                    yield 'grouping', path + ('group',), replace(stmt, path + ('group',), [pool['elems'][0]])
        elif is_feature(node):
            root = _enclosing_origin(stmt, path)
            if root is None:
                continue
            if node['f'] == 'col':
                foreign = _foreign_for(node, root)
                if foreign is not None:
                    yield 'subset', path, replace(stmt, path, foreign)
            clause = _clause_of(path)
            if node['f'] == 'col' and clause in ('where', 'on') and feature_kind(node) in NUMERIC:
                yield 'aggregate', path, replace(stmt, path, agg('max', node))
            if node['f'] == 'op' and node['op'] in COMPARE and len(node['args']) == 2:
                kinds = [feature_kind(a) for a in node['args']]
                bad = lit('zz') if kinds[0] != 'str' else lit(7)
                yield 'kinds', path, replace(stmt, path + ('args', 1), bad)
                if kinds[1] in NUMERIC:
                    yield 'kinds', path, replace(stmt, path + ('args', 0), lit(True))
            if node['f'] == 'op' and node['op'] in ARITH:
                yield 'kinds', path, replace(stmt, path + ('args', 1), lit('zz'))
                yield 'kinds', path, replace(stmt, path + ('args', 0), lit(False))
            if node['f'] == 'op' and node['op'] in ('and', 'or', 'not'):
                yield 'kinds', path, replace(stmt, path + ('args', 0), lit(1))


def _clause_of(path):
    for step in reversed(path):
        if step in ('sel', 'where', 'group', 'having', 'order', 'on'):
            return step
    return None


def _enclosing_origin(stmt, path):
    """Origin whose elements the feature at ``path`` has to stay inside (the queried origin, or the join itself)."""
    best = None
    for n in range(len(path), -1, -1):
        node = get(stmt, path[:n])
        if is_source(node) and node['t'] in ('query', 'join'):
            if n < len(path) and path[n] == 'src':
                continue  # the origin embedded in an element, not an enclosing clause owner
            best = node['l'] if node['t'] == 'query' else node
            break
    return best


_OP_SWAP = {'add': 'sub', 'sub': 'add', 'mul': 'add', 'div': 'mul', 'mod': 'div', 'eq': 'ne', 'ne': 'eq', 'lt': 'le',
            'le': 'lt', 'gt': 'ge', 'ge': 'gt', 'and': 'or', 'or': 'and', 'isnull': 'notnull', 'notnull': 'isnull',
            'abs': 'ceil', 'ceil': 'floor', 'floor': 'ceil'}
_AGG_SWAP = {'count': 'max', 'sum': 'max', 'min': 'max', 'max': 'min', 'avg': 'sum'}


def literal_variants(node, colliding=True):
    """Other literal values for a literal leaf: an ordinary neighbour, hash-colliding values of the same kind and
    python-equal values of other kinds."""
    value = lit_value(node)
    out = []
    if node['kind'] == 'int':
        out.append(value + 1)
        if colliding:
            out += [value + M61, value - 2 * M61] + ([-2] if value == -1 else []) + ([-1] if value == -2 else [])
            out += [float(value)] + ([bool(value)] if value in (0, 1) else [])
    elif node['kind'] == 'float':
        out.append(value + 0.5)
        if colliding and value == int(value):
            out += [int(value)] + ([float(2 ** 61)] if value == 1.0 else []) + ([-2.0] if value == -1.0 else [])
    elif node['kind'] == 'str':
        out += [value + 'x', value.upper() if value.upper() != value else value.lower()]
    elif node['kind'] == 'bool':
        out.append(not value)
        if colliding:
            out.append(int(value))
    seen, res = {node['v'] + node['kind']}, []
    for v in out:
        n = lit(v)
        if n['v'] + n['kind'] not in seen:
            seen.add(n['v'] + n['kind'])
            res.append(n)
    return res


def mutations(stmt, colliding=True):
    """Yield (label, path, mutated statement) for every one-leaf mutation of ``stmt``.  The mutant always differs
    from ``stmt`` as an AST; it may be ill-formed (callers skip mutants the DSL refuses to build)."""
    for path, node in walk(stmt):
        if is_feature(node):
            sort = node['f']
            if sort == 'lit':
                for new in literal_variants(node, colliding):
                    label = 'literal' if new['kind'] == node['kind'] else 'literal_kind'
                    yield label, path, replace(stmt, path, new)
            elif sort == 'alias':
                yield 'alias', path, replace(stmt, path + ('name',), node['name'] + '_')
                yield 'unalias', path, replace(stmt, path, node['args'][0])
            elif sort == 'op' and node['op'] in _OP_SWAP:
                yield 'operator', path, replace(stmt, path + ('op',), _OP_SWAP[node['op']])
                if len(node['args']) == 2 and canon(node['args'][0]) != canon(node['args'][1]):
                    yield 'operand_order', path, replace(stmt, path + ('args',), node['args'][::-1])
            elif sort == 'op' and node['op'] == 'cast':
                yield 'cast_kind', path, replace(stmt, path + ('kind',), 'float' if node['kind'] != 'float' else 'int')
            elif sort == 'agg':
                yield 'aggregate', path, replace(stmt, path + ('op',), _AGG_SWAP[node['op']])
            elif sort == 'col':
                want = feature_kind(node)
                others = [e for e in elements(node['src']) if e['name'] != node['name']]
                same = [e for e in others if feature_kind(e) == want] or others
                if same:
                    yield 'column', path, replace(stmt, path, same[0])
        elif is_source(node):
            t = node['t']
            if t == 'join':
                swap = {'inner': 'left', 'left': 'right', 'right': 'full', 'full': 'inner'}
                if node['kind'] in swap:
                    yield 'join_kind', path, replace(stmt, path + ('kind',), swap[node['kind']])
                if path and path[-1] != 'src':
                    yield 'join_sides', path, replace(replace(stmt, path + ('l',), node['r']), path + ('r',), node['l'])
            elif t == 'set':
                yield 'set_kind', path, replace(stmt, path + ('kind',), SETS[(SETS.index(node['kind']) + 1) % 3])
            elif t == 'ref' and (not path or path[-1] != 'src'):
                # renaming a reference renames it inside every element taken from it (else the statement is
                # not constructible); a one-leaf change of the *structure*
                yield 'reference_name', path, substitute(stmt, node, ref(node['l'], node['name'] + '_'))
            elif t == 'table' and (not path or path[-1] != 'src'):
                twins = [o for o in TABLES.values() if o['name'] != node['name'] and o['cols'] == node['cols']]
                if twins:
                    yield 'table', path, substitute(stmt, node, twins[0])
            elif t == 'query':
                for i, term in enumerate(node['order']):
                    flipped = DIRS[1 - DIRS.index(term['dir'])]
                    yield 'direction', path + ('order', i), replace(stmt, path + ('order', i, 'dir'), flipped)
                if len(node['order']) > 1:
                    yield 'order_order', path + ('order',), replace(stmt, path + ('order',), node['order'][::-1])
                if len(node['sel']) > 1 and canon(node['sel'][0]) != canon(node['sel'][-1]):
                    yield 'selection_order', path + ('sel',), replace(stmt, path + ('sel',), node['sel'][::-1])
                if node['rows']:
                    yield 'limit', path + ('rows',), replace(stmt, path + ('rows',), [node['rows'][0] + 1, node['rows'][1]])
                    yield 'offset', path + ('rows',), replace(stmt, path + ('rows',), [node['rows'][0], node['rows'][1] + 1])
                else:
                    yield 'limit', path + ('rows',), replace(stmt, path + ('rows',), [1, 0])
