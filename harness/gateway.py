"""The real REST gateway (forml.provider.gateway.rest) driven in-process: concurrent HTTP requests through the real
Starlette application / Apply route / runtime Engine / dispatch / executor / forked workers, recorded as one sequential event
log per run (single event loop) and judged by specs/TraceGateway.tla (operators of specs/Gateway.tla + Negotiation.tla).

Events (in the order they happen on the loop):
  send  r                                   the client is about to write request r
  call  r app enc accept bodyok             the engine handler is entered with the request the route derived
  ret   r kind enc inst rids stamp          the engine handler returned / raised
  resp  r status mtype inst rids stamp      the client received the HTTP response
The gateway is extended through its public `run` class method (a recording wrapper around the handler it is given) and its
`server` argument (a function driving the ASGI application with httpx instead of uvicorn).
"""
import asyncio
import re

NOQ = 2000
ANSWER_TIMEOUT = 60
NONE_ENC = {'t': '', 's': '', 'opts': []}


def rg(t, s, opts=(), q=NOQ):
    return {'t': t, 's': s, 'opts': [list(o) for o in opts], 'q': q}


def render(ranges, rnd=None):
    """Abstract header -> text (spelling variations are the business of C19; a little whitespace variety only)."""
    parts = []
    for r in ranges:
        txt = f"{r['t']}/{r['s']}"
        for k, v in r['opts']:
            txt += f'; {k}={v}'
        if r['q'] != NOQ:
            txt += f";q={r['q'] / 1000:g}"
        parts.append(txt)
    sep = ', ' if rnd is None else rnd.choice([', ', ',', ' , '])
    return sep.join(parts)


def abstract(encoding):
    """Real layout.Encoding -> abstract record."""
    t, _, s = encoding.kind.partition('/')
    return {'t': t, 's': s, 'opts': sorted([str(k), str(v)] for k, v in encoding.options.items())}


def classify(exc):
    """Engine error -> kind (the documented classes of the REST route, most specific first)."""
    import forml
    from forml.io import layout
    if isinstance(exc, layout.Encoding.Unsupported):
        return 'unsupported'
    if isinstance(exc, forml.MissingError):
        return 'missing'
    if isinstance(exc, forml.InvalidError):
        return 'invalid'
    if isinstance(exc, forml.FailedError):
        return 'failed'
    return 'other-' + type(exc).__name__


def instance_key(text):
    """'<registry repr>-<project>-<release>-<generation>' -> '<project>-<release>-<generation>' (the registry part is the
    repr of a process-local proxy object)."""
    return '-'.join(text.split('-')[-3:])


_RID = re.compile(rb'\n(\d+)')


def body_of(q):
    from harness import serving
    if q['fault'] == 'nofeature':
        return f"rid\n{q['body']}\n".encode()
    if q['fault'] == 'renamed':
        return f"rid,valve\n{q['body']},{q.get('delay', 0)}\n".encode()
    delay = serving.POISON if q['fault'] == 'poison' else q.get('delay', 0)
    return f"rid,delay\n{q['body']},{delay}\n".encode()


def decode_result(data):
    """CSV rows (first branch rid, model rid, model stamp, third branch rid) -> (ids, stamp) or ([], 0)."""
    try:
        lines = bytes(data).decode().strip().splitlines()
        row = [int(x) for x in lines[1].split(',')]
        if lines[0] != 'c0,c1,c2,c3' or len(lines) != 2 or len(row) != 4:
            return [-1], 0
        return sorted({row[0], row[1], row[3]}), row[2]
    except Exception:  # pylint: disable=broad-except
        return [-1], 0


def serve(registry, feed, napps, processes, batches):
    """One gateway life: every batch is a list of abstract requests sent concurrently. Returns the event log."""
    import httpx
    from forml import io
    from forml.io import layout
    from forml.provider.gateway import rest
    from harness import serving

    log = []
    bodies = {}

    class Recording(rest.Gateway):
        """Gateway whose engine handler is observed on entry and exit."""

        @classmethod
        def run(cls, apply, stats, **kwargs):
            async def handler(application, request):
                match = _RID.search(bytes(request.payload.data))
                rid = int(match.group(1)) if match else 0
                log.append({'ev': 'call', 'r': rid, 'app': application, 'enc': abstract(request.payload.encoding),
                            'accept': [abstract(a) for a in request.accept],
                            'bodyok': bytes(request.payload.data) == bodies.get(rid)})
                try:
                    result = await apply(application, request)
                except Exception as exc:
                    log.append({'ev': 'ret', 'r': rid, 'kind': classify(exc), 'enc': NONE_ENC, 'inst': '', 'rids': [], 'stamp': 0})
                    raise
                ids, stamp = decode_result(result.payload.data)
                log.append({'ev': 'ret', 'r': rid, 'kind': 'ok', 'enc': abstract(result.payload.encoding),
                            'inst': instance_key(str(result.instance).lower()), 'rids': ids, 'stamp': stamp})
                return result

            return super().run(handler, stats, **kwargs)

        def __exit__(self, *exc):     # the engine shutdown, bounded: stuck engine threads must not hang the check
            import threading
            thread = threading.Thread(target=super().__exit__, args=exc, daemon=True)
            thread.start()
            thread.join(30)

    async def one(client, q):
        headers = {}
        if q['ctype']:
            headers['content-type'] = q['ctype_text']
        if q['accept']:
            headers['accept'] = q['accept_text']
        log.append({'ev': 'send', 'r': q['body']})
        try:
            resp = await asyncio.wait_for(client.post(f"/{q['app']}", content=bodies[q['body']], headers=headers), ANSWER_TIMEOUT)
        except Exception as exc:  # pylint: disable=broad-except
            log.append({'ev': 'resp', 'r': q['body'], 'status': 0, 'mtype': NONE_ENC, 'inst': type(exc).__name__, 'rids': [], 'stamp': 0})
            return
        if resp.status_code == 200:
            ids, stamp = decode_result(resp.content)
            mtype = abstract(layout.Encoding.parse(resp.headers.get('content-type', 'x/x'))[0])
            inst = instance_key(resp.headers.get(rest.Apply.INSTANCE_HEADER, ''))
        else:
            ids, stamp, mtype, inst = [], 0, NONE_ENC, ''
        log.append({'ev': 'resp', 'r': q['body'], 'status': resp.status_code, 'mtype': mtype, 'inst': inst, 'rids': ids, 'stamp': stamp})

    async def client_main(app):
        transport = httpx.ASGITransport(app=app, raise_app_exceptions=False)
        async with httpx.AsyncClient(transport=transport, base_url='http://gw') as client:
            client.headers.pop('accept', None)  # httpx would add `Accept: */*` to requests that carry no Accept header
            for batch in batches:
                await asyncio.gather(*(one(client, q) for q in batch))

    loop = asyncio.new_event_loop()
    asyncio.set_event_loop(loop)

    def server(app, **_):
        loop.run_until_complete(client_main(app))

    for batch in batches:
        for q in batch:
            bodies[q['body']] = body_of(q)
    inventory = serving.Inventory([serving.Desc(f'app{g}', g) for g in range(1, napps + 1)])
    gateway = Recording(inventory, registry, io.Importer(feed), processes=processes, loop=loop, server=server)
    try:
        gateway.main()
    finally:
        try:
            loop.run_until_complete(loop.shutdown_asyncgens())
        except Exception:  # pylint: disable=broad-except
            pass
        asyncio.set_event_loop(None)
        loop.close()
    return log


def apps_table(napps):
    """Application -> key of the instance it selects and the stamp its model answers with."""
    from harness import serving
    return [{'name': f'app{g}', 'stamp': g, 'inst': f'{serving.PROJECT}-{serving.RELEASE}-{g}'.lower()} for g in range(1, napps + 1)]


CT_MENU = (lambda: [
    ([rg('text', 'csv')], 8),
    ([rg('text', 'csv', [('charset', 'utf-8')])], 2),
    ([rg('foo', 'bar', q=500), rg('text', 'csv')], 2),              # the most preferred range is written last
    ([rg('text', 'csv', q=900), rg('foo', 'bar', q=100)], 1),
    ([rg('foo', 'bar', q=800), rg('text', 'csv', q=800)], 1),       # tie: the first written wins -> undecodable
    ([rg('foo', 'bar')], 1),
    ([], 1),                                                         # absent: application/octet-stream
])()
ACCEPT_MENU = (lambda: [
    ([], 4),
    ([rg('text', 'csv')], 5),
    ([rg('text', '*')], 2),
    ([rg('*', 'csv')], 1),
    ([rg('foo', 'bar'), rg('text', '*', q=500)], 2),
    ([rg('foo', '*', q=100), rg('text', 'csv', q=700), rg('foo', 'bar', q=900)], 2),
    ([rg('text', 'csv', [('charset', 'utf-8')]), rg('text', 'csv', q=300)], 1),
    ([rg('foo', 'bar')], 1),
    ([rg('text', 'csv', [('charset', 'utf-8')])], 1),
    ([rg('foo', 'bar', q=500), rg('foo', '*')], 1),
])()


def _pick(rnd, menu):
    total = sum(w for _, w in menu)
    x = rnd.uniform(0, total)
    for item, w in menu:
        x -= w
        if x <= 0:
            return item
    return menu[-1][0]


def plan(rnd, size, napps, base):
    """Seeded batch of abstract client requests (the JSON codecs are kept out: only ranges that can match the CSV codec or
    nothing)."""
    batch = []
    for k in range(size):
        q = {'app': f'app{rnd.randint(1, napps)}' if rnd.random() < 0.9 else 'nope', 'ctype': _pick(rnd, CT_MENU),
             'accept': _pick(rnd, ACCEPT_MENU), 'body': base + k, 'fault': rnd.choice(['none'] * 9 + ['nofeature', 'renamed', 'poison']),
             'delay': rnd.choice([0, 0, 1, 3, 7, 15])}
        q['ctype_text'] = render(q['ctype'], rnd)
        q['accept_text'] = render(q['accept'], rnd)
        batch.append(q)
    return batch


def check(chk, rnd, registry, feed, napps, lives, base=100000):
    """Gateway.tla on bounded instances + the real gateway's logs against it (TraceGateway.tla)."""
    import copy
    import json

    from harness import common, tlc
    for cfg in ('GatewayA.cfg', 'GatewayB.cfg'):
        chk.tlc('GatewayMC', cfg, require=['Send', 'Handle', 'Return', 'Respond'], workers=4)
    runs = []
    for processes, sizes in lives:
        batches = []
        for size in sizes:
            batches.append(plan(rnd, size, napps, base))
            base += size
        events = serve(registry, feed, napps, processes, batches)
        runs.append({'apps': apps_table(napps), 'reqs': [q for b in batches for q in b], 'events': events,
                     'meta': {'processes': processes, 'sizes': sizes}})
    # binding self-tests: (1) two 200 responses exchanged between their requests, (2) the handler given the FIRST WRITTEN
    # content type instead of the most preferred one
    crossed = copy.deepcopy(runs[0])
    oks = [i for i, e in enumerate(crossed['events']) if e['ev'] == 'resp' and e['status'] == 200]
    tests = []
    if len(oks) >= 2:
        a, b = crossed['events'][oks[0]], crossed['events'][oks[-1]]
        a['rids'], b['rids'] = b['rids'], a['rids']
        tests.append(('crossed_http_responses_rejected', crossed))
    first = copy.deepcopy(runs[0])
    late = {q['body'] for q in first['reqs'] if len(q['ctype']) > 1 and q['ctype'][0]['q'] == 500}
    for e in first['events']:
        if e['ev'] == 'call' and e['r'] in late:
            e['enc'] = {'t': 'foo', 's': 'bar', 'opts': []}
            tests.append(('first_written_content_type_rejected', first))
            break
    batch = runs + [t for _, t in tests]
    path = common.write_json({'runs': [{k: r[k] for k in ('apps', 'reqs', 'events')} for r in batch]}, 'gateway-traces.json')
    res = chk.tlc('TraceGateway', 'TraceGateway.cfg', workers=1, env={'TRACE_FILE': path}, coverage=False, timeout=1800)
    verdicts = {v[0]: v for v in res.tuples('VERDICT')}
    if len(verdicts) != len(batch):
        raise tlc.MachineryError(f'TraceGateway: {len(verdicts)} verdicts for {len(batch)} runs')
    for k, (name, _) in enumerate(tests, start=len(runs) + 1):
        chk.selftest(name, verdicts[k][1] < verdicts[k][2])
    good = requests = 0
    for i, run in enumerate(runs, start=1):
        _, consumed, total, complete = verdicts[i]
        requests += len(run['reqs'])
        if consumed < total or not complete:
            event = run['events'][consumed] if consumed < total else None
            req = next((q for q in run['reqs'] if event and q['body'] == event.get('r')), None)
            what = (f'REST gateway pool={run["meta"]["processes"]}: event {consumed + 1} of {total} is not a step of Gateway.tla: '
                    f'{json.dumps(event)} for request {json.dumps({k: req[k] for k in ("app", "ctype_text", "accept_text", "fault")}) if req else "?"}'
                    if event else f'REST gateway pool={run["meta"]["processes"]}: not every request was answered')
            chk.fail(what[:900], {'kind': 'gateway', 'processes': run['meta']['processes'], 'reqs': run['reqs'], 'events': run['events']})
        else:
            good += 1
    chk.validated(good)
    chk.extra['rest_gateway'] = {'lives': len(runs), 'requests': requests, 'accepted_lives': good,
                                 'events': sum(verdicts[i][2] for i in range(1, len(runs) + 1))}
    return base
