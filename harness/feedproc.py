"""Replay of reader-level histories (C06) on real feeds, one OS process per 'process' of the history.

Run as ``python -m harness.feedproc`` (a *zygote*): it imports the heavy third-party libraries once, never forml.
Every process segment of a history (from the start / a Restart to the next Restart) is a fork of the zygote that
imports forml freshly with its own ``FORML_HOME`` - so forml's process-global state (result frames, lazy backend
registrations, parser caches) starts empty exactly like in a newly started interpreter, while the home directory
(and with it the on-disk result cache) is kept across the segments of one history.

stdin : one JSON request per line  {"id", "feeds": {name: "alchemy" | "monolite"}, "start": {name: content index},
                                    "unavail": [name...] (feeds whose storage does not exist at the start),
                                    "contents": [{table: rows}...], "stmts": [ast...], "hist": [{a, f, s}...]}
                                    actions a: read (f, s) | mutate (f: next content, creates a missing storage) |
                                    break (f: the storage becomes unavailable) | restart
stdout: one JSON reply per line    {"id", "reads": [{"at": position, "rows": [[...]...]} | {"at", "error": text}]}

A request {"id", "kind": "lazy", "stmts": [ast...]} (C14) is a history of reads through ONE lazy feed reader in ONE fresh
process (own ForML home): the reply is {"id", "reads": [{"res", "cols": [[table, [column...]]...]}...]} - per read the
columns the reader asked its origins for (``harness.relgen.lazy_columns``).

Storage of a feed: alchemy -> the SQLite file <home>/<feed>.db, monolite -> the CSV file <home>/<feed>.csv; both hold
the table under the schema's name, so equally named tables exist in every storage (unavailable storage: the table is
dropped from the SQLite file / the CSV file is removed - the feed is still configured for it).  alchemy-shared -> ONE
SQLite file <home>/shared.db for all such feeds (the same connection URL), the schema's table being provisioned from the
physical table "<feed>_<table>" (the ``sources`` mapping of the feed): the storage of the feed is that table.  Feeds are read through the public
producer factory (``Feed.producer(sources, features, **reader kwargs)``) and ``layout.Tabular.to_rows()``.
"""
import csv
import json
import os
import shutil
import sqlite3
import sys
import tempfile
import traceback

from harness import dslgen as g, relgen

SQLT = {'int': 'INTEGER', 'float': 'DOUBLE', 'str': 'VARCHAR', 'bool': 'BOOLEAN'}


# ------------------------------------------------------------------------------------------------ storage
def sql_storage(home, feed, kind):
    """(SQLite file, physical table name of a schema table) of an alchemy / alchemy-shared feed."""
    if kind == 'alchemy-shared':
        return os.path.join(home, 'shared.db'), lambda table: f'{feed}_{table}'
    return os.path.join(home, f'{feed}.db'), lambda table: table


def write_storage(home, feed, kind, content):
    if kind in ('alchemy', 'alchemy-shared'):
        path, phys = sql_storage(home, feed, kind)
        con = sqlite3.connect(path, timeout=60)
        for table, rows in content.items():
            cols = g.CATALOG[table]
            con.execute(f'DROP TABLE IF EXISTS "{phys(table)}"')
            con.execute(f'CREATE TABLE "{phys(table)}" (' + ', '.join(f'"{c}" {SQLT[k]}' for c, k in cols) + ')')
            con.executemany(f'INSERT INTO "{phys(table)}" VALUES (' + ', '.join('?' for _ in cols) + ')', rows)
        con.commit()
        con.close()
    else:
        for table, rows in content.items():
            path = os.path.join(home, f'{feed}.{table}.csv')
            tmp = path + '.tmp'
            with open(tmp, 'w', newline='') as fh:
                writer = csv.writer(fh)
                writer.writerow([c for c, _ in g.CATALOG[table]])
                writer.writerows(rows)
            os.replace(tmp, path)


def drop_storage(home, feed, kind, tables):
    """The storage of the feed becomes unavailable: no such table / no such file."""
    if kind in ('alchemy', 'alchemy-shared'):
        path, phys = sql_storage(home, feed, kind)
        con = sqlite3.connect(path, timeout=60)
        for table in tables:
            con.execute(f'DROP TABLE IF EXISTS "{phys(table)}"')
        con.commit()
        con.close()
    else:
        for table in tables:
            try:
                os.remove(os.path.join(home, f'{feed}.{table}.csv'))
            except FileNotFoundError:
                pass


# ------------------------------------------------------------------------------------------------ child (one process)
def child_main(home, feeds, stmts, rfd, wfd, stored):
    """Serve read requests inside one fresh process until the pipe closes."""
    os.environ['FORML_HOME'] = home
    os.chdir(home)
    import warnings
    warnings.simplefilter('ignore')
    import logging
    logging.disable(logging.CRITICAL)
    readers = {}
    built = {}

    def reader_of(name):
        if name not in readers:
            tables = {t: g.build(node) for t, node in g.TABLES.items()}
            if feeds[name] in ('alchemy', 'alchemy-shared'):
                from forml.provider.feed import alchemy
                path, phys = sql_storage(home, name, feeds[name])
                feed = alchemy.Feed(sources={tab: phys(t) for t, tab in tables.items()}, connection=f'sqlite:///{path}')
                readers[name] = type(feed).producer(feed.sources, feed.features, connection=f'sqlite:///{path}')
            else:
                from forml.provider.feed import monolite
                # configured for every table its storage is meant to hold - whether the file exists right now or not
                spec = {tab: os.path.join(home, f'{name}.{t}.csv') for t, tab in tables.items() if t in stored}
                feed = monolite.Feed(csv=spec)
                readers[name] = type(feed).producer(feed.sources, feed.features, origins=monolite.Csv.create(spec))
        return readers[name]

    with os.fdopen(rfd, 'r') as rin, os.fdopen(wfd, 'w') as wout:
        for line in rin:
            req = json.loads(line)
            try:
                sid = req['s']
                if sid not in built:
                    built[sid] = g.build(stmts[sid - 1])
                rows = reader_of(req['f'])(built[sid]).to_rows()
                reply = {'rows': relgen.enc_rows([list(r) for r in rows])}
            except BaseException as exc:  # pylint: disable=broad-except
                reply = {'error': f'{type(exc).__name__}: {exc}'[:300], 'trace': traceback.format_exc()[-600:]}
            wout.write(json.dumps(reply) + '\n')
            wout.flush()
    os._exit(0)


class Process:
    """One forked 'process' of a history."""

    def __init__(self, home, feeds, stmts, stored):
        to_child_r, to_child_w = os.pipe()
        from_child_r, from_child_w = os.pipe()
        self.pid = os.fork()
        if self.pid == 0:
            os.close(to_child_w)
            os.close(from_child_r)
            try:
                child_main(home, feeds, stmts, to_child_r, from_child_w, stored)
            finally:
                os._exit(1)
        os.close(to_child_r)
        os.close(from_child_w)
        self.out = os.fdopen(to_child_w, 'w')
        self.inp = os.fdopen(from_child_r, 'r')

    def read(self, feed, sid):
        self.out.write(json.dumps({'f': feed, 's': sid}) + '\n')
        self.out.flush()
        line = self.inp.readline()
        if not line:
            return {'error': 'process died'}
        return json.loads(line)

    def stop(self):
        try:
            self.out.close()
            self.inp.close()
        finally:
            os.waitpid(self.pid, 0)


def replay(req):
    home = tempfile.mkdtemp(prefix='verif-feeds-')
    proc = None
    reads = []
    try:
        current = dict(req['start'])
        stored = sorted({t for content in req['contents'] for t in content})
        for name, kind in req['feeds'].items():
            if name in req.get('unavail', ()):
                drop_storage(home, name, kind, stored)
            else:
                write_storage(home, name, kind, req['contents'][current[name] - 1])
        for pos, act in enumerate(req['hist'], start=1):
            if act['a'] == 'read':
                if proc is None:
                    proc = Process(home, req['feeds'], req['stmts'], stored)
                res = proc.read(act['f'], act['s'])
                res['at'] = pos
                reads.append(res)
            elif act['a'] == 'mutate':
                current[act['f']] = current[act['f']] % len(req['contents']) + 1
                write_storage(home, act['f'], req['feeds'][act['f']], req['contents'][current[act['f']] - 1])
            elif act['a'] == 'break':
                drop_storage(home, act['f'], req['feeds'][act['f']], stored)
            elif act['a'] == 'restart':
                if proc is not None:
                    proc.stop()
                    proc = None
    finally:
        if proc is not None:
            proc.stop()
        shutil.rmtree(home, ignore_errors=True)
    return {'id': req['id'], 'reads': reads}


def replay_lazy(req):
    """Reads of one fresh process through a lazy feed reader whose origins record the columns they are asked for."""
    home = tempfile.mkdtemp(prefix='verif-lazy-')
    rfd, wfd = os.pipe()
    pid = os.fork()
    if pid == 0:
        os.close(rfd)
        try:
            os.environ['FORML_HOME'] = home
            os.chdir(home)
            import warnings
            warnings.simplefilter('ignore')
            import logging
            logging.disable(logging.CRITICAL)
            reads = []
            for ast in req['stmts']:
                seen = relgen.lazy_columns(ast)
                reads.append({'res': seen['res'], 'cols': [[t, c] for t, c in sorted(seen['cols'].items())]})
            with os.fdopen(wfd, 'w') as fh:
                json.dump(reads, fh)
        except BaseException as exc:  # pylint: disable=broad-except
            with os.fdopen(wfd, 'w') as fh:
                json.dump({'fatal': f'{type(exc).__name__}: {exc}', 'trace': traceback.format_exc()[-1500:]}, fh)
        finally:
            os._exit(0)
    os.close(wfd)
    try:
        with os.fdopen(rfd, 'r') as fh:
            text = fh.read()
        os.waitpid(pid, 0)
    finally:
        shutil.rmtree(home, ignore_errors=True)
    reads = json.loads(text) if text else {'fatal': 'the reading process died'}
    if isinstance(reads, dict):
        return {'id': req['id'], 'fatal': reads['fatal'], 'trace': reads.get('trace')}
    return {'id': req['id'], 'reads': reads}


def preload():
    """Import (in the zygote) every third-party module forml pulls in, learnt from a throw-away child, so that a
    process segment only pays for importing forml itself."""
    rfd, wfd = os.pipe()
    pid = os.fork()
    if pid == 0:
        os.close(rfd)
        home = tempfile.mkdtemp(prefix='verif-probe-')
        try:
            os.environ['FORML_HOME'] = home
            os.chdir(home)
            import warnings
            warnings.simplefilter('ignore')
            from forml.provider.feed import alchemy, monolite  # noqa: F401 pylint: disable=unused-import
            import duckdb_engine  # noqa: F401 pylint: disable=unused-import
            names = [m for m in sys.modules if not m.startswith('forml') and not m.startswith('harness')]
            with os.fdopen(wfd, 'w') as fh:
                json.dump(names, fh)
        finally:
            os.chdir('/')
            shutil.rmtree(home, ignore_errors=True)
            os._exit(0)
    os.close(wfd)
    with os.fdopen(rfd, 'r') as fh:
        text = fh.read()
    os.waitpid(pid, 0)
    import importlib
    for name in json.loads(text or '[]'):
        try:
            importlib.import_module(name)
        except Exception:  # pylint: disable=broad-except
            pass
    assert not any(m == 'forml' or m.startswith('forml.') for m in sys.modules), 'zygote must never import forml'


def main():
    import warnings
    warnings.simplefilter('ignore')
    preload()
    sys.stdout.write(json.dumps({'ready': True}) + '\n')
    sys.stdout.flush()
    for line in sys.stdin:
        line = line.strip()
        if not line:
            continue
        req = json.loads(line)
        try:
            reply = replay_lazy(req) if req.get('kind') == 'lazy' else replay(req)
        except BaseException as exc:  # pylint: disable=broad-except
            reply = {'id': req.get('id'), 'fatal': f'{type(exc).__name__}: {exc}', 'trace': traceback.format_exc()[-1500:]}
        sys.stdout.write(json.dumps(reply) + '\n')
        sys.stdout.flush()


if __name__ == '__main__':
    main()
