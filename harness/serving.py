"""Real serving set-up for C16: a project package with a stamping model, a feed, descriptors and an inventory.

Everything that crosses a process boundary (the engine spawns a pool process per model instance which forks workers)
lives in this importable module.
"""
import json
import os
import pathlib
import time

from forml import application as appmod
from forml import flow, io
from forml.io import asset, dsl, layout
from forml.io.dsl import parser as parsmod

PROJECT = 'servprj'
RELEASE = '1'


class T(dsl.Schema):
    rid = dsl.Field(dsl.Integer())
    delay = dsl.Field(dsl.Integer())
    y = dsl.Field(dsl.Integer())


TRAIN = ((1, 0, 5), (2, 0, 7))


class Feed(io.Feed[str, str]):
    """Minimal feed: training data is a constant table; serving data comes with the request entry."""

    class Reader(io.Feed.Reader[str, str, layout.RowMajor]):
        class Parser(parsmod.Visitor[str, str]):
            resolve_feature = generate_alias = generate_expression = generate_join = generate_literal = generate_set = lambda *_: ''
            generate_reference = lambda *_: ('', '')

            def generate_element(self, origin, element):
                return f'{origin}-{element}'

            def generate_query(self, source, features, where, groupby, having, orderby, rows):
                return f'n{len(features)}'

        @classmethod
        def parser(cls, sources, features):
            return cls.Parser(sources, features)

        @classmethod
        def read(cls, statement, **kwargs):
            return TRAIN if statement == 'n3' else tuple(r[:2] for r in TRAIN)

    @property
    def sources(self):
        return {T: 't'}


def _trace(event, **fields):
    from forml.runtime._service import prediction
    hook = getattr(prediction, '_verif', None)
    if hook:
        hook(event, **fields)


class Model(flow.Actor):
    """Stateful model: every (incremental) training bumps `stamp`, so every generation answers with its own stamp.
    apply() answers (rid, stamp) per row after sleeping the delay carried by the row."""

    def __init__(self):
        self.stamp = 0

    def train(self, features, labels):
        self.stamp += 1

    def apply(self, features):
        rows = [tuple(r) for r in features]
        out = []
        for r in rows:
            if int(r[1]) == POISON:
                import forml
                raise forml.InvalidError(f'request {int(r[0])} cannot be processed')
            time.sleep(int(r[1]) / 1000.0)
            _trace('exec', rid=int(r[0]), stamp=self.stamp)
            out.append((int(r[0]), self.stamp))
        return out

    def get_state(self):
        return json.dumps(self.stamp).encode()

    def set_state(self, state):
        if state:
            self.stamp = json.loads(state.decode())


POISON = 777


class Echo(flow.Actor):
    """Stateless branch answering the request id of every row."""

    def apply(self, features):
        return [int(tuple(r)[0]) for r in features]


class Join(flow.Actor):
    """Reducer of the three branches: (rid seen by the first branch, rid and stamp of the model, rid of the third)."""

    def apply(self, first, model, third):
        return [(a, b[0], b[1], c) for a, b, c in zip(first, model, third)]


class Desc(appmod.Descriptor):
    """Application bound to an explicit generation; CSV in, CSV out through the real codec lookup."""

    def __init__(self, name, generation):
        self._name = name
        self._selector = appmod.Explicit(PROJECT, RELEASE, generation)

    @property
    def name(self):
        return self._name

    def receive(self, request):
        return layout.Request.Decoded(layout.get_decoder(request.payload.encoding).loads(request.payload.data), None)

    def select(self, registry, context, stats):
        return self._selector.select(registry, context, stats)

    def respond(self, outcome, encoding, context):
        encoder = layout.get_encoder(*encoding)
        return layout.Payload(encoder.dumps(outcome), encoder.encoding)


class Inventory(asset.Inventory):
    def __init__(self, descriptors):
        self._content = {d.name: d for d in descriptors}

    def list(self):
        return self._content.keys()

    def get(self, application):
        return self._content[application]

    def put(self, descriptor):
        raise NotImplementedError()


class RacingInventory(Inventory):
    """Inventory that steers two concurrent first lookups into the interleaving TLC found in DescriptorCache.tla: the first
    caller of list() is parked inside the call until another lookup has fetched its descriptor."""

    def __init__(self, descriptors):
        import threading
        super().__init__(descriptors)
        self._lock = threading.Lock()
        self._calls = 0
        self._fetched = threading.Event()

    def list(self):
        with self._lock:
            first = self._calls == 0
            self._calls += 1
        names = list(self._content.keys())
        if first:
            self._fetched.wait(timeout=10)
        return names

    def get(self, application):
        self._fetched.set()
        return self._content[application]


MANIFEST = f"NAME = '{PROJECT}'\nVERSION = '{RELEASE}'\nPACKAGE = 'servpkg'\nMODULES = {{}}\n"
SOURCE_PY = '''from forml import project
from harness import serving
project.setup(project.Source.query(serving.T.select(serving.T.rid, serving.T.delay), serving.T.y))
'''
PIPELINE_PY = '''from forml import project
from forml.pipeline import payload
from harness import serving
# the source output fans out to three branches (the middle one is the stateful model), re-joined by the reducer
project.setup(payload.MapReduce(serving.Echo.builder(), serving.Model.builder(), serving.Echo.builder(),
                                reducer=serving.Join.builder()))
'''


def _publish_and_train(root, generations):
    from forml import project
    from forml.provider.registry.filesystem import posix
    from forml.provider.runner import dask as daskrunner
    root = pathlib.Path(root)
    pkg = root / 'pkg'
    (pkg / 'servpkg').mkdir(parents=True)
    (pkg / '__4ml__.py').write_text(MANIFEST)
    (pkg / 'servpkg' / '__init__.py').write_text('')
    (pkg / 'servpkg' / 'source.py').write_text(SOURCE_PY)
    (pkg / 'servpkg' / 'pipeline.py').write_text(PIPELINE_PY)
    registry = posix.Registry(root / 'registry')
    directory = asset.Directory(registry)
    directory.get(PROJECT).put(project.Package(pkg))
    feed = Feed()
    for _ in range(generations):
        instance = asset.Instance(PROJECT, RELEASE, None, directory)
        daskrunner.Runner(instance, feed, None, scheduler='synchronous').train()


def setup_registry(root, generations):
    """Publish the package and train `generations` generations with the real dask runner (synchronous) - in a child
    process: importing dask.distributed installs tblib's pickling support for exceptions process-wide, which a serving
    process that never trains does not have (it changes what survives the trip back from the response-encoding pool)."""
    import multiprocessing

    from forml.provider.registry.filesystem import posix
    child = multiprocessing.get_context('fork').Process(target=_publish_and_train, args=(str(root), generations))
    child.start()
    child.join(600)
    if child.exitcode != 0:
        raise RuntimeError(f'training the serving fixture failed (exit code {child.exitcode})')
    return posix.Registry(pathlib.Path(root) / 'registry'), Feed()
