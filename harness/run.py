"""Entry point: python -m harness.run <ID> [--tier quick|thorough] [--replay PATH]."""
import argparse
import importlib
import os
import sys
import traceback


def _cleanup(box):
    import shutil
    os.chdir('/')
    shutil.rmtree(box, ignore_errors=True)


def _broken(chk, args, why):
    """The machinery broke down.  Property violations observed on the real code BEFORE that stay what they are (a changed
    tree may break a later stage of the check as well): they are reported and the check exits 1; otherwise exit 2."""
    print(f'MACHINERY-ERROR property={args.pid}: {why}', file=sys.stderr)
    if not args.replay and chk.violations:
        chk.assume(f'the check did not complete (machinery error after the violations were observed): {why[:300]}')
        return chk.finish()
    return 2


def main():
    ap = argparse.ArgumentParser()
    ap.add_argument('pid')
    ap.add_argument('--tier', default=os.environ.get('VERIF_TIER') or 'quick', choices=['quick', 'thorough'])
    ap.add_argument('--replay')
    args = ap.parse_args()
    seed = int(os.environ.get('VERIF_SEED') or 0)
    if args.replay:
        args.replay = os.path.abspath(args.replay)
    from harness import common, tlc
    box = common.sandbox()
    sys.path.insert(0, common.REPO)
    chk = common.Check(args.pid, args.tier, seed)
    try:
        mod = importlib.import_module(f'harness.drivers.{args.pid}')
        if args.replay:
            rc = mod.replay(chk, args.replay)
        else:
            mod.main(chk)
            rc = chk.finish()
    except tlc.MachineryError as exc:
        rc = _broken(chk, args, str(exc))
    except SystemExit:
        raise
    except BaseException:  # pylint: disable=broad-except
        traceback.print_exc()
        rc = _broken(chk, args, 'driver crashed')
    sys.stdout.flush()
    sys.stderr.flush()
    os.chdir('/')
    import shutil
    shutil.rmtree(box, ignore_errors=True)
    _reap()
    os._exit(rc)  # skip lingering threads (dask / serving)


def _reap():
    """Kill whatever processes this run has left behind (pool / worker processes of an engine that could not be shut down
    would survive os._exit as orphans holding our stdout)."""
    import signal

    def children(pid):
        found = []
        for entry in os.listdir('/proc'):
            if entry.isdigit():
                try:
                    with open(f'/proc/{entry}/stat') as fh:
                        fields = fh.read().rsplit(')', 1)[1].split()
                    if int(fields[1]) == pid:
                        found.append(int(entry))
                except (OSError, IndexError, ValueError):
                    pass
        return found

    todo, seen = children(os.getpid()), []
    while todo:
        pid = todo.pop()
        seen.append(pid)
        todo.extend(children(pid))
    for pid in seen:
        try:
            os.kill(pid, signal.SIGKILL)
        except OSError:
            pass


if __name__ == '__main__':
    main()
