"""Entry point: python -m harness.run <ID> [--tier quick|thorough] [--replay PATH]."""
import argparse
import importlib
import os
import sys
import traceback


def _cleanup(box):
    import shutil
    os.chdir('/')
    shutil.rmtree(box, ignore_errors=True)


def main():
    ap = argparse.ArgumentParser()
    ap.add_argument('pid')
    ap.add_argument('--tier', default=os.environ.get('VERIF_TIER') or 'quick', choices=['quick', 'thorough'])
    ap.add_argument('--replay')
    args = ap.parse_args()
    seed = int(os.environ.get('VERIF_SEED') or 0)
    if args.replay:
        args.replay = os.path.abspath(args.replay)
    from harness import common, tlc
    box = common.sandbox()
    sys.path.insert(0, common.REPO)
    chk = common.Check(args.pid, args.tier, seed)
    try:
        mod = importlib.import_module(f'harness.drivers.{args.pid}')
        if args.replay:
            rc = mod.replay(chk, args.replay)
        else:
            mod.main(chk)
            rc = chk.finish()
    except tlc.MachineryError as exc:
        print(f'MACHINERY-ERROR property={args.pid}: {exc}', file=sys.stderr)
        _cleanup(box)
        sys.exit(2)
    except SystemExit:
        raise
    except BaseException:  # pylint: disable=broad-except
        traceback.print_exc()
        print(f'MACHINERY-ERROR property={args.pid}: driver crashed', file=sys.stderr)
        _cleanup(box)
        sys.exit(2)
    sys.stdout.flush()
    sys.stderr.flush()
    os.chdir('/')
    import shutil
    shutil.rmtree(box, ignore_errors=True)
    os._exit(rc)  # skip lingering threads (dask / serving)


if __name__ == '__main__':
    main()
