"""Thin, defensive wrapper around TLC: run, parse statistics / coverage / printed values."""
import json
import os
import re
import shutil
import subprocess
import tempfile
import time

JAR = '/opt/veriftools/tla/tla2tools.jar:/opt/veriftools/tla/CommunityModules-deps.jar'
SPECS = os.path.join(os.path.dirname(os.path.dirname(os.path.abspath(__file__))), 'specs')


class MachineryError(Exception):
    """TLC did not do what was asked (parse error, timeout, vacuity...) - exit 2, never a verdict."""


class Result:
    def __init__(self):
        self.generated = 0
        self.distinct = 0
        self.depth = 0
        self.ok = False
        self.violated = None  # name of violated invariant / property
        self.errors = []
        self.coverage = {}  # action name -> (distinct, generated)
        self.printed = []  # raw PrintT payload strings
        self.stdout = ''
        self.wall = 0.0
        self.cmd = ''

    def json_prints(self):
        """PrintT(ToJson(x)) lines decoded."""
        out = []
        for p in self.printed:
            try:
                out.append(json.loads(p))
            except ValueError:
                pass
        return out

    def tuples(self, head):
        """PrintT(<<"HEAD", a, b...>>) lines -> list of python lists (ints / strings only)."""
        out = []
        for m in re.finditer(r'^<<"%s", (.*)>>$' % re.escape(head), self.stdout, re.M):
            out.append(parse_tla(m.group(1), seq=True))
        return out


_TOK = re.compile(r'\s*(<<|>>|\{|\}|\[|\]|\|->|,|"(?:[^"\\]|\\.)*"|-?\d+|[A-Za-z_][A-Za-z0-9_]*|:>|@@|\(|\))')


def parse_tla(text, seq=False):
    """Parse a printed TLA+ value (sequences, sets, records, functions via :> @@, ints, strings, TRUE/FALSE)."""
    toks = _TOK.findall(text)
    pos = [0]

    def peek():
        return toks[pos[0]] if pos[0] < len(toks) else None

    def eat(t=None):
        tok = toks[pos[0]]
        if t is not None and tok != t:
            raise ValueError(f'expected {t} got {tok} in {text[:80]}')
        pos[0] += 1
        return tok

    def items(close):
        res = []
        if peek() == close:
            eat()
            return res
        while True:
            res.append(value())
            if peek() == ',':
                eat()
                continue
            eat(close)
            return res

    def atom():
        tok = eat()
        if tok == '<<':
            return items('>>')
        if tok == '{':
            return {'$set': items('}')}
        if tok == '(':
            v = value()
            eat(')')
            return v
        if tok == '[':
            rec = {}
            if peek() == ']':
                eat()
                return rec
            while True:
                key = eat()
                eat('|->')
                rec[key] = value()
                if peek() == ',':
                    eat()
                    continue
                eat(']')
                return rec
        if tok.startswith('"'):
            return json.loads(tok)
        if tok == 'TRUE':
            return True
        if tok == 'FALSE':
            return False
        if re.fullmatch(r'-?\d+', tok):
            return int(tok)
        return {'$id': tok}

    def value():
        left = atom()
        if peek() == ':>':
            fn = {}
            while True:
                eat(':>')
                fn[_key(left)] = atom()
                if peek() == '@@':
                    eat()
                    left = atom()
                    continue
                return {'$fn': fn}
        return left

    def _key(k):
        return k if isinstance(k, (int, str)) else json.dumps(k, sort_keys=True)

    if seq:
        res = []
        while pos[0] < len(toks):
            res.append(value())
            if peek() == ',':
                eat()
        return res
    return value()


def run(module, cfg=None, *, workers=16, timeout=1500, coverage=True, env=None, simulate=None, depth=None,
        seed=None, extra=(), deadlock=None, dfs=False, check=True, heap=None):
    """Run TLC on specs/<module>.tla with specs/<cfg>; return Result. Raises MachineryError on tool failure."""
    spec = module if module.endswith('.tla') else module + '.tla'
    cfg = cfg or (os.path.splitext(spec)[0] + '.cfg')
    meta = tempfile.mkdtemp(prefix='tlcmeta-', dir=os.environ.get('VERIF_TLC_TMP') or None)
    cmd = ['java', '-XX:+UseParallelGC']
    if heap:
        cmd.append(f'-Xmx{heap}')
    cmd.append(f'-Djava.io.tmpdir={meta}')   # TLC unpacks its standard modules into java.io.tmpdir
    if dfs:
        cmd.append('-Dtlc2.tool.queue.IStateQueue=StateDeque')
    cmd += ['-cp', JAR, 'tlc2.TLC', '-workers', str(workers), '-metadir', meta, '-noGenerateSpecTE']
    if coverage and not simulate:
        cmd += ['-coverage', '1']
    if simulate:
        cmd += ['-simulate', simulate]
    if depth:
        cmd += ['-depth', str(depth)]
    if seed is not None:
        cmd += ['-seed', str(seed)]
    if deadlock is False:
        cmd += ['-deadlock']
    cmd += list(extra) + ['-config', cfg, spec]
    full_env = dict(os.environ)
    full_env.pop('JAVA_TOOL_OPTIONS', None)
    if env:
        full_env.update({k: str(v) for k, v in env.items()})
    res = Result()
    res.cmd = ' '.join(cmd)
    t0 = time.time()
    try:
        proc = subprocess.run(cmd, cwd=SPECS, env=full_env, capture_output=True, text=True, timeout=timeout)
    except subprocess.TimeoutExpired as exc:
        raise MachineryError(f'TLC timeout after {timeout}s: {res.cmd}') from exc
    finally:
        shutil.rmtree(meta, ignore_errors=True)
    res.wall = time.time() - t0
    out = proc.stdout
    res.stdout = out
    for m in re.finditer(r'^(\d+) states generated, (\d+) distinct states found', out, re.M):
        res.generated, res.distinct = int(m.group(1)), int(m.group(2))
    m = re.search(r'depth of the complete state graph search is (\d+)', out)
    if m:
        res.depth = int(m.group(1))
    m = re.search(r'Invariant (\S+) is violated', out)
    if m:
        res.violated = m.group(1)
    m = re.search(r'(?:Action|Temporal) propert(?:y|ies) (\S+)? ?(?:is|were) violated', out)
    if m and not res.violated:
        res.violated = m.group(1) or 'temporal'
    if 'Temporal properties were violated' in out and not res.violated:
        res.violated = 'temporal'
    res.errors = [l for l in out.splitlines() if l.startswith('Error:')]
    # -coverage dumps periodically: only the last dump counts (earlier ones are prefixes of it)
    cut = out.rfind('The coverage statistics at')
    covtext = out[cut:] if cut >= 0 else ''
    for m in re.finditer(r'^<(\w+) line \d+, col \d+ to line \d+, col \d+ of module (\w+)(?: \([\d ]+\))?>: (\d+):(\d+)', covtext, re.M):
        name = m.group(1)
        d, g = int(m.group(3)), int(m.group(4))
        od, og = res.coverage.get(name, (0, 0))
        res.coverage[name] = (od + d, og + g)
    for line in out.splitlines():
        if line.startswith('"') and line.endswith('"') and len(line) > 1:
            try:
                res.printed.append(json.loads(line))
            except ValueError:
                pass
    res.ok = (proc.returncode == 0 and not res.errors)
    if check:
        if 'Parsing or semantic analysis failed' in out or 'Semantic errors' in out or proc.returncode in (150, 151, 152, 153, 154, 155, 75, 76, 77):
            raise MachineryError(f'TLC could not evaluate the spec ({proc.returncode}): {res.cmd}\n{out[-3000:]}\n{proc.stderr[-1000:]}')
        if proc.returncode != 0 and not res.violated:
            raise MachineryError(f'TLC failed rc={proc.returncode}: {res.cmd}\n{out[-3000:]}\n{proc.stderr[-1000:]}')
    return res


def require_coverage(res, actions):
    """Vacuity guard: each named action must have been taken at least once."""
    missing = [a for a in actions if res.coverage.get(a, (0, 0))[1] == 0]
    if missing:
        raise MachineryError(f'vacuous run, actions never taken: {missing} ({res.cmd})')
