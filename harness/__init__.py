"""Verification harness for formlio/forml (model-based, TLA+/TLC + conformance)."""
