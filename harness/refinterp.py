"""Independent dependency-ordered interpreter of a compiled symbol table (no runner involved)."""


class TableError(Exception):
    """The table is not executable (missing argument symbol, duplicate instruction, cycle)."""


def run(symbols):
    """Execute each instruction exactly once after its arguments; returns {instruction: value} in table order."""
    table = {}
    for sym in symbols:
        if sym.instruction in table:
            raise TableError(f'instruction {sym.instruction} listed twice')
        table[sym.instruction] = tuple(sym.arguments)
    values = {}
    active = set()

    def ev(ins):
        if ins in values:
            return values[ins]
        if ins not in table:
            raise TableError(f'argument {ins} is not a symbol of the table')
        if ins in active:
            raise TableError(f'cyclic dependency at {ins}')
        active.add(ins)
        args = [ev(a) for a in table[ins]]
        active.discard(ins)
        values[ins] = ins(*args)
        return values[ins]

    for ins in table:
        ev(ins)
    return values
