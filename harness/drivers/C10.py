"""C10 - ordinal windows deliver each record as the delivery semantic promises.

model:        specs/Windows.tla (+ WindowsBase.tla): every increasing bound sequence (open ends, explicit bounds or
              incremental trainings reading the lower bound from the last training tag), launches on a source without
              an ordinal, single trainings with explicit/default lower bound; one invariant per clause of the property
spec -> code: every behaviour TLC exports is replayed through project.Source.query(..., ordinal=, once=<spelling>) ->
              Feed.load -> extract.Statement.Prepared -> the real apply/train drivers -> alchemy parser -> SQLite
              (and, for a subset, through the real Runner.train / Runner.apply of the dask runner over a posix
              registry) for the ordinal kinds integer/float/date/timestamp/string; delivered record ids are compared
              with the windows TLC computed
code -> spec: all these observations plus randomized ones (wider domain, random multisets, longer sequences) are
              validated by specs/TraceWindows.tla (per launch: documented window; per chained trace: tiling clauses)
"""
import datetime
import itertools
import json
import logging
import os
import random
import tempfile
import time
import uuid

import sqlalchemy

from forml import flow, io, project
from forml.io import asset, dsl
from forml.pipeline import wrap
from forml.provider.feed import alchemy as falch
from forml.provider.feed.reader import alchemy as ralch
from forml.provider.registry.filesystem import posix
from forml.provider.runner import dask as daskr

from harness import common, regfix, tlc

NONE = -1
_D = datetime.date
_T = datetime.datetime

# ------------------------------------------------------------------------------------------------ encodings
# Order-preserving encodings of the abstract positions 0..9 (python order == SQLite order of the stored form).
# Each holds the falsy value of its kind (0, 0.0, '') where there is one, and values around it.
DOMAINS = {
    'integer': [-3, -2, -1, 0, 1, 2, 3, 9, 10, 11],
    'float': [-2.5, -1.0, -0.5, 0.0, 0.25, 0.5, 1.0, 1.5, 9.75, 10.5],
    'date': [_D(2019, 12, 30), _D(2019, 12, 31), _D(2020, 1, 1), _D(2020, 1, 2), _D(2020, 2, 28), _D(2020, 2, 29),
             _D(2020, 3, 1), _D(2020, 9, 30), _D(2020, 10, 1), _D(2020, 10, 10)],
    'timestamp': [_T(2019, 12, 31, 23, 59, 59), _T(2019, 12, 31, 23, 59, 59, 500000), _T(2020, 1, 1), _T(2020, 1, 1, 0, 0, 0, 1),
                  _T(2020, 1, 1, 0, 0, 1), _T(2020, 1, 1, 9, 59, 59), _T(2020, 1, 1, 10), _T(2020, 1, 2),
                  _T(2020, 2, 29, 12, 30), _T(2020, 10, 10, 10, 10, 10, 101010)],
    # binary collation: '' < ' ' < '10' < '9' < 'A' < 'a' < 'a b' < 'aa' < 'b' < 'é' (numeric reading would swap 10/9)
    'string': ['', ' ', '10', '9', 'A', 'a', 'a b', 'aa', 'b', 'é'],
}
KINDS = {'integer': (dsl.Integer(), sqlalchemy.Integer), 'float': (dsl.Float(), sqlalchemy.Float),
         'date': (dsl.Date(), sqlalchemy.Date), 'timestamp': (dsl.Timestamp(), sqlalchemy.DateTime),
         'string': (dsl.String(), sqlalchemy.Unicode)}
# spellings a bound may be passed in: the native python value, its str() (what the CLI --lower/--upper delivers)
# and another common spelling that only means the same value after a cast to the ordinal's kind
STR = {'integer': str, 'float': repr, 'date': str, 'timestamp': str, 'string': str}
ALT = {'integer': lambda v: f'{v:+d}', 'float': lambda v: f'{v:e}', 'date': lambda v: v.strftime('%Y/%m/%d'),
       'timestamp': lambda v: v.isoformat(), 'string': str}
FORMS = {'integer': ('native', 'str', 'alt'), 'float': ('native', 'str', 'alt'), 'date': ('native', 'str', 'alt'),
         'timestamp': ('native', 'str', 'alt'), 'string': ('native',)}
# spellings of the semantic accepted by Source.query(once=...) (case-insensitive)
ALIASES = {
    'atmost': ['atmost', 'most', 'at-most', 'atmostonce', 'at-most-once'],
    'atleast': ['atleast', 'least', 'at-least', 'atleastonce', 'at-least-once'],
    'exactly': ['exactly', 'exact', 'exactlyonce', 'exactly-once'],
}
SPELLINGS = {sem: [f(a) for a in names for f in (str, str.upper, str.capitalize)] for sem, names in ALIASES.items()}
SHAPES = ('select', 'where', 'table')


def enc(kind, idx, form='native'):
    """Concrete bound for native position idx of the kind's domain in the given spelling."""
    val = DOMAINS[kind][idx]
    if form == 'native':
        return val
    return (STR if form == 'str' else ALT)[kind](val)


# ------------------------------------------------------------------------------------------------ schemas
class OrdInteger(dsl.Schema):
    rid = dsl.Field(dsl.Integer())
    o = dsl.Field(dsl.Integer())
    y = dsl.Field(dsl.Integer())


class OrdFloat(dsl.Schema):
    rid = dsl.Field(dsl.Integer())
    o = dsl.Field(dsl.Float())
    y = dsl.Field(dsl.Integer())


class OrdDate(dsl.Schema):
    rid = dsl.Field(dsl.Integer())
    o = dsl.Field(dsl.Date())
    y = dsl.Field(dsl.Integer())


class OrdTimestamp(dsl.Schema):
    rid = dsl.Field(dsl.Integer())
    o = dsl.Field(dsl.Timestamp())
    y = dsl.Field(dsl.Integer())


class OrdString(dsl.Schema):
    rid = dsl.Field(dsl.Integer())
    o = dsl.Field(dsl.String())
    y = dsl.Field(dsl.Integer())


SCHEMAS = {'integer': OrdInteger, 'float': OrdFloat, 'date': OrdDate, 'timestamp': OrdTimestamp, 'string': OrdString}
DECOY = 1000  # ids of records outside the base statement of the 'where' shape (y = 1): must never be delivered


class SqlFeed(io.Feed):
    """Feed over explicit SQLAlchemy tables using forml's own alchemy reader/parser (no result cache)."""

    Reader = ralch.Reader

    def __init__(self, sources, **readerkw):
        super().__init__(**readerkw)
        self._sources = sources

    @property
    def sources(self):
        return self._sources


class World:
    """SQLite database holding one table per (kind, offset, data set)."""

    def __init__(self, url='sqlite://', cached=False):
        self.engine = sqlalchemy.create_engine(url)
        self.cached = cached
        self.feeds = {}

    def feed(self, kind, off, data, decoys):
        key = (kind, off, tuple(data), decoys)
        if key not in self.feeds:
            name = f'c10_{kind}_{len(self.feeds)}'
            meta = sqlalchemy.MetaData()
            table = sqlalchemy.Table(name, meta, sqlalchemy.Column('rid', sqlalchemy.Integer),
                                     sqlalchemy.Column('o', KINDS[kind][1]), sqlalchemy.Column('y', sqlalchemy.Integer))
            meta.create_all(self.engine)
            rows = [{'rid': k, 'o': DOMAINS[kind][off + pos], 'y': 0} for k, pos in enumerate(data, start=1)]
            if decoys:
                rows += [{'rid': DECOY + pos, 'o': DOMAINS[kind][pos], 'y': 1} for pos in range(len(DOMAINS[kind]))]
            if rows:
                with self.engine.begin() as conn:
                    conn.execute(table.insert(), rows)
            if self.cached:  # the real provider (file backed result cache keyed by SQL text; table names are unique)
                self.feeds[key] = falch.Feed(sources={SCHEMAS[kind]: name}, connection=self.engine)
            else:
                self.feeds[key] = SqlFeed({SCHEMAS[kind]: sqlalchemy.table(name)}, connection=self.engine)
        return self.feeds[key]


def build_source(case):
    """The project source descriptor of a case - public factory only."""
    table = SCHEMAS[case['kind']]
    if case['shape'] == 'table':
        features = table
    elif case['shape'] == 'where':
        features = table.select(table.rid, table.o).where(table.y == 0)
    else:
        features = table.select(table.rid, table.o)
    labels = table.y if case['labels'] and case['shape'] != 'table' else None
    if case['ordinal']:
        return project.Source.query(features, labels, ordinal=table.o, once=case['alias'])
    return project.Source.query(features, labels)


# ------------------------------------------------------------------------------------------------ execution
class Nodes(flow.Visitor):
    def __init__(self):
        self.nodes = []

    def visit_node(self, node):
        self.nodes.append(node)


def _ids(rows):
    return sorted(int(tuple(r)[0]) for r in rows)


def run_segment(segment):
    """Execute the extraction segment the way a runner would: the driver actor, then the label slicer if any."""
    visitor = Nodes()
    segment.accept(visitor)
    data = None
    for node in visitor.nodes:
        if not isinstance(node, flow.Worker):
            continue
        actor = node.builder()
        if node.szin == 0:
            data = actor.apply()
        else:  # label extractor: (features, labels)
            data = actor.apply(data)[0]
    return _ids(data.to_rows() if hasattr(data, 'to_rows') else data)


def concrete(case, launch):
    """Concrete (lower, upper, last) python values of a launch."""
    off = case['off']
    form = launch.get('form', case['form'])
    lower = None if launch['lo'] == NONE else enc(case['kind'], off + launch['lo'], form)
    upper = None if launch['hi'] == NONE else enc(case['kind'], off + launch['hi'], form)
    last = None if launch['last'] == NONE else enc(case['kind'], off + launch['last'])
    return lower, upper, last


def run_load(world, case):
    """Launch every window through Feed.load and the real drivers; -> {'apply': [event...], 'train': [event...]}."""
    source = build_source(case)
    feed = world.feed(case['kind'], case['off'], case['data'], case['shape'] == 'where')
    out = {'apply': [], 'train': []}
    for launch in case['launches']:
        lower, upper, _ = concrete(case, launch)
        trunk = err = None
        try:
            trunk = feed.load(source.extract, lower, upper).compose(flow.Origin())
        except Exception as exc:  # pylint: disable=broad-except
            err = exc
        for seg in ('apply', 'train'):
            event = {'via': 'load', 'lo': launch['lo'], 'hi': launch['hi'], 'last': NONE}
            try:
                if err is not None:
                    raise err
                event.update(res='ok', rows=run_segment(getattr(trunk, seg)))
            except Exception as exc:  # pylint: disable=broad-except
                event.update(res=_outcome(exc), rows=[], error=f'{type(exc).__name__}: {exc}'[:200])
            out[seg].append(event)
    return out


def _outcome(exc):  # pylint: disable=unused-argument
    """Any exception raised between Feed.load and the end of the read is a refusal (no rows delivered): on a source
    with ordinal a refusal is never acceptable, without ordinal it is required whenever a bound is given. The
    exception class is kept in the event for the report only (error classes/texts are not compared)."""
    return 'refused'


SEEN = []


class Recorder(flow.Actor):
    """Stateful pass-through recording the record ids reaching the pipeline."""

    def train(self, features, labels):
        SEEN.append(('train', _ids(features)))

    def apply(self, features):
        SEEN.append(('apply', _ids(features)))
        return features

    def get_state(self):
        return b'trained'

    def set_state(self, state):
        pass

    def get_params(self):
        return {}

    def set_params(self, **params):
        pass


RECORDER = wrap.Operator.mapper(Recorder)


class Registry(posix.Registry):
    """Posix registry whose single release is the in-memory artifact under test."""

    def __init__(self, path, artifact):
        super().__init__(path)
        self._artifact = artifact

    def mount(self, project, release):  # pylint: disable=redefined-outer-name
        return self._artifact


def run_runner(world, case):
    """Launch through the real Runner.train / Runner.apply (dask runner, synchronous scheduler) over a posix registry
    whose latest generation carries the given last training ordinal; -> {seg: [event...]}."""
    source = build_source(case)
    feed = world.feed(case['kind'], case['off'], case['data'], case['shape'] == 'where')
    root = tempfile.mkdtemp(prefix='reg-', dir=os.getcwd())
    regfix.publish(root, 'c10', '1')
    if case.get('entry') == 'eval':      # the evaluation entry point of the runner: the window is extracted the same way
        from forml import evaluation as evalmod
        spec = project.Evaluation(evalmod.Function(lambda true, pred: 0.0), evalmod.HoldOut(test_size=0.5, random_state=1))
        registry = Registry(root, source.bind(RECORDER(), evaluation=spec))
    else:
        registry = Registry(root, source.bind(RECORDER()))
    pkey, rkey = asset.Project.Key('c10'), asset.Release.Key('1')
    seg = 'train' if case['launches'][0]['via'] == 'train' else 'apply'
    events = []
    for launch in case['launches']:
        lower, upper, last = concrete(case, launch)
        directory = asset.Directory(registry)
        gens = [int(g) for g in directory.get('c10').get('1').list()]
        sid = uuid.uuid4()
        registry.write(pkey, rkey, sid, b'seed')
        tag = asset.Tag(training=asset.Tag.Training(datetime.datetime(2020, 1, 1), last), states=[sid])
        registry.close(pkey, rkey, asset.Generation.Key(max(gens, default=0) + 1), tag)
        instance = asset.Instance('c10', '1', None, asset.Directory(registry))
        runner = daskr.Runner(instance, feed, None, scheduler='synchronous')
        event = {'via': launch['via'], 'lo': launch['lo'], 'hi': launch['hi'], 'last': launch['last']}
        del SEEN[:]
        try:
            with runner:
                (runner.eval_perftrack if case.get('entry') == 'eval' else runner.train if seg == 'train' else runner.apply)(lower, upper)
            seen = [ids for mode, ids in SEEN if mode == seg]
            if len(seen) != 1:
                raise tlc.MachineryError(f'recorder saw {len(seen)} {seg} calls in one launch')
            event.update(res='ok', rows=seen[0])
        except tlc.MachineryError:
            raise
        except Exception as exc:  # pylint: disable=broad-except
            event.update(res=_outcome(exc), rows=[], error=f'{type(exc).__name__}: {exc}'[:200])
        events.append(event)
    return {seg: events}


def run_case(worlds, case):
    if case['launches'][0]['via'] == 'load':
        return run_load(worlds['load'], case)
    return run_runner(worlds['runner'], case)


# ------------------------------------------------------------------------------------------------ known findings
def falsy(value):
    """Python truthiness of a bound as passed by the caller (0, 0.0, '')."""
    return value is not None and not value


def classify(case, launch, history):
    """Input-class predicates of the open findings (known_findings.d/C10.json) - decided from the input (and, for the
    third class, from the inputs this process has been given before), never from the outcome.
    -> {segment: (finding id | None, twin launch | None)}"""
    lower, upper, _ = concrete(case, launch)
    if not case['ordinal']:
        given = [b for b in (lower, upper) if b is not None]
        if given and all(falsy(b) for b in given) and not (launch['via'] == 'train' and launch['last'] != NONE):
            return dict.fromkeys(('apply', 'train'), ('nonordinal-falsy-bound-accepted', None))
        return dict.fromkeys(('apply', 'train'), (None, None))
    if launch['via'] == 'train' and falsy(lower):
        return dict.fromkeys(('apply', 'train'), ('train-explicit-falsy-lower-replaced', None))
    # the statement denoted by this launch: schema, shape, (labels,) operators, bounds as values of the ordinal kind
    eff = launch['last'] if launch['via'] == 'train' and launch['lo'] == NONE else launch['lo']
    bounds = tuple(None if pos == NONE else DOMAINS[case['kind']][case['off'] + pos] for pos in (eff, launch['hi']))
    hashes = tuple(None if b is None else hash(b) for b in bounds)
    me = {'off': case['off'], 'via': launch['via'], 'lo': launch['lo'], 'hi': launch['hi'], 'last': launch['last'],
          'form': launch.get('form', case['form'])}
    out = {}
    for seg in ('apply', 'train'):
        if launch['via'] != 'load' and seg != launch['via']:  # statement not evaluated by this launch
            out[seg] = (None, None)
            continue
        labels = case['labels'] and case['shape'] != 'table' and seg == 'train'  # only the train statement carries them
        twins = history.setdefault((seg, case['kind'], case['shape'], labels, case['sem'], hashes), {})
        twin = next((t for b, t in twins.items() if b != bounds), None)
        twins.setdefault(bounds, me)
        # an earlier statement of this process differs only in bounds of equal python hash (-1 / -2)
        out[seg] = ('hash-colliding-bound-answered-from-twin-statement', twin) if twin is not None else (None, None)
    return out


# ------------------------------------------------------------------------------------------------ TLC glue
INVARIANTS = ['TypeOK', 'OnlyBoundsDeviate', 'NothingOutside', 'ExactlyOnce', 'AtMostOnce', 'AtLeastOnce', 'NeverThrice',
              'OpenEnds', 'RefuseBounds', 'ExplicitLowerWins', 'DefaultLowerFromTag']
ACTIONS = ['Launch', 'LaunchNonOrdinal', 'Train']


def cfg_windows(dmax, maxlen, variant, export, name):
    path = os.path.join(os.getcwd(), name)
    with open(path, 'w') as fh:
        fh.write(f'SPECIFICATION Spec\nCONSTANTS D = {dmax}\n MaxLen = {maxlen}\n Variant = "{variant}"\n')
        for inv in INVARIANTS + (['Export'] if export else []):
            fh.write(f'INVARIANT {inv}\n')
        fh.write('CHECK_DEADLOCK FALSE\n')
    return path


def trace_of(case, seg, events):
    return {'sem': case['sem'], 'ord': case['ordinal'], 'chain': case['chain'], 'data': case['data'],
            'ev': [{k: e[k] for k in ('via', 'lo', 'hi', 'last', 'res', 'rows')} for e in events]}


def validate(chk, traces, name='c10-traces.json'):
    """Run TraceWindows.tla over a batch; -> list of (matched, length) per trace."""
    path = common.write_json({'traces': traces}, name)
    res = chk.tlc('TraceWindows', 'TraceWindows.cfg', workers=1, env={'TRACE_FILE': path}, coverage=False,
                  timeout=3000)
    verdicts = {v[0]: (v[1], v[2]) for v in res.tuples('VERDICT')}
    if len(verdicts) != len(traces):
        raise tlc.MachineryError(f'expected {len(traces)} verdicts, got {len(verdicts)}')
    return [verdicts[i] for i in range(1, len(traces) + 1)]


# ------------------------------------------------------------------------------------------------ generators
class Rotor:
    """Deterministic rotation through the configuration axes so that every value (and every kind x semantic x form)
    is exercised, the starting point depending on the seed."""

    def __init__(self, rnd):
        self.rnd = rnd
        self.count = itertools.count(rnd.randrange(1000))
        self.spell = {sem: itertools.cycle(rnd.sample(sp, len(sp))) for sem, sp in SPELLINGS.items()}
        self.spelled = set()

    def alias(self, sem):
        alias = next(self.spell[sem])
        self.spelled.add(alias)
        return alias

    def combos(self, n):
        """n different (kind, form) pairs."""
        pairs = [(k, f) for k in DOMAINS for f in FORMS[k]]
        start = next(self.count)
        return [pairs[(start * 5 + j * 3) % len(pairs)] for j in range(n)]


def data_for(rnd, span, full=False):
    """A multiset of records over positions 0..span-1."""
    if full:
        return [p for p in range(span) for _ in range(2)]
    size = rnd.choice([0, 1, 3, 6, 9, 12])
    return sorted(rnd.randrange(span) for _ in range(size))


FALSY = {'integer': 3, 'float': 3, 'string': 0}  # native position of the falsy value of the kind (0, 0.0, '')


def case_from_behaviour(beh, kind, form, rotor, rnd, span, idx, off=None):
    """Concretise one behaviour exported by Windows.tla."""
    room = len(DOMAINS[kind]) - span
    if off is not None:
        pass
    elif kind == 'string':
        off = 0 if idx % 2 == 0 else rnd.randint(0, room)  # '' sits at position 0
    else:
        off = rnd.randint(0, min(3, room))  # 0 / 0.0 sit at position 3
    ordinal = beh['mode'] != 'nonord'
    shape = SHAPES[idx % len(SHAPES)]
    return {'origin': 'tlc', 'mode': beh['mode'], 'kind': kind, 'form': form, 'sem': beh['sem'],
            'alias': rotor.alias(beh['sem']) if ordinal else None, 'ordinal': ordinal, 'shape': shape,
            'labels': idx % 2 == 0, 'off': off, 'data': data_for(rnd, span, full=idx % 7 == 0),
            'chain': beh['mode'] == 'windows',
            'launches': [{'via': e['via'], 'lo': e['lo'], 'hi': e['hi'], 'last': e['last']} for e in beh['hist']],
            'expect': [{'res': e['res'], 'pos': sorted(e['rows'])} for e in beh['hist']]}


def through_runner(case, via=None):
    """Route a case through Runner.train / Runner.apply. The recording pipeline trains on (features, labels), so the
    source carries labels (a label-less training is outside the property)."""
    for launch in case['launches']:
        launch['via'] = via or launch['via']
    case['labels'] = True
    if case['shape'] == 'table':
        case['shape'] = 'select'
    return case


def random_case(rnd, rotor, via):
    """Beyond the constants of the model: 10 positions, longer sequences, random multisets, per launch spellings."""
    kind = rnd.choice(list(DOMAINS))
    sem = rnd.choice(list(SPELLINGS))
    span = len(DOMAINS[kind])
    bounds = sorted(rnd.sample(range(span), rnd.randint(1, 7)))
    edges = ([NONE] if rnd.random() < 0.4 else []) + bounds + ([NONE] if rnd.random() < 0.4 else [])
    if len(edges) < 2:
        edges.append(NONE)
    launches = []
    for lo, hi in zip(edges, edges[1:]):
        if via == 'train' and rnd.random() < 0.5:  # incremental: lower bound from the tag
            launch = {'via': 'train', 'lo': NONE, 'hi': hi, 'last': lo}
        elif via == 'train':  # explicit lower bound, the tag holds something else (nothing when the window is open)
            launch = {'via': 'train', 'lo': lo, 'hi': hi, 'last': NONE if lo == NONE else rnd.choice([NONE] + list(range(span)))}
        else:
            launch = {'via': via, 'lo': lo, 'hi': hi, 'last': NONE}
        launch['form'] = rnd.choice(FORMS[kind])
        launches.append(launch)
    return {'origin': 'random', 'mode': 'windows', 'kind': kind, 'form': 'native', 'sem': sem, 'alias': rotor.alias(sem),
            'ordinal': True, 'shape': rnd.choice(SHAPES), 'labels': rnd.random() < 0.5 or via != 'load', 'off': 0,
            'data': sorted(rnd.randrange(span) for _ in range(rnd.choice([0, 2, 5, 9, 14]))), 'chain': True,
            'launches': launches}


# ------------------------------------------------------------------------------------------------ main
def main(chk):
    logging.disable(logging.ERROR)  # forml logs every refused launch as an error
    rnd = random.Random(chk.seed)
    rotor = Rotor(rnd)
    worlds = {'load': World('sqlite://'), 'runner': World(f'sqlite:///{os.path.join(os.getcwd(), "c10.db")}', cached=True)}

    # ---- 1. model level: the documented semantics satisfy every clause, for all sequences inside the constants
    dmax, maxlen = (8, 9) if chk.quick else (11, 12)
    chk.tlc('Windows', cfg_windows(dmax, maxlen, 'doc', False, 'w-model.cfg'), require=ACTIONS, workers=4)
    for variant, inv in (('exactly_le', 'ExactlyOnce'), ('atmost_ge', 'AtMostOnce'), ('atleast_lt', 'AtLeastOnce')):
        res = chk.tlc('Windows', cfg_windows(4, 3, variant, False, f'w-{variant}.cfg'), expect_ok=False, workers=1, coverage=False)
        chk.selftest(f'model_refutes_{variant}', res.violated == inv)
    chk.extra['model'] = {'positions': f'0..{dmax}', 'bounds': f'<= {maxlen}', 'open_ends': 'all 4 combinations',
                          'semantics': sorted(SPELLINGS), 'launch_styles': ['explicit bounds', 'incremental from tag']}

    # ---- 2. spec -> code: behaviours exported by TLC replayed on the real extraction path
    exports = [(5, 4)] if chk.quick else [(5, 4), (6, 6)]
    cases = []
    runner_budget = {'windows': 20 if chk.quick else 120, 'train1': 50 if chk.quick else 350, 'nonord': 10 if chk.quick else 49}
    for round_, (dexp, lexp) in enumerate(exports):
        res = chk.tlc('Windows', cfg_windows(dexp, lexp, 'doc', True, f'w-export{round_}.cfg'), require=ACTIONS, workers=1)
        behaviours = res.json_prints()
        if not behaviours:
            raise tlc.MachineryError('Windows.tla exported no behaviour')
        span = dexp + 1
        loads = [b for b in behaviours if b['via'] == 'load']
        trains = {m: [b for b in behaviours if b['via'] == 'train' and b['mode'] == m] for m in ('windows', 'train1')}
        per = (2 if chk.quick else 5) if round_ == 0 else 1
        for idx, beh in enumerate(loads):
            for kind, form in rotor.combos(per):
                cases.append(case_from_behaviour(beh, kind, form, rotor, rnd, span, len(cases)))
        if round_ == 0:
            # Runner.train / Runner.apply: incremental windows, single trainings, refusals
            picked = rnd.sample(trains['windows'], min(runner_budget['windows'], len(trains['windows'])))
            falsy_first = sorted(trains['train1'], key=lambda b: (b['edges'][0] == NONE, rnd.random()))
            picked += falsy_first[:runner_budget['train1']]
            for idx, beh in enumerate(picked):
                kind, form = rotor.combos(1)[0]
                cases.append(through_runner(case_from_behaviour(beh, kind, form, rotor, rnd, span, len(cases))))
            # targeted: the falsy value of each kind that has one (0, 0.0, '') as explicit lower bound of a training
            # and as the only bound(s) given to a source without ordinal
            for kind, fpos in FALSY.items():
                off = min(fpos, 1)
                hits = [b for b in trains['train1'] if b['edges'][0] == fpos - off]
                for beh in rnd.sample(hits, 5 if chk.quick else 40):
                    cases.append(through_runner(case_from_behaviour(beh, kind, 'native', rotor, rnd, span, len(cases), off=off)))
                for beh in loads:
                    given = [e for e in beh['edges'] if e != NONE]
                    if beh['mode'] == 'nonord' and given and all(e == fpos - off for e in given):
                        cases.append(case_from_behaviour(beh, kind, 'native', rotor, rnd, span, len(cases), off=off))
            # targeted: two bounds of equal python hash (-1, -2) on otherwise identical statements, one after the other
            for sem in sorted(SPELLINGS):
                for edges in ([2, NONE], [1, NONE]):
                    beh = next(b for b in loads if b['mode'] == 'windows' and b['sem'] == sem and b['edges'] == edges)
                    case = case_from_behaviour(beh, 'integer', 'native', rotor, rnd, span, len(cases), off=0)
                    cases.append(dict(case, shape='select', labels=False))
            nonord = [b for b in loads if b['mode'] == 'nonord']
            for idx, beh in enumerate(rnd.sample(nonord, min(runner_budget['nonord'], len(nonord)))):
                kind, form = rotor.combos(1)[0]
                case = case_from_behaviour(beh, kind, form, rotor, rnd, span, len(cases))
                cases.append(through_runner(case, 'apply' if idx % 2 else 'train'))
            # Runner.apply passes explicit bounds straight through
            for idx, beh in enumerate(rnd.sample([b for b in loads if b['mode'] == 'windows'], 6 if chk.quick else 40)):
                kind, form = rotor.combos(1)[0]
                cases.append(through_runner(case_from_behaviour(beh, kind, form, rotor, rnd, span, len(cases)), 'apply'))
            # Runner.eval_perftrack (the evaluation entry point) extracts its window like Runner.apply
            for idx, beh in enumerate(rnd.sample([b for b in loads if b['mode'] == 'windows'], 6 if chk.quick else 40)):
                kind, form = rotor.combos(1)[0]
                cases.append(dict(through_runner(case_from_behaviour(beh, kind, form, rotor, rnd, span, len(cases)), 'apply'), entry='eval'))
    # ---- 3. code -> spec only: randomized cases beyond the constants of the model
    for _ in range(150 if chk.quick else 1200):
        cases.append(random_case(rnd, rotor, 'load'))
    for _ in range(6 if chk.quick else 60):
        cases.append(through_runner(random_case(rnd, rotor, rnd.choice(['train', 'apply']))))

    failures = {}  # (case index, segment, launch index) -> description
    traces, index = [], []
    combos = set()
    spent = {'load': 0.0, 'runner': 0.0}
    history = {}
    for cid, case in enumerate(cases):
        started = time.time()
        for launch in case['launches']:  # in launch order: the third class depends on what the process has seen
            launch['finding'] = classify(case, launch, history)
        observed = run_case(worlds, case)
        spent['load' if case['launches'][0]['via'] == 'load' else 'runner'] += time.time() - started
        combos.add((case['kind'], case['sem'] if case['ordinal'] else 'nonord', case['form']))
        for seg, events in observed.items():
            traces.append(trace_of(case, seg, events))
            index.append((cid, seg, events))
            if 'expect' not in case:
                continue
            # direct comparison with the windows TLC exported
            for n, (event, exp) in enumerate(zip(events, case['expect'])):
                want = [k for k, pos in enumerate(case['data'], start=1) if pos in exp['pos']] if exp['res'] == 'ok' else []
                if event['res'] != exp['res'] or event['rows'] != want:
                    failures.setdefault((cid, seg, n), describe(case, seg, n, event, exp['res'], want))
    # code -> spec: TLC judges every trace; a rejected trace is cut behind the rejected launch and its remainder judged
    # again (not chained any more), so that a failure never hides a later one
    corrupted = selftest_traces()  # binding self-tests: corrupted observations must be rejected by TLC
    queue = [(cid, seg, events, 0, cases[cid]['chain']) for cid, seg, events in index]
    rejected = {}  # (case index, segment, launch index) as judged by TraceWindows.tla
    accepted, rounds = 0, 0
    while queue:
        batch = [dict(trace_of(cases[cid], seg, events), chain=chain) for cid, seg, events, _, chain in queue]
        verdicts = validate(chk, batch + ([t for _, t in corrupted] if rounds == 0 else []), f'c10-traces-{rounds}.json')
        if rounds == 0:
            for (name, _), (matched, length) in zip(corrupted, verdicts[len(batch):]):
                chk.selftest(name, matched < length)
        pending = []
        for (cid, seg, events, base, _), (matched, length) in zip(queue, verdicts):
            if matched == length:
                accepted += base == 0
            elif matched == len(events):
                # every launch delivered its documented window, yet the tiling clauses fail: by Windows.tla this is
                # impossible for consecutive windows - the generator produced a sequence that is not chained
                raise tlc.MachineryError(f'case {cid} {seg}: launches accepted but tiling rejected (not a chained sequence?)')
            else:
                rejected[(cid, seg, base + matched)] = events[matched]
                if matched + 1 < len(events):
                    pending.append((cid, seg, events[matched + 1:], base + matched + 1, False))
        queue = pending
        rounds += 1
    # both directions must tell the same story wherever both have an opinion
    direct = {key for key in failures}
    judged = {key for key in rejected if 'expect' in cases[key[0]]}
    if direct != judged:
        raise tlc.MachineryError(f'TraceWindows and the exported windows disagree on {sorted(direct ^ judged)[:5]}')
    for (cid, seg, n), event in rejected.items():
        failures.setdefault((cid, seg, n), describe(cases[cid], seg, n, event, None, None))

    for (cid, seg, n), what in sorted(failures.items()):
        case = cases[cid]
        finding, twin = case['launches'][n]['finding'][seg]
        lite = dict(case, launches=[{k: v for k, v in l.items() if k != 'finding'} for l in case['launches']])
        lite.pop('expect', None)
        chk.fail(what, {'case': lite, 'segment': seg, 'launch': n, 'twin': twin}, finding=finding)
    chk.validated(accepted)
    for cid in (0, len(cases) // 3, len(cases) // 2, len(cases) - 1):
        case = cases[cid]
        seg, events = next((s, e) for c, s, e in index if c == cid)
        chk.sample({'kind': case['kind'], 'once': case['alias'], 'form': case['form'], 'shape': case['shape'],
                    'data_positions': case['data'], 'segment': seg,
                    'launches': [{'via': e['via'], 'lower': e['lo'], 'upper': e['hi'], 'last': e['last'], 'res': e['res'],
                                  'delivered_ids': e['rows']} for e in events]})
    chk.extra['cases'] = {'replayed_from_tlc': sum(1 for c in cases if c['origin'] == 'tlc'),
                          'randomized': sum(1 for c in cases if c['origin'] == 'random'),
                          'through_runner': sum(1 for c in cases if c['launches'][0]['via'] != 'load'),
                          'launches': sum(len(c['launches']) for c in cases), 'traces': len(traces)}
    chk.extra['replay_wall_s'] = {k: round(v, 1) for k, v in spent.items()}
    chk.extra['kind_semantic_form_combinations'] = len(combos)
    chk.extra['spellings_exercised'] = sorted(rotor.spelled)
    missing = [s for sp in SPELLINGS.values() for s in sp if s not in rotor.spelled]
    if missing:
        raise tlc.MachineryError(f'spellings never exercised: {missing}')
    chk.assume('ordinals are order-preserving encodings of 10 positions per kind; SQLite stores date/timestamp as ISO text '
               '(SQLAlchemy Date/DateTime), strings under binary collation')
    chk.assume('a refusal is any exception raised between Feed.load (or Runner.train/apply) and the end of the read')
    chk.assume('bounds are passed as native values, as str() and in one alternative spelling per kind; bounds of a '
               'foreign python type (e.g. datetime for a date ordinal) are outside the generator')
    chk.assume('a source without ordinal launched by Runner.train while the tag carries an ordinal is not generated '
               '(property silent)')


def describe(case, seg, n, event, want_res, want_rows, what=None):
    launch = case['launches'][n]
    lower, upper, last = concrete(case, launch)
    head = (f'{case["kind"]} ordinal once={case["alias"]!r}' if case['ordinal'] else f'{case["kind"]} source without ordinal')
    call = {'load': 'Feed.load', 'train': 'Runner.train', 'apply': 'Runner.apply'}[launch['via']]
    if case.get('entry') == 'eval':
        call = 'Runner.eval_perftrack'
    text = (f'{head}, {call}(lower={lower!r}, upper={upper!r})' + (f' with last training ordinal {last!r}' if launch['via'] == 'train' else '')
            + f' [{seg} driver, launch {n + 1}/{len(case["launches"])}]: {event["res"]}, delivered ids {event["rows"]}')
    if want_res is not None:
        text += f'; expected {want_res}' + (f' ids {want_rows}' if want_res == 'ok' else '')
    if event.get('error'):
        text += f' ({event["error"]})'
    if what:
        text += f'; {what}'
    return text


def selftest_traces():
    """Observations of a correct implementation, each corrupted in one field."""
    base = {'sem': 'exactly', 'ord': True, 'chain': True, 'data': [0, 1, 1, 2, 3, 5]}

    def ev(via, lo, hi, last, res, rows):
        return {'via': via, 'lo': lo, 'hi': hi, 'last': last, 'res': res, 'rows': rows}

    return [
        ('bound_record_delivered_twice_rejected',
         dict(base, ev=[ev('load', 1, 3, NONE, 'ok', [2, 3, 4]), ev('load', 3, NONE, NONE, 'ok', [5, 5, 6])])),
        ('upper_bound_record_included_under_exactly_rejected',
         dict(base, ev=[ev('load', 1, 3, NONE, 'ok', [2, 3, 4, 5])])),
        ('lower_bound_record_dropped_under_atleast_rejected',
         dict(base, sem='atleast', ev=[ev('load', 1, 3, NONE, 'ok', [4, 5])])),
        ('falsy_bound_accepted_without_ordinal_rejected',
         dict(base, ord=False, chain=False, ev=[ev('load', 0, NONE, NONE, 'ok', [1, 2, 3, 4, 5, 6])])),
        ('explicit_lower_replaced_by_tag_ordinal_rejected',
         dict(base, chain=False, ev=[ev('train', 0, NONE, 3, 'ok', [5, 6])])),
        ('tag_ordinal_ignored_rejected',
         dict(base, chain=False, ev=[ev('train', NONE, NONE, 3, 'ok', [1, 2, 3, 4, 5, 6])])),
    ]


def replay(chk, path):
    with open(path) as fh:
        rep = json.load(fh)['replay']
    print(json.dumps(rep, indent=1, default=str))
    logging.disable(logging.ERROR)  # forml logs every refused launch as an error
    case = rep['case']
    worlds = {'load': World('sqlite://'), 'runner': World(f'sqlite:///{os.path.join(os.getcwd(), "c10.db")}', cached=True)}
    if rep.get('twin'):  # the statement this process must have seen before (bounds of equal python hash)
        twin = dict(rep['twin'])
        run_case(worlds, dict(case, off=twin.pop('off'), launches=[twin]))
    observed = run_case(worlds, case)
    events = observed[rep['segment']]
    (matched, length), = validate(chk, [trace_of(case, rep['segment'], events)])
    for n, event in enumerate(events):
        print(describe(case, rep['segment'], n, event, None, None))
    print(f'TraceWindows: matched {matched} of {length}')
    return 1 if matched < length else 0
