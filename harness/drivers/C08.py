"""C08 - DSL objects are equal / hash-equal exactly when structurally identical; caches keyed by them never confuse
statements; identity survives pickling and does not depend on what else exists in the process.

model:        specs/Identity.tla - dictionary (Put/Get) and memoising cache (Call) parameterised by the key relation;
              TLC shows NoConfusion /\\ Interchangeable hold in every reachable state IFF the relation is structural
              equality (all 64 symmetric relations over 2 structures x 2 copies)
spec -> code: the requirement-level histories of Identity.tla are replayed on real python dicts keyed by DSL objects and
              on the real parser cache (forml.io._input._producer.Reader._parse_statement of the alchemy reader)
code -> spec: the implementation's key relation is measured on pairs of objects built from harness.dslgen terms
              (identical, rebuilt from scratch; one leaf changed - incl. literals with colliding python hashes) for ==,
              hash, dict / set membership, pickling, the parser cache and item access; specs/TraceIdentity.tla judges every
              record against equality of the abstract terms
"""
import collections
import concurrent.futures
import itertools
import json
import multiprocessing
import os
import pickle
import random
import subprocess
import sys
import threading
import time

from harness import common, dslgen as g, tlc
from harness.drivers.C07 import has_unnamed_output

PROCS = int(os.environ.get('VERIF_PROCS') or 8)
CHUNK = 1500        # observations (two terms each) per TraceIdentity run
FINDING_HASH = 'hash-based-equality'
FINDING_TYPE = 'source-eq-ignores-type'
CLAUSES = ('eq', 'eq_reversed', 'hash', 'dict', 'set', 'pickle', 'attribute_access', 'parser_cache', 'item_access',
           'pickle_after_use', 'hash_consistency')
FINDING_PICKLE = 'predicate-factors-unpicklable'
FINDING_UNNAMED = 'unnamed-output-unpicklable'
FINDING_KIND = 'compound-kind-unpicklable'
FINDING_ALIAS = 'operable-eq-strips-alias'


# --------------------------------------------------------------------------------------------- input classes
def _diffs(a, b, out):
    """Collect the minimal differing sub-terms of two abstract terms."""
    if isinstance(a, dict) and isinstance(b, dict):
        if a.get('f') == 'lit' and b.get('f') == 'lit':
            if a != b:
                out.append(('lit', a, b))
            return
        if a.get('t') == 'table' and b.get('t') == 'table':
            if a != b:
                out.append(('table' if a['cols'] == b['cols'] else 'other', a, b))
            return
        if a.keys() != b.keys():
            out.append(('sort', a, b))
            return
        if a.get('f') != b.get('f') or a.get('t') != b.get('t'):
            out.append(('sort', a, b))
            return
        for k in a:
            _diffs(a[k], b[k], out)
    elif isinstance(a, list) and isinstance(b, list) and len(a) == len(b):
        for x, y in zip(a, b):
            _diffs(x, y, out)
    elif a != b:
        out.append(('other', a, b))


def colliding_literals_only(a, b):
    """Input class of FINDING_HASH: the terms differ, and only in literal leaves of the same kind whose python
    hashes collide."""
    out = []
    _diffs(a, b, out)
    return bool(out) and all(
        tag == 'lit' and x['kind'] == y['kind'] and hash(g.lit_value(x)) == hash(g.lit_value(y)) for tag, x, y in out)


def table_names_only(a, b):
    """Input class of FINDING_TYPE (1): the terms differ only in the NAME of tables with identical fields."""
    out = []
    _diffs(a, b, out)
    return bool(out) and all(tag == 'table' for tag, _, _ in out)


def alias_against_element(a, b):
    """Input class of FINDING_TYPE (2): at some position one term holds an aliased feature (or a source) where the
    other holds a feature of another class."""
    out = []
    _diffs(a, b, out)
    return any(tag == 'sort' and ('alias' in (x.get('f'), y.get('f')) or g.is_source(x) != g.is_source(y))
               for tag, x, y in out)


def alias_dropped(a, b):
    """Input class of FINDING_ALIAS: at some position one term holds an aliased feature and the other the very operable
    behind that alias."""
    out = []
    _diffs(a, b, out)
    return any(tag == 'sort' and ((x.get('f') == 'alias' and x['args'][0] == y) or (y.get('f') == 'alias' and y['args'][0] == x))
               for tag, x, y in out)


def has_predicate(term):
    """Input class of FINDING_PICKLE: the term contains a comparison / logical operator (an object with .factors)."""
    return any(g.is_feature(n) and n['f'] == 'op' and n['op'] in g.COMPARE + g.LOGICAL + g.NULLTEST
               for _, n in g.walk(term))


def classify(pair, failing=(), note=''):
    """Known-finding input class of a failing pair (None: unknown -> VIOLATION).  The pickling classes only cover the
    failure they describe: an exception of the named type raised by pickle, never a round trip that silently returns
    something else."""
    a, b = pair['a'], pair['b']
    if pair['sort'] == 'kind' and failing and set(failing) <= {'pickle'} and a['k'] in ('array', 'map', 'struct'):
        return FINDING_KIND
    if pair['sort'] not in ('source', 'feature', 'mixed'):
        return None
    if failing and set(failing) <= {'pickle', 'pickle_after_use'}:
        raised = {'pickle': 'pickle:', 'pickle_after_use': 'pickle_used:'}
        if has_unnamed_output(a) and all(raised[f] + 'RecursionError' in note or raised[f] + 'TypeError' in note for f in failing):
            return FINDING_UNNAMED
        if has_predicate(a) and all(raised[f] + 'TypeError' in note for f in failing):
            return FINDING_PICKLE
        return None
    if colliding_literals_only(a, b):
        return FINDING_HASH
    if alias_dropped(a, b):
        return FINDING_ALIAS
    if table_names_only(a, b) or alias_against_element(a, b):
        return FINDING_TYPE
    return None


# --------------------------------------------------------------------------------------------- pair generation
def kind_term(name, args=(), names=()):
    return {'k': name, 'names': list(names), 'args': list(args)}


def kind_terms():
    prim = [kind_term(k) for k in ('int', 'float', 'str', 'bool', 'date', 'ts', 'decimal')]
    i, f, s = prim[0], prim[1], prim[2]
    comp = [kind_term('array', [i]), kind_term('array', [f]), kind_term('array', [kind_term('array', [i])]),
            kind_term('map', [s, i]), kind_term('map', [s, f]), kind_term('map', [i, s]),
            kind_term('struct', [i, s], ['a', 'b']), kind_term('struct', [i, f], ['a', 'b']),
            kind_term('struct', [i, s], ['a', 'c']), kind_term('struct', [s, i], ['b', 'a'])]
    return prim + comp


def schema_terms():
    base = [['i', 'int'], ['s', 'str'], ['f', 'float']]
    return [base, [['j', 'int'], ['s', 'str'], ['f', 'float']], [['i', 'float'], ['s', 'str'], ['f', 'float']],
            [['s', 'str'], ['i', 'int'], ['f', 'float']], base[:2], base + [['b', 'bool']], [['i', 'int']],
            [['i', 'str']]]


def statement_pool(chk, rnd):
    d1 = g.statements(1, False)
    d2 = [s for s in g.statements(2, False) if s['t'] == 'set' or s['l']['t'] == 'ref' and s['l']['l']['t'] != 'table']
    rich = g.statements(1, True)
    if chk.quick:
        picks = d1[::29] + d2[::37] + rnd.sample(rich, 25) + [g.random_statement(rnd, 2) for _ in range(8)]
    else:
        picks = d1[::8] + d2[::10] + rnd.sample(rich, 200) + [g.random_statement(rnd, 3) for _ in range(60)]
    # statements seeded with the literal values known to collide
    A = g.TABLES['A']
    ai, af = g.col(A, 'i'), g.col(A, 'f')
    for x, _ in g.COLLIDING_SAME_KIND:
        column = ai if isinstance(x, int) else af
        picks.append(g.query(A, [g.alias(g.op('add', column, g.lit(x)), 'v')], g.op('eq', column, g.lit(x))))
        picks.append(g.query(A, [], g.op('gt', column, g.lit(x)), (), None, [g.order_term(column)], [3, 0]))
    picks.append(g.query(A, [ai, g.alias(g.agg('sum', af), 't')], None, [ai], g.op('gt', g.agg('count', ai), g.lit(1))))
    picks.append(g.query(g.TABLES['B'], [], None, (), None, (), [1, 0]))
    picks.append(g.setop(g.query(g.TABLES['B']), g.query(g.TABLES['C']), 'union'))
    seen, out = set(), []
    for s in picks:
        if g.canon(s) not in seen:
            seen.add(g.canon(s))
            out.append(s)
    return out


def expand_term(term):
    """All pairs derived from one statement / origin: itself rebuilt, each one-leaf mutation, and the same for each of its
    top-level features."""
    pairs = [{'sort': 'source', 'label': 'identical', 'a': term, 'b': term}]
    for label, _, m in g.mutations(term):
        pairs.append({'sort': 'source', 'label': label, 'a': term, 'b': m})
    if respellable(term):
        pairs.append({'sort': 'source', 'label': 'respelled', 'a': term, 'b': term, 'respell': True})
    if term['t'] == 'query':
        feats = {g.canon(f): f for f in term['sel'] + [term['where'], term['having']] if f['f'] != 'nil'}
        for f in feats.values():
            pairs.append({'sort': 'feature', 'label': 'identical', 'a': f, 'b': f})
            for label, _, m in g.mutations(f):
                pairs.append({'sort': 'feature', 'label': label, 'a': f, 'b': m})
            if respellable(f):
                pairs.append({'sort': 'feature', 'label': 'respelled', 'a': f, 'b': f, 'respell': True})
    return pairs


def respellable(term):
    """The term holds a literal leaf whose value has another python spelling (dslgen.respell)."""
    return any(g.is_feature(n) and n['f'] == 'lit' and g.respell(g.lit_value(n)) is not None for _, n in g.walk(term))


def base_terms(chk, rnd):
    """Statements and origins the pairs are derived from."""
    return statement_pool(chk, rnd) + list(g.origins(1, False))


def fixed_pairs():
    """Pairs that are not derived from a statement: literal leaves, a source against a feature, kinds, schemas."""
    pairs = []
    for x, y in g.COLLIDING_SAME_KIND + g.COLLIDING_CROSS_KIND + [(1, 2), ('a', 'b'), (True, False), (0.5, 1.5)]:
        pairs.append({'sort': 'feature', 'label': 'literal' if type(x) is type(y) else 'literal_kind',
                      'a': g.lit(x), 'b': g.lit(y)})
    # literal leaves built from two python spellings of one value (a plain constant / the numpy or pandas scalar read back
    # from data, float zeros of either sign)
    import datetime
    for x in (7, -1, 0, 2.5, 0.0, -1.0, 'a', '', datetime.datetime(2020, 1, 1, 12)):
        pairs.append({'sort': 'feature', 'label': 'respelled', 'a': g.lit(x), 'b': g.lit(x), 'respell': True})
    # a source against a feature made of the same two items
    # (the other direction, feature == source, is the DSL comparison operator applied to a non-literal: an error by design)
    A = g.TABLES['A']
    pairs.append({'sort': 'mixed', 'label': 'sort', 'a': g.ref(A, 'i'), 'b': g.col(A, 'i')})
    kinds = kind_terms()
    for a, b in itertools.product(kinds, kinds):
        pairs.append({'sort': 'kind', 'label': 'identical' if a == b else 'kind', 'a': a, 'b': b})
    schemas = schema_terms()
    for a, b in itertools.product(schemas, schemas):
        pairs.append({'sort': 'schema', 'label': 'identical' if a == b else 'schema', 'a': a, 'b': b})
    return pairs


def pair_key(p):
    return p['sort'] + ('~' if p.get('respell') else '') + g.canon(p['a']) + g.canon(p['b'])


# --------------------------------------------------------------------------------------------- measurement
def build_kind(term):
    from forml.io import dsl
    prim = {'int': dsl.Integer, 'float': dsl.Float, 'str': dsl.String, 'bool': dsl.Boolean, 'date': dsl.Date,
            'ts': dsl.Timestamp, 'decimal': dsl.Decimal}
    if term['k'] in prim:
        return prim[term['k']]()
    args = [build_kind(a) for a in term['args']]
    if term['k'] == 'array':
        return dsl.Array(args[0])
    if term['k'] == 'map':
        return dsl.Map(args[0], args[1])
    return dsl.Struct(**dict(zip(term['names'], args)))


def build_schema(term, variant):
    """The same field list through two different public routes (functional / declarative)."""
    from forml.io import dsl
    kinds = {'int': dsl.Integer, 'float': dsl.Float, 'str': dsl.String, 'bool': dsl.Boolean}
    if variant == 0:
        return dsl.Schema.from_fields(*(dsl.Field(kinds[k](), name=n) for n, k in term), title='Functional')
    return g.make_table('Declared', term).schema


def construct(sort, term, second, respelled=False):
    if sort == 'kind':
        return build_kind(term)
    if sort == 'schema':
        return build_schema(term, 1 if second else 0)
    return g.build(term, fresh=second, respelled=respelled)


def sql_text(selectable):
    return str(selectable.compile(compile_kwargs={'literal_binds': True}))


def tables_of(term):
    return {(n['name'], tuple(map(tuple, n['cols']))) for _, n in g.walk(term) if g.is_source(n) and n['t'] == 'table'}


def make_reader(objs, terms):
    """alchemy reader whose source mapping covers every table of the given terms, keyed by the tables of `objs`."""
    from sqlalchemy import sql
    from forml.io import dsl
    from forml.provider.feed.reader import alchemy
    found = {}

    class Collect(dsl.Source.Visitor):
        def visit_table(self, source):
            found.setdefault(g.project(source)['name'], source)

    for obj in objs:
        obj.accept(Collect())
    sources = {t: sql.table(name.lower(), *(sql.column(c.name) for c in t.features)) for name, t in found.items()}
    return counting_reader()(sources, {}, 'sqlite://'), sources


PARSES = [0]
_COUNTING = []


def counting_reader():
    """The alchemy reader with its (public, to be implemented by every reader) `parser` factory counted: a statement is
    parsed iff a parser is created - however the reader memoises."""
    if not _COUNTING:
        from forml.provider.feed.reader import alchemy

        class Counting(alchemy.Reader):
            @classmethod
            def parser(cls, sources, features):
                PARSES[0] += 1
                return super().parser(sources, features)

        _COUNTING.append(Counting)
    return _COUNTING[0]


def measure_pair(p):
    from forml.io._input import _producer
    sort = p['sort']
    o = {'x_eq': False, 'eq': False, 'eqr': False, 'heq': False, 'dhit': False, 'ssize': 0, 'x_pk': False, 'pk_self': False,
         'pk_b': False, 'a_na': True, 'a_ok': False, 'c_na': True, 'c_ret_ok': False, 'c_hit': False, 'g_na': True,
         'g_ok': False, 'u_na': True, 'u_ok': False, 'resp': bool(p.get('respell')), 'note': ''}
    try:
        sa = sort if sort != 'mixed' else ('source' if g.is_source(p['a']) else 'feature')
        sb = sort if sort != 'mixed' else ('source' if g.is_source(p['b']) else 'feature')
        if p.get('foreign'):
            # the object built, hashed and pickled by ANOTHER interpreter (other hash seed), compared with a local twin
            import base64
            a = pickle.loads(base64.b64decode(p['foreign']))
        else:
            a = construct(sa, p['a'], False)
        b = construct(sb, p['b'], True, bool(p.get('respell')))
    except Exception as exc:  # pylint: disable=broad-except
        return None, f'{type(exc).__name__}'  # the changed term is not constructible: no pair
    try:
        o['eq'] = bool(a == b)
        # feature == source is the DSL comparison operator applied to a non-literal (an error by design): not evaluated
        o['eqr'] = bool(b == a) if sort != 'mixed' else o['eq']
    except Exception as exc:  # pylint: disable=broad-except
        o['x_eq'] = True
        o['note'] += f'eq:{type(exc).__name__} '
    try:
        o['heq'] = hash(a) == hash(b)
        o['dhit'] = b in {a: 1}
        o['ssize'] = len({a, b})
    except Exception as exc:  # pylint: disable=broad-except
        o['note'] += f'hash:{type(exc).__name__} '
    try:
        a2 = pickle.loads(pickle.dumps(a))
        o['pk_self'] = bool(a2 == a) and bool(a == a2) and hash(a2) == hash(a)
        o['pk_b'] = bool(a2 == b)
    except Exception as exc:  # pylint: disable=broad-except
        o['x_pk'] = True
        o['note'] += f'pickle:{type(exc).__name__} '
    if o['resp']:
        return o, None  # (the projection of a literal is the text of its python value: spelling-dependent by construction)
    if sort in ('source', 'feature'):
        try:
            o['a_ok'] = g.canon(g.project(a)) == g.canon(p['a']) and g.canon(g.project(b)) == g.canon(p['b'])
            o['a_na'] = False
        except Exception as exc:  # pylint: disable=broad-except
            o['a_na'] = False
            o['note'] += f'attr:{type(exc).__name__} '
    if sort == 'source' and p['a']['t'] in ('query', 'set') and p['b']['t'] in ('query', 'set'):
        try:
            reader, sources = make_reader([a, b], [p['a'], p['b']])
            reader._parse_statement(a)  # pylint: disable=protected-access
            before = PARSES[0]
            got = sql_text(reader._parse_statement(b))  # pylint: disable=protected-access
            o['c_hit'] = PARSES[0] == before
            fresh = sql_text(type(reader)(sources, {}, 'sqlite://')._parse_statement(b))  # pylint: disable=protected-access
            o['c_ret_ok'] = got == fresh
            o['c_na'] = False
        except Exception as exc:  # pylint: disable=broad-except
            o['note'] += f'parser:{type(exc).__name__} '  # parser failures belong to C06 / C14
        if g.named(p['a']) and g.named(p['b']):
            try:
                names_a = [n for n, _ in g.outputs(p['a'])]
                names_b = [n for n, _ in g.outputs(p['b'])]
                for n in names_a:
                    a[n]  # pylint: disable=pointless-statement
                o['g_ok'] = all(g.canon(g.project(b[n])) == g.canon(g.project(b.features[i])) for i, n in enumerate(names_b))
                o['g_na'] = False
            except Exception as exc:  # pylint: disable=broad-except
                o['g_na'] = False
                o['note'] += f'item:{type(exc).__name__} '
    if sort in ('source', 'feature'):
        try:
            a3 = pickle.loads(pickle.dumps(a))
            o['u_ok'] = bool(a3 == a) and hash(a3) == hash(a)
            o['u_na'] = False
        except Exception as exc:  # pylint: disable=broad-except
            o['u_na'] = False
            o['note'] += f'pickle_used:{type(exc).__name__} '
    return o, None


def measure(pairs, stress=False):
    """Measure the implementation's key relation on every pair.  stress: after 10^4 unrelated DSL objects were created
    (and kept alive) and in reverse order."""
    import logging
    logging.disable(logging.INFO)
    keep = []
    if stress:
        from forml.io import dsl
        table = g.build(g.TABLES['A'], fresh=True)
        keep = [table.i + n for n in range(5000)] + [dsl.Literal(n) for n in range(2500)]
        keep += [table.where(table.i == n) for n in range(2500)]
        keep.append({k: i for i, k in enumerate(keep)})
    out = [None] * len(pairs)
    order = range(len(pairs) - 1, -1, -1) if stress else range(len(pairs))
    for i in order:
        out[i] = measure_pair(pairs[i])
    del keep
    return out


def _measure_work(work, stress=False):
    """Worker: expand the base terms into pairs and measure them together with the given explicit pairs."""
    terms, pairs = work
    pairs = list(pairs)
    for term in terms:
        pairs += expand_term(term)
    return list(zip(pairs, measure(pairs, stress)))


# --------------------------------------------------------------------------------------------- code -> spec
def trace_identity(chk, terms, extra, procs):
    t0 = time.time()
    # second measurement of a sample in a separate interpreter: other hash seed, 10^4 unrelated live objects, reverse order
    step = 4 if chk.quick else 3
    spath = common.write_json({'terms': terms[::step], 'pairs': extra[::step]}, 'c08-stress-in.json')
    env = dict(os.environ, PYTHONHASHSEED='4242')
    stress_proc = subprocess.Popen([sys.executable, '-W', 'ignore', '-m', 'harness.drivers.C08', '--measure', spath,
                                    os.path.abspath('c08-stress-out.json')], env=env, stdout=subprocess.DEVNULL,
                                   stderr=subprocess.PIPE, text=True)
    work = [(terms[i:i + 4], []) for i in range(0, len(terms), 4)] + [([], extra[i::procs]) for i in range(procs)]
    with concurrent.futures.ProcessPoolExecutor(procs, mp_context=multiprocessing.get_context('fork')) as pool:
        results = list(itertools.chain.from_iterable(pool.map(_measure_work, work)))
    pairs, measured, position = [], [], {}
    for p, m in results:
        key = pair_key(p)
        if key not in position:
            position[key] = len(pairs)
            pairs.append(p)
            measured.append(m)
    _, err = stress_proc.communicate(timeout=6000)
    if stress_proc.returncode != 0:
        raise tlc.MachineryError(f'stress measurement failed: {err[-2000:]}')
    with open('c08-stress-out.json') as fh:
        stress_out = json.load(fh)
    sample_idx, stressed, seen_keys = [], [], set()
    for p, m in stress_out:
        key = pair_key(p)
        if key in position and key not in seen_keys:
            seen_keys.add(key)
            sample_idx.append(position[key])
            stressed.append(m)
    t1 = time.time()
    skipped = collections.Counter()
    obs, meta = [], []
    for p, (o, why) in zip(pairs, measured):
        if o is None:
            skipped[p['label']] += 1
            continue
        obs.append(dict({k: v for k, v in o.items() if k != 'note'}, a=p['a'], b=p['b']))
        meta.append((p, o, 'primary'))
    context_dependent = 0
    for i, (o2, why) in zip(sample_idx, stressed):
        o1 = measured[i][0]
        if o1 is None or o2 is None:
            continue
        obs.append(dict({k: v for k, v in o2.items() if k != 'note'}, a=pairs[i]['a'], b=pairs[i]['b']))
        meta.append((pairs[i], o2, 'stressed'))
        changed = sorted(k for k in o1 if k not in ('note', 'c_hit') and o1[k] != o2[k])
        if changed:
            context_dependent += 1
            pickling = set(changed) <= {'x_pk', 'pk_self', 'pk_b', 'u_ok'}
            chk.fail(f'{pairs[i]["label"]} pair behaves differently in another process context ({changed}): '
                     f'{o1["note"]!r} vs {o2["note"]!r} {_show(pairs[i])}',
                     {'kind': 'pair', 'pair': pairs[i], 'primary': o1, 'stressed': o2},
                     classify(pairs[i], [c for c, keys in (('pickle', ('x_pk', 'pk_self', 'pk_b')), ('pickle_after_use', ('u_ok',)))
                                         if set(keys) & set(changed)] if pickling else (), o1['note'] + o2['note']))
    # identity survives pickling ACROSS interpreters: identical pairs whose first object was built, hashed and pickled in a
    # process with another hash seed
    identical = [p for p in pairs if p['label'] == 'identical' and g.canon(p['a']) == g.canon(p['b'])]
    identical = identical[::max(1, len(identical) // (150 if chk.quick else 1500))]
    fpath = common.write_json(identical, 'c08-foreign-in.json')
    done = subprocess.run([sys.executable, '-W', 'ignore', '-m', 'harness.drivers.C08', '--foreign', fpath,
                           os.path.abspath('c08-foreign-out.json')], env=dict(os.environ, PYTHONHASHSEED='777'),
                          capture_output=True, text=True, timeout=3000)
    if done.returncode != 0:
        raise tlc.MachineryError(f'foreign pickling failed: {done.stderr[-1500:]}')
    with open('c08-foreign-out.json') as fh:
        blobs = json.load(fh)
    foreign = 0
    for p, blob in zip(identical, blobs):
        if not blob:
            continue
        o, why = measure_pair(dict(p, foreign=blob))
        if o is None:
            continue
        foreign += 1
        obs.append(dict({k: v for k, v in o.items() if k != 'note'}, a=p['a'], b=p['b']))
        meta.append((p, o, 'pickled-by-another-interpreter'))
    chk.extra['foreign_pickles'] = foreign
    n_real = len(obs)
    # binding self-test on synthetic observations (independent of how the implementation behaves): a consistent
    # identical pair and a consistent different pair are accepted, each corruption of them is rejected
    q_a, q_b = g.query(g.TABLES['A']), g.query(g.TABLES['B'])
    na = {'a_na': True, 'a_ok': False, 'c_na': True, 'c_ret_ok': False, 'c_hit': False, 'g_na': True, 'g_ok': False,
          'u_na': True, 'u_ok': False, 'x_eq': False, 'x_pk': False, 'resp': False}
    good_same = dict(na, a=q_a, b=q_a, eq=True, eqr=True, heq=True, dhit=True, ssize=1, pk_self=True, pk_b=True)
    good_diff = dict(na, a=q_a, b=q_b, eq=False, eqr=False, heq=False, dhit=False, ssize=2, pk_self=True, pk_b=False)
    obs += [good_same, good_diff, dict(good_same, eq=False),
            dict(good_diff, eq=True, eqr=True, dhit=True, ssize=1, heq=True, pk_b=True), dict(good_same, heq=False),
            dict(good_diff, c_na=False, c_ret_ok=False),
            dict(good_same, resp=True), dict(good_same, resp=True, eq=False, eqr=False, dhit=False, ssize=2, pk_b=False),
            dict(good_same, resp=True, heq=False, dhit=False, ssize=2)]
    verdicts = run_trace(chk, obs, procs)
    t2 = time.time()
    chk.selftest('consistent_pairs_accepted', verdicts[n_real][:2] == [1, 1] and verdicts[n_real + 1][:2] == [0, 1])
    chk.selftest('unequal_identical_pair_rejected', verdicts[n_real + 2][1] == 0 and 'eq' in verdicts[n_real + 2][2])
    chk.selftest('equal_different_pair_rejected', verdicts[n_real + 3][1] == 0 and verdicts[n_real + 3][0] == 0)
    chk.selftest('hash_of_identical_pair_rejected', verdicts[n_real + 4][1] == 0 and verdicts[n_real + 4][2] == ['hash', 'hash_consistency'])
    chk.selftest('confused_parser_cache_rejected', verdicts[n_real + 5][2] == ['parser_cache'])
    chk.selftest('respelled_literals_consistent_either_way_accepted', verdicts[n_real + 6][1] == 1 and verdicts[n_real + 7][1] == 1)
    chk.selftest('equal_objects_hashing_differently_rejected',
                 verdicts[n_real + 8][1] == 0 and 'hash_consistency' in verdicts[n_real + 8][2])
    by_label = collections.Counter()
    collisions = 0
    notes = collections.Counter()
    for i, (p, o, ctx) in enumerate(meta):
        same, accept, failing = verdicts[i]
        by_label[p['sort'] + ':' + p['label']] += 1
        collisions += (not same) and o['heq'] and not o['eq']
        if o['note']:
            notes[o['note']] += 1
        if (same == 1) != (g.canon(p['a']) == g.canon(p['b'])):
            raise tlc.MachineryError(f'TLC and the harness disagree on the identity of the terms of pair {i}')
        if accept:
            chk.validated()
            if p['label'] in ('identical', 'literal', 'direction', 'alias') and i % 211 == 0:
                chk.sample({'pair': p['label'], 'sort': p['sort'], 'terms_identical': bool(same),
                            'eq': o['eq'], 'hash_eq': o['heq'], 'dict_hit': o['dhit'], 'set_size': o['ssize']})
            continue
        what = (f'{p["sort"]} pair [{p["label"]}] {"identical" if same else "different"} structures: failing {failing} '
                f'(eq={o["eq"]}/{o["eqr"]} hash_eq={o["heq"]} dict_hit={o["dhit"]} set_size={o["ssize"]} '
                f'pickle={o["pk_self"]}/{o["pk_b"]} attr_ok={o["a_ok"] or o["a_na"]} cache_ok={o["c_ret_ok"] or o["c_na"]} '
                f'cache_hit={o["c_hit"]} item_ok={o["g_ok"] or o["g_na"]} {o["note"]}) {_show(p)} [{ctx}]')
        chk.fail(what, {'kind': 'pair', 'pair': p, 'observed': o, 'failing': failing}, classify(p, failing, o['note']))
    if not any(k.endswith(':respelled') for k in by_label):
        raise tlc.MachineryError('no pair of respelled literals was measured')
    chk.extra['pairs'] = {'measure_s': round(t1 - t0, 1), 'tlc_s': round(t2 - t1, 1), 'pairs': len(pairs),
                          'observations_judged': n_real, 'by_sort_and_label': dict(sorted(by_label.items())),
                          'mutants_not_constructible': dict(skipped), 'hash_collisions_without_equality': collisions,
                          'context_dependent': context_dependent, 'measurement_notes': dict(notes)}


def _show(p):
    try:
        return f'{g.build(p["a"])!r}  ~  {g.build(p["b"])!r}' if p['sort'] in ('source', 'feature', 'mixed') else \
            f'{p["a"]} ~ {p["b"]}'
    except Exception:  # pylint: disable=broad-except
        return ''


def run_trace(chk, obs, procs):
    nparts = max(procs, -(-len(obs) // CHUNK))
    parts = [obs[i::nparts] for i in range(nparts)]
    index = [list(range(len(obs)))[i::nparts] for i in range(nparts)]

    def run(k):
        path = common.write_json({'obs': parts[k]}, f'c08-obs-{k}.json')
        try:
            return tlc.run('TraceIdentity', 'TraceIdentity.cfg', workers=1, env={'TRACE_FILE': path}, coverage=False,
                           timeout=3000, heap='2g')
        finally:
            os.remove(path)

    with concurrent.futures.ThreadPoolExecutor(max_workers=procs) as pool:
        results = list(pool.map(run, range(nparts)))
    verdicts = {}
    for k in range(nparts):
        if not parts[k]:
            continue
        orig, tlc.run = tlc.run, (lambda *a, _r=results[k], **kw: _r)
        try:
            chk.tlc('TraceIdentity', 'TraceIdentity.cfg')  # accounting of the finished run
        finally:
            tlc.run = orig
        for v in results[k].tuples('VERDICT'):
            verdicts[index[k][v[0] - 1]] = [v[1], v[2], [n for bit, n in enumerate(CLAUSES) if v[3] >> bit & 1]]
    if len(verdicts) != len(obs):
        raise tlc.MachineryError(f'TraceIdentity: {len(verdicts)} verdicts for {len(obs)} observations')
    return verdicts


# --------------------------------------------------------------------------------------------- model + spec -> code
def identity_cfg(path, depth, mode, ops, extra):
    with open(path, 'w') as fh:
        fh.write('SPECIFICATION Spec\nCONSTANTS Structs = {"s1", "s2"}\n Copies = {1, 2}\n'
                 f' Depth = {depth}\n Mode = "{mode}"\n Ops = {{{", ".join(json.dumps(o) for o in ops)}}}\n'
                 f'{extra}CHECK_DEADLOCK FALSE\n')
    return path


def key_families():
    """Concrete (s1, s2) statement pairs standing for the two structures of Identity.tla."""
    A = g.TABLES['A']
    ai, af = g.col(A, 'i'), g.col(A, 'f')

    def where(x, column=ai):
        return g.query(A, [], g.op('eq', column, g.lit(x)))

    fams = [('plain', where(1), where(2)), ('operator', where(1), g.query(A, [], g.op('ne', ai, g.lit(1)))),
            ('direction', g.query(A, [], None, (), None, [g.order_term(ai)]),
             g.query(A, [], None, (), None, [g.order_term(ai, 'descending')])),
            ('table', g.query(g.TABLES['B'], [], None, (), None, (), [1, 0]),
             g.query(g.TABLES['C'], [], None, (), None, (), [1, 0]))]
    for x, y in g.COLLIDING_SAME_KIND:
        fams.append((f'colliding {x!r}/{y!r}', where(x, ai if isinstance(x, int) else af),
                     where(y, ai if isinstance(x, int) else af)))
    fams.append(('colliding in selection', g.query(A, [g.alias(g.op('add', ai, g.lit(0)), 'v')]),
                 g.query(A, [g.alias(g.op('add', ai, g.lit(g.M61)), 'v')])))
    return fams


def replay_histories(chk):
    from forml.io._input import _producer
    tmp = os.getcwd()
    depth = 3 if chk.quick else 4
    # 1. model level: the requirement holds iff the key relation is structural equality (all 64 relations)
    res = chk.tlc('Identity', identity_cfg(os.path.join(tmp, 'id-all.cfg'), depth, 'all', ['put', 'get', 'call'],
                                           'CONSTRAINT Track\nPOSTCONDITION Post\n'), workers=1, require=['Next'])
    rels = res.tuples('REL')
    good = [r for r in rels if not r[3]]
    if len(rels) != 64 or len(good) != 1 or not good[0][2]:
        raise tlc.MachineryError(f'Identity.tla: expected exactly the structural relation to satisfy the requirement: {good}')
    chk.extra['key_relations'] = {'relations_checked': len(rels), 'satisfying_the_requirement': 1,
                                  'the_satisfying_one_is_structural_equality': True}
    # the model must refute a relation that identifies two structures (what hash-equality does for colliding literals)
    chk.selftest('model_refutes_merging_relations', all(r[3] for r in rels if not r[2]))
    # 2. requirement-level histories -> real dict keyed by DSL objects; real parser cache
    dict_hist = chk.tlc('Identity', identity_cfg(os.path.join(tmp, 'id-dict.cfg'), depth, 'structural', ['put', 'get'],
                                                 'INVARIANT NoConfusion\nINVARIANT Interchangeable\nINVARIANT Export\n'),
                        workers=1, require=['Next']).json_prints()
    call_hist = chk.tlc('Identity', identity_cfg(os.path.join(tmp, 'id-call.cfg'), depth + 1, 'structural', ['call'],
                                                 'INVARIANT NoConfusion\nINVARIANT Interchangeable\nINVARIANT Export\n'),
                        workers=1, require=['Next']).json_prints()
    if not dict_hist or not call_hist:
        raise tlc.MachineryError('Identity.tla exported no history')
    replayed = reparsed = 0
    for name, s1, s2 in key_families():
        terms = {'s1': s1, 's2': s2}
        objs = {(s, c): g.build(terms[s], fresh=True) for s in terms for c in (1, 2)}
        feats = {k: (v.prefilter if v.prefilter is not None else v) for k, v in objs.items()}
        finding = classify({'sort': 'source', 'a': s1, 'b': s2})
        bad = 0
        for keys, label in ((objs, 'statements'), (feats, 'features')):
            for hist in dict_hist:
                d = {}
                for step, ev in enumerate(hist):
                    k = keys[tuple(ev['k'])]
                    if ev['op'] == 'put':
                        d[k] = ev['k'][0]
                        continue
                    got = d.get(k, 'MISS')
                    if got != ev['ret']:
                        bad += 1
                        if bad <= 3:
                            chk.fail(f'dict keyed by {label} [{name}]: get({ev["k"]}) returned {got}, requirement {ev["ret"]} '
                                     f'after {[(e["op"], e["k"]) for e in hist[:step]]}',
                                     {'kind': 'dict', 'family': name, 'keys': label, 'hist': hist, 'step': step}, finding)
                        break
                else:
                    replayed += 1
        reader, sources = make_reader(list(objs.values()), [s1, s2])
        denote = {s: sql_text(type(reader)(sources, {}, 'sqlite://')._parse_statement(objs[s, 1])) for s in terms}  # pylint: disable=protected-access
        for hist in call_hist:
            reader = type(reader)(sources, {}, 'sqlite://')  # empty cache for this history (entries are per reader)
            for step, ev in enumerate(hist):
                before = PARSES[0]
                got = sql_text(reader._parse_statement(objs[tuple(ev['k'])]))  # pylint: disable=protected-access
                computed = PARSES[0] > before
                reparsed += computed and not ev['computed']    # speed only (a reader may memoise or not): never judged
                if got != denote[ev['ret']]:
                    bad += 1
                    if bad <= 6:
                        what = f'returned the statement parsed for the other structure ({got!r})'
                        chk.fail(f'parser cache [{name}]: parsing {ev["k"]} {what} after {[e["k"] for e in hist[:step]]}',
                                 {'kind': 'cache', 'family': name, 's1': s1, 's2': s2, 'hist': hist, 'step': step}, finding)
                    break
            else:
                replayed += 1
        if bad > 6:
            chk.fail(f'[{name}]: {bad - 6} more histories diverge', None, finding)
    chk.validated(replayed)
    chk.extra['histories'] = {'dict_histories': len(dict_hist), 'cache_histories': len(call_hist),
                              'key_families': len(key_families()), 'replayed_conforming': replayed,
                              're_parsed_although_an_identical_statement_was_parsed_before': reparsed}
    # binding self-test: a dict with a wrong key relation (keys compared by their table only) is noticed by the replay
    chk.selftest('replay_notices_merged_keys', _merged_dict_diverges(dict_hist))


def _merged_dict_diverges(dict_hist):
    for hist in dict_hist:
        d = {}
        for ev in hist:
            k = 'same-key-for-everything'
            if ev['op'] == 'put':
                d[k] = ev['k'][0]
            elif d.get(k, 'MISS') != ev['ret']:
                return True
    return False


# --------------------------------------------------------------------------------------------- entry points
def main(chk):
    import logging
    logging.disable(logging.INFO)
    rnd = random.Random(chk.seed)
    replay_histories(chk)
    trace_identity(chk, base_terms(chk, rnd), fixed_pairs(), PROCS)
    chk.assume('structural identity of a table includes its name; of a schema only its (name, kind) fields '
               '(tests/io/dsl/_struct/test_frame.py treats equally-fielded schemas of different titles as one key)')
    chk.assume('unequal objects with equal hashes are not a violation by themselves (python allows collisions); '
               'they are counted in hash_collisions_without_equality')
    chk.assume('references without an explicit name get a random name by design and are not generated')
    chk.assume('python-hash-colliding strings are out of reach (SipHash); colliding literals are ints and floats')


def replay(chk, path):
    with open(path) as fh:
        rep = json.load(fh)['replay']
    import logging
    logging.disable(logging.INFO)
    if rep and rep.get('kind') == 'pair':
        o, why = measure_pair(rep['pair'])
        print(_show(rep['pair']))
        print('observed now:', o, why)
        same = g.canon(rep['pair']['a']) == g.canon(rep['pair']['b'])
        if o is not None and o['resp']:
            same = o['eq']  # respelled literals: hash / dict / set / pickling follow whatever == answers
        ok = o is not None and o['eq'] == o['eqr'] == o['dhit'] == o['pk_b'] == same and (not same or o['heq']) and \
            o['pk_self'] and (o['c_na'] or o['c_ret_ok']) and (o['g_na'] or o['g_ok']) and (o['a_na'] or o['a_ok']) and \
            (o['u_na'] or o['u_ok']) and not o['x_eq'] and not o['x_pk']
        return 0 if ok else 1
    print(json.dumps(rep, indent=1)[:3000])
    return 1


def foreign_pickles(pairs):
    """Run in another interpreter: build the first term of every pair, use it (hash it), pickle it."""
    import base64
    out = []
    for p in pairs:
        try:
            sort = p['sort'] if p['sort'] != 'mixed' else ('source' if g.is_source(p['a']) else 'feature')
            obj = construct(sort, p['a'], False)
            hash(obj)
            {obj: 1}  # pylint: disable=expression-not-assigned
            out.append(base64.b64encode(pickle.dumps(obj)).decode())
        except Exception:  # pylint: disable=broad-except
            out.append(None)
    return out


if __name__ == '__main__':
    if len(sys.argv) == 4 and sys.argv[1] == '--foreign':
        sys.path.insert(0, common.REPO)
        import logging
        logging.disable(logging.INFO)
        with open(sys.argv[2]) as fh_in:
            todo = json.load(fh_in)
        with open(sys.argv[3], 'w') as fh_out:
            json.dump(foreign_pickles(todo), fh_out)
    if len(sys.argv) == 4 and sys.argv[1] == '--measure':
        sys.path.insert(0, common.REPO)
        with open(sys.argv[2]) as fh_in:
            todo = json.load(fh_in)
        with open(sys.argv[3], 'w') as fh_out:
            json.dump(_measure_work((todo['terms'], todo['pairs']), stress=True), fh_out)
