"""C15 - served entries reach the pipeline in the query's schema; tabular views have matrix semantics.

model:        specs/Entry.tla (requirement: Aligned, clause invariants), specs/MatchEntryImpl.tla (as-is transcription of
              Reader._match_entry / __call__ / _cast, checked against Entry clause by clause), specs/Tabular.tla (matrix
              semantics of take_rows / take_columns / to_rows / to_columns / Slicer)
spec -> code: every arrangement (query schema x entry schema x data variant) TLC enumerates is exported together with the
              set of allowed outcomes and replayed through the real Reader.__call__ / RowDriver / TableDriver; every state of
              Tabular.tla is replayed on Dense (row and column constructed) and Frame, and through extract.Slicer
code -> spec: seeded random requests beyond the constants (<= 5 query fields, <= 7 entry columns, 5 kinds, random values and
              containers) are served by the real code and the recorded outcomes validated by specs/TraceEntry.tla
sessions:     the reader is one long-lived object answering request after request: specs/EntrySession.tla generates every
              session (one query, several requests in a row - any entry again, or the same columns re-sent in every other
              arrangement) and each is replayed on ONE real reader of its own; every answer must be the one Entry!Aligned
              allows for that request alone (ArrangementFree / PastAligned), whatever was served before
index lists:  an index list is a Sequence[int] - what it holds, not what spells it: specs/TakeIndex.tla also generates the
              arithmetic progressions range(start, stop, step) (either sign, bounds anywhere) with the list they denote; every
              selection is made with the list, the tuple and the range; Tabular.tla states rotate through the three forms
payload:      a served payload is any layout.Tabular, fully described by its cells (specs/EntrySelect.tla): every arrangement is
              also served after every row selection made by the real take_rows (SelectionCommutes), and as a Frame whose rows
              carry labels of their own (named / reversed / repeated - what a decoded request or a selection leaves behind)
"""
import datetime
import json
import math
import numbers
import os
import random
import re

from harness import common, tlc

FINDING = 'cast-misaligned-after-permutation'
BASE = datetime.date(2020, 1, 1)
KIND_NAMES = {'int': 'Integer', 'flt': 'Float', 'str': 'String', 'date': 'Date', 'ts': 'Timestamp'}
ROUTES = ('reader', 'rowdriver', 'tabledriver')
CONTAINERS = ('frame', 'dense_rows', 'dense_columns')
# row labels a pandas frame may carry (a matrix has none: they must not matter) - default 0..n-1, client-chosen names, the
# positions backwards (what take_rows leaves behind), one label repeated
LABELLED = ('frame_named', 'frame_reversed', 'frame_repeated')
PAYLOADS = ('frame', 'dense_rows', 'frame_named', 'dense_columns', 'frame_reversed', 'frame_repeated')


def row_labels(impl, n):
    """The DataFrame index of a Frame payload of n rows (None = pandas' default)."""
    if impl == 'frame_named':
        return [f'r{i + 1}' for i in range(n)]
    if impl == 'frame_reversed':
        return list(range(n - 1, -1, -1))
    if impl == 'frame_repeated':
        return [7] * n
    assert impl == 'frame'
    return None


# ------------------------------------------------------------------------------------------ abstract <-> concrete values
def concrete(val):
    """Abstract value (t, s, n) of Entry.tla -> the python value it stands for."""
    t, s, n = val
    if t == 'int':
        assert n % 10 == 0
        return n // 10
    if t == 'flt':
        return n / 10.0
    if t == 'date':
        return BASE + datetime.timedelta(days=n // 10)
    if t == 'ts':
        return datetime.datetime.combine(BASE + datetime.timedelta(days=n // 10), datetime.time(hour=n % 10))
    assert t == 'str'
    if s == 'i':
        assert n % 10 == 0
        return str(n // 10)
    if s == 'f':
        return repr(n / 10.0)
    if s == 'd':
        return (BASE + datetime.timedelta(days=n // 10)).isoformat()
    if s == 't':
        return f'{(BASE + datetime.timedelta(days=n // 10)).isoformat()} {n % 10:02d}:00:00'
    assert s == 'x'
    return f'x{n}'


_INT = re.compile(r'-?\d+')
_FLT = re.compile(r'-?\d+\.\d+')
_DATE = re.compile(r'(\d{4})-(\d\d)-(\d\d)')
_TS = re.compile(r'(\d{4})-(\d\d)-(\d\d)[ T](\d\d):00:00')
_JUNK = re.compile(r'x(\d+)')


def project(obj):
    """Observed python value -> denotation (t, s, n) (Den of Entry.tla); anything unexpected -> ('other', ...)."""
    try:
        import numpy
        if isinstance(obj, numpy.datetime64):
            import pandas
            obj = pandas.Timestamp(obj)
        if isinstance(obj, (bool, numpy.bool_)):
            return ['other', 'bool', int(obj)]
        if isinstance(obj, numbers.Real):
            scaled = float(obj) * 10
            if scaled != scaled or abs(scaled - round(scaled)) > 1e-6:
                return ['other', 'number', 0]
            return ['num', '-', int(round(scaled))]
        if isinstance(obj, datetime.datetime):
            if obj.minute or obj.second or obj.microsecond or obj.tzinfo is not None or obj.hour > 9:
                return ['other', 'datetime', 0]
            return ['ts', '-', (obj.date() - BASE).days * 10 + obj.hour]
        if isinstance(obj, datetime.date):
            return ['date', '-', (obj - BASE).days * 10]
        if isinstance(obj, str):
            if _INT.fullmatch(obj):
                return ['str', 'i', int(obj) * 10]
            if _FLT.fullmatch(obj):
                return ['str', 'f', int(round(float(obj) * 10))] if repr(float(obj)) == obj else ['other', 'str', 0]
            m = _DATE.fullmatch(obj)
            if m:
                return ['str', 'd', (datetime.date(*map(int, m.groups())) - BASE).days * 10]
            m = _TS.fullmatch(obj)
            if m and int(m.group(4)) <= 9:
                return ['str', 't', (datetime.date(*map(int, m.groups()[:3])) - BASE).days * 10 + int(m.group(4))]
            m = _JUNK.fullmatch(obj)
            if m:
                return ['str', 'x', int(m.group(1))]
            return ['other', 'str', 0]
    except Exception:  # pylint: disable=broad-except
        pass
    return ['other', type(obj).__name__, 0]


def den(val):
    t, s, n = val
    return ['num', '-', n] if t in ('int', 'flt') else [t, s, n]


def check_roundtrip(vectors):
    """to_json(from_json(v)) == v for every abstract value that is concretised (keeps a translator bug from silently
    weakening the check)."""
    seen = set()
    for vec in vectors:
        for row in vec['d']:
            for val in row:
                seen.add(tuple(val))
    for val in seen:
        if project(concrete(val)) != den(val):
            raise tlc.MachineryError(f'value translation does not round-trip: {val} -> {concrete(val)!r} -> {project(concrete(val))}')
    return len(seen)


# ------------------------------------------------------------------------------------------------- the real objects
_READER = {}


def new_reader():
    """A concrete Reader of its own: parser/read are never reached when an entry is supplied."""
    if 'cls' not in _READER:
        from forml.io._input import _producer

        class EntryOnly(_producer.Reader):
            @classmethod
            def parser(cls, sources, features):
                raise AssertionError('extraction mode must not be entered')

            @classmethod
            def read(cls, statement, **kwargs):
                raise AssertionError('extraction mode must not be entered')

        _READER['cls'] = EntryOnly
    return _READER['cls']({}, {})


def reader():
    """The reader shared by all single requests of a run."""
    if 'r' not in _READER:
        _READER['r'] = new_reader()
    return _READER['r']


def kind_of(k):
    from forml.io import dsl
    return getattr(dsl, KIND_NAMES[k])()


def make_statement(q, flavour):
    """Statement with the schema q = [(name, kind)...]: a table or a select of its columns in order."""
    from forml.io import dsl
    schema = dsl.Schema.from_fields(*(dsl.Field(kind_of(k), name=f'c{nm}') for nm, k in q), title='Apply')
    table = dsl.Table(schema)
    if flavour % 2:
        return table.select(*(table[f'c{nm}'] for nm, _ in q))
    return table


def make_entry(e, d, container):
    """layout.Entry for the arrangement; raises dsl.GrammarError where the public schema constructor refuses it."""
    import numpy
    import pandas
    from forml.io import dsl, layout
    schema = dsl.Schema.from_fields(*(dsl.Field(kind_of(k), name=f'c{nm}') for nm, k in e), title='Request')
    rows = [[concrete(v) for v in row] for row in d]
    if container.startswith('frame'):
        data = layout.Frame(pandas.DataFrame(rows, columns=[f'c{nm}' for nm, _ in e], index=row_labels(container, len(rows))))
    elif not rows:
        data = layout.Dense(numpy.empty((0, len(e)), dtype=object))
    elif container == 'dense_rows':
        data = layout.Dense.from_rows(rows)
    else:
        data = layout.Dense.from_columns([list(c) for c in zip(*rows)])
    return layout.Entry(schema, data)


def cells(major):
    """RowMajor / ColumnMajor -> list of lists through the sequence protocol only."""
    return [[project(cell) for cell in line] for line in major]


def serve(q, e, d, route, container, flavour, sel=None, rd=None):
    """Run one arrangement through the real code; -> {'res': ok|refused|illformed|crash, 'rows': [[den...]], 'why': str}.
    With sel (1-based index list) the payload served is the selection take_rows(sel) of the table holding d; rd = the reader
    asked (default: the one shared by all single requests)."""
    rd = rd or reader()
    import forml
    from forml.io import dsl, layout
    from forml.io._input import extract
    try:
        entry = make_entry(e, d, container)
    except dsl.GrammarError as exc:
        return {'res': 'illformed', 'rows': [], 'why': type(exc).__name__}
    stmt = make_statement(q, flavour)
    try:
        if sel is not None:
            entry = layout.Entry(entry.schema, entry.data.take_rows([i - 1 for i in sel]))
        if route == 'reader':
            table = rd(stmt, entry)
            rows = cells(table.to_rows())
        elif route == 'tabledriver':
            table = extract.TableDriver(rd, extract.Statement.prepare(stmt, None)).apply(entry)
            rows = cells(table.to_rows())
        else:
            table = None
            rows = cells(extract.RowDriver(rd, extract.Statement.prepare(stmt, None)).apply(entry))
        if table is not None:  # the column view of what is delivered must be the same matrix
            cols = cells(table.to_columns())
            if rows and [list(r) for r in zip(*cols)] != rows or (not rows and any(cols)):
                return {'res': 'crash', 'rows': [], 'why': 'to_rows/to_columns of the delivered table disagree'}
    except (forml.MissingError, dsl.CastError) as exc:
        return {'res': 'refused', 'rows': [], 'why': type(exc).__name__}
    except Exception as exc:  # pylint: disable=broad-except
        return {'res': 'crash', 'rows': [], 'why': f'{type(exc).__name__}: {exc}'[:200]}
    return {'res': 'ok', 'rows': rows, 'why': ''}


def plain(out):
    return {'res': out['res'], 'rows': out['rows']}


def serve_session(q, reqs, plans, flavour):
    """One reader of its own answers the requests [(e, d)...] of a session one after the other, each over its (route, payload)."""
    rd = new_reader()
    return [serve(q, e, d, route, container, flavour, rd=rd) for (e, d), (route, container) in zip(reqs, plans)]


_JOBS = {}


def _chunk(args):
    name, lo, hi = args
    func = globals()[name]
    return [func(*_JOBS[name][i]) for i in range(lo, hi)]


def pmap(name, jobs, procs=4):
    """[globals()[name](*job) for job in jobs] over forked worker processes (the jobs are inherited, not pickled)."""
    import multiprocessing
    import forml  # pylint: disable=unused-import; imported before forking
    if len(jobs) < 3000:
        return [globals()[name](*job) for job in jobs]
    _JOBS[name] = jobs
    step = max(250, len(jobs) // (procs * 6))
    bounds = [(name, lo, min(lo + step, len(jobs))) for lo in range(0, len(jobs), step)]
    with multiprocessing.get_context('fork').Pool(procs) as pool:
        out = pool.map(_chunk, bounds)
    _JOBS.pop(name)
    return [o for part in out for o in part]


def describe(q, e, d, got, allowed, sel=None):
    qs = ', '.join(f'c{n}:{k}' for n, k in q)
    es = ', '.join(f'c{n}:{k}' for n, k in e)
    want = ' | '.join(_show(o) for o in allowed)
    picked = '' if sel is None else f'.take_rows({[i - 1 for i in sel]})'
    return (f'query ({qs}) entry ({es}) rows {[[concrete(v) for v in r] for r in d]}{picked}: delivered {_show(got)} '
            f'{got.get("why", "")} expected {want}')


def _show(out):
    if out['res'] != 'ok':
        return out['res']
    return str([[_text(c) for c in r] for r in out['rows']]).replace('"', '')


def _text(cell):
    t, s, n = cell
    if t == 'num':
        return repr(n / 10)
    if t in ('str', 'date', 'ts'):
        try:
            return ('date ' if t == 'date' else 'ts ' if t == 'ts' else '') + repr(str(concrete(cell)))
        except AssertionError:
            pass
    return f'<{t} {s}>'


# ------------------------------------------------------------------------------------------------- TLC configuration
def cfg_entry(path, spec, kinds, pool, maxq, maxe, nrows, nvar, dup, rule, export, invariants, maxsel=None):
    with open(path, 'w') as fh:
        fh.write(f'SPECIFICATION {spec}\nCONSTANTS Kinds = {{{", ".join(json.dumps(k) for k in kinds)}}}\n Pool = {pool}\n'
                 f' MaxQ = {maxq}\n MaxE = {maxe}\n NRows = {nrows}\n NVariants = {nvar}\n AllowDup = {"TRUE" if dup else "FALSE"}\n'
                 + (f' CastRule = "{rule}"\n ExportOn = {"TRUE" if export else "FALSE"}\n' if rule else '')
                 + (f' MaxSel = {maxsel}\n' if maxsel is not None else ''))
        for inv in invariants:
            fh.write(f'INVARIANT {inv}\n')
        fh.write('CHECK_DEADLOCK FALSE\n')
    return path


BUILD = ['Declare', 'Seal', 'Supply', 'Fill']
STRUCTURAL = ['Decided', 'RefusedWhenIncomplete', 'ServedWhenComplete', 'ShapeIsQuery', 'ColumnsByName', 'IndicesAligned']
NUMERIC = ('int', 'flt', 'str')
TEMPORAL = ('date', 'ts', 'str')
SELECTING = ['PayloadIsSelection', 'SelectionCommutes', 'RowPerRow']


def vectors_of(res):
    out = []
    for rec in res.json_prints():
        rec['q'] = [tuple(f) for f in rec['q']]
        rec['e'] = [tuple(f) for f in rec['e']]
        out.append(rec)
    if not out:
        raise tlc.MachineryError('MatchEntryImpl.tla exported no vector')
    out.sort(key=lambda r: json.dumps([r['q'], r['e'], r['d'], r.get('picked', False), r.get('ix', [])]))  # TLC workers print in any order
    return out


# ------------------------------------------------------------------------------------------------------------- main
def sequence_forms(rec):
    """Every python Sequence[int] denoting the exported index list: the spelled-out ones and, for a progression, the range."""
    forms = [('list', list(rec['ix'])), ('tuple', tuple(rec['ix']))]
    if rec['form'] == 'range':
        prog = range(rec['start'], rec['stop'], rec['step'])
        if list(prog) != list(rec['ix']):  # binding: RangeSeq of TakeIndex.tla is python's range
            raise tlc.MachineryError(f'TakeIndex.tla: range({rec["start"]}, {rec["stop"]}, {rec["step"]}) exported as {rec["ix"]}')
        forms = [('range', prog), forms[len(rec['ix']) % 2]]
    return forms


def take_index_domain(chk):
    """TakeIndex.tla replayed on Dense (built from rows and from columns) and Frame: every index list over the whole integer
    neighbourhood of the valid range - negative indices count from the end, anything out of range is refused - handed over
    in every Sequence[int] form denoting it (list, tuple, range for the arithmetic progressions)."""
    import pandas
    from forml.io import layout
    res = chk.tlc('TakeIndex', 'TakeIndex.cfg', workers=1, coverage=False)
    recs = res.json_prints()
    if len(recs) < 50 or sum(r['form'] == 'range' and len(r['ix']) >= 2 for r in recs) < 50:
        raise tlc.MachineryError(f'TakeIndex.tla exported {len(recs)} index lists')
    n, m = 3, 2
    rows = [[10 * r + c for c in range(m)] for r in range(n)]
    tables = {'dense-from-rows': layout.Dense.from_rows(rows),
              'dense-from-columns': layout.Dense.from_columns([list(c) for c in zip(*rows)]),
              'frame': layout.Frame(pandas.DataFrame(rows, columns=['k0', 'k1'])),
              'frame-with-row-labels': layout.Frame(pandas.DataFrame(rows, columns=['k0', 'k1'], index=[2, 0, 1]))}
    ok = 0
    byform = {}
    for rec in recs:
        for name, table in tables.items():
            for axis, want in (('rows', rec['rows']), ('columns', rec['cols'])):
                for form, seq in sequence_forms(rec):
                    try:
                        taken = getattr(table, f'take_{axis}')(seq)
                        got = {'ok': True, 'rows': [[int(v) for v in r] for r in taken.to_rows()]}
                        if axis == 'columns' and not rec['ix']:
                            got['rows'] = want['rows']
                    except (IndexError, KeyError):
                        got = {'ok': False, 'rows': []}
                    except Exception as exc:  # pylint: disable=broad-except
                        got = {'ok': f'{type(exc).__name__}', 'rows': []}
                    if got != want:
                        chk.fail(f'C15 {name}.take_{axis}({seq!r}) on a {n}x{m} table: {got}, plain matrix semantics: {want}',
                                 {'kind': 'takeindex', 'table': name, 'axis': axis, 'ix': rec['ix'], 'form': form,
                                  'range': [rec['start'], rec['stop'], rec['step']], 'want': want})
                    else:
                        ok += 1
                        byform[form] = byform.get(form, 0) + 1
    # binding self-test: the comparison tells a progression from the contiguous block between its bounds
    # (synthetic observation: the block is computed here, not taken from the code under test)
    rec = next(r for r in recs if r['form'] == 'range' and r['step'] == 2 and len(r['ix']) == 2 and 0 <= r['start'] and r['stop'] <= n)
    chk.selftest('stepped_progression_told_from_block', [rows[i] for i in range(rec['start'], rec['stop'])] != rec['rows']['rows'])
    chk.validated(ok)
    chk.extra['take_index_domain'] = {'index_lists': len(recs), 'conforming_selections': ok, 'by_sequence_form': byform}


def main(chk):
    import logging
    logging.disable(logging.INFO)
    tmp = os.getcwd()
    rnd = random.Random(chk.seed)
    take_index_domain(chk)

    model_level(chk, tmp)
    replay_vectors(chk, tmp)
    sessions(chk, tmp)
    random_observations(chk, rnd)
    tabular(chk, tmp)

    chk.assume('cast semantics = dsl.<Kind>.cast as documented: a value that already is an instance of the kind\'s native '
               'type is kept, otherwise the native constructor / parser of the kind applies (int() truncates, str() of a '
               'float keeps the fraction, ISO literals for Date/Timestamp) and a failing conversion is a refusal')
    chk.assume('entries are honest: every value of an entry column has the declared kind of that column; numbers <-> '
               'calendar values and digit strings -> calendar values are undefined by the documentation and never generated')
    chk.assume('delivered values are compared as denotations (number = numeric value, string = text, date, timestamp); '
               'container types (numpy / pandas scalars, int vs float of equal value) are not compared')
    chk.assume('MissingError and CastError both count as "refused"; any other exception is a failure')


def model_level(chk, tmp):
    """Requirement is decidable; the aligned implementation refines it; the as-is rule is refuted on exactly one clause."""
    q, e, pool = (3, 4, 4) if chk.quick else (4, 4, 4)
    # requirement alone: some outcome is always allowed, exactly one for a well-formed entry
    chk.tlc('Entry', cfg_entry(os.path.join(tmp, 'req.cfg'), 'Spec', NUMERIC, 3, 2, 3, 2, 1, True, None, False,
                               ['Decided', 'RefusedWhenIncomplete', 'ServedWhenComplete', 'ShapeIsQuery', 'ColumnsByName',
                                'ValuesCast']), require=BUILD + ['Serve'], workers=4)
    # the repaired rule refines every clause, inside the largest constants of the tier
    bounds = [(NUMERIC, (q, e, pool)), (TEMPORAL, (q - 1, e - 1, pool - 1))]
    if not chk.quick:
        bounds.append((NUMERIC, (2, 5, 5)))  # wide entries: up to 3 extra columns anywhere
    for kinds, (mq, me, pl) in bounds:
        chk.tlc('MatchEntryImpl', cfg_entry(os.path.join(tmp, f'aligned-{kinds[0]}-{mq}{me}{pl}.cfg'), 'ImplSpec', kinds, pl, mq, me,
                                            1, 1, False, 'aligned', False, STRUCTURAL + ['ValuesCast']),
                require=BUILD + ['ServeImpl'], workers=8)
    # repeated names: the scan of _match_entry (last one wins) stays inside the allowed choices
    chk.tlc('MatchEntryImpl', cfg_entry(os.path.join(tmp, 'dup.cfg'), 'ImplSpec', NUMERIC, 3, 2, 3 if chk.quick else 4, 1, 1,
                                        True, 'aligned', False, STRUCTURAL + ['ValuesCast']),
            require=BUILD + ['ServeImpl'], workers=4)
    # the as-is rule is refuted on ValuesCast (the structural clauses hold for it: checked by the export runs below) -
    # the model tells the two rules apart
    res = chk.tlc('MatchEntryImpl', cfg_entry(os.path.join(tmp, 'asis-cast.cfg'), 'ImplSpec', NUMERIC, 3, 2, 3, 1, 1, False,
                                              'asis', False, ['ValuesCast']), expect_ok=False, workers=4)
    chk.selftest('model_refutes_asis_cast_rule', res.violated == 'ValuesCast')
    chk.extra['entry_model'] = {'bounds (kinds, (query fields, entry columns, names))': [[list(k), list(b)] for k, b in bounds]}


def classify(chk, vec, got, route, container, flavour):
    """Compare one observed outcome with the outcomes TLC allows; -> True when it conforms."""
    allowed = vec['allowed']
    if plain(got) in allowed:
        return True
    sel = vec['ix'] if vec.get('picked') else None
    rows = vec['base'] if vec.get('picked') else vec['d']
    what = f'[{route}/{container}] ' + describe(vec['q'], vec['e'], rows, got, allowed, sel)
    # input class of the known finding, decided by TLC on the input alone (MiscastClass); the failure must also be the
    # one the as-is model predicts at that call site, anything else is a new violation
    finding = FINDING if vec['inclass'] and plain(got) == vec['asis'] else None
    chk.fail(what, {'kind': 'entry', 'q': vec['q'], 'e': vec['e'], 'd': rows, 'sel': sel, 'route': route, 'container': container,
                    'flavour': flavour, 'allowed': allowed, 'observed': got}, finding=finding)
    return False


def replay_vectors(chk, tmp):
    """spec -> code: every exported arrangement through the real reader."""
    # (kinds, names, query fields, entry columns, rows, data variants, repeated names, longest row selection or None)
    runs = [(NUMERIC, 4, 3, 3, 2, 1, False, None), (TEMPORAL, 3, 2, 3, 2, 1, False, None), (NUMERIC, 3, 2, 3, 1, 1, True, None),
            (NUMERIC, 3, 2, 2, 3, 1, False, 2)]
    if not chk.quick:
        runs = [(NUMERIC, 4, 3, 4, 2, 1, False, None), (NUMERIC, 5, 2, 4, 1, 1, False, None), (TEMPORAL, 4, 2, 3, 2, 2, False, None),
                (NUMERIC, 3, 2, 3, 1, 1, True, None), (NUMERIC, 3, 2, 3, 3, 1, False, 3), (TEMPORAL, 3, 2, 2, 3, 2, False, 2)]
    total = drift = 0
    stats = {'ok': 0, 'refused': 0, 'illformed': 0}
    first = True
    selected = {'vectors': 0, 'selections': 0}
    for kinds, pool, mq, me, nrows, nvar, dup, maxsel in runs:
        name = f'export-{kinds[0]}-{pool}-{int(dup)}-{maxsel}.cfg'
        if maxsel is None:
            cfg = cfg_entry(os.path.join(tmp, name), 'ImplSpec', kinds, pool, mq, me, nrows, nvar, dup, 'asis', True,
                            STRUCTURAL + ['Export'])
            res = chk.tlc('MatchEntryImpl', cfg, require=BUILD + ['ServeImpl'], workers=4, timeout=2400)
        else:  # the payload is a row selection of the rows filled in: EntrySelect.tla over the rule of the current code
            cfg = cfg_entry(os.path.join(tmp, name), 'SelSpec', kinds, pool, mq, me, nrows, nvar, dup, 'aligned', True,
                            STRUCTURAL + ['ValuesCast'] + SELECTING + ['ExportSel'], maxsel)
            res = chk.tlc('EntrySelect', cfg, require=['Arrange', 'Select', 'ServeSel'], workers=4, timeout=2400)
        vectors = vectors_of(res)
        queries = sum(len(kinds) ** n for n in range(1, mq + 1))
        entries = sum((pool ** n if dup else math.perm(pool, n)) * len(kinds) ** n for n in range(1, me + 1))
        payloads = 1 if maxsel is None else 1 + sum(nrows ** n for n in range(maxsel + 1))  # as filled in + every index list
        if len(vectors) != queries * entries * nvar * payloads:  # every served state exactly once (no line lost between workers)
            raise tlc.MachineryError(f'{len(vectors)} vectors exported for {queries * entries * nvar * payloads} arrangements')
        check_roundtrip(vectors)
        plans = [(ROUTES[n % 3], PAYLOADS[(n // 3 + n // 7) % len(PAYLOADS)], n // 5) for n in range(len(vectors))]
        jobs = [(v['q'], v['e'], v['base'], *p, v['ix']) if v.get('picked') else (v['q'], v['e'], v['d'], *p)
                for v, p in zip(vectors, plans)]
        outcomes = pmap('serve', jobs)
        for n, (vec, (route, container, flavour), got) in enumerate(zip(vectors, plans, outcomes)):
            total += 1
            if vec.get('picked'):
                # binding of the selection: the matrix TLC judged is the selection of the base the driver made the payload from
                if vec['d'] != [vec['base'][i - 1] for i in vec['ix']]:
                    raise tlc.MachineryError(f'EntrySelect.tla exported a payload that is not its selection: {vec}')
                selected['vectors'] += 1
                selected['selections'] += vec['ix'] != list(range(1, nrows + 1))
            if classify(chk, vec, got, route, container, flavour):
                chk.validated()
                stats[got['res']] += 1
                if plain(got) != vec['asis'] and got['res'] != 'illformed':
                    drift += 1
                if n % 1999 == 7:
                    chk.sample({'query': vec['q'], 'entry': vec['e'], 'rows': [[concrete(v) for v in r] for r in vec['d']],
                                'payload': container, 'selected': vec['ix'] if vec.get('picked') else None,
                                'delivered': got['res'] if got['res'] != 'ok' else got['rows']})
        if first:  # binding self-test: a delivered table with two columns swapped must not be among the allowed outcomes
            first = False
            vec = next(v for v in vectors if len(v['q']) >= 2 and v['allowed'][0]['res'] == 'ok' and len(v['allowed']) == 1
                       and v['allowed'][0]['rows'][0][0] != v['allowed'][0]['rows'][0][1])
            bad = {'res': 'ok', 'rows': [[r[1], r[0]] + r[2:] for r in vec['allowed'][0]['rows']]}
            chk.selftest('swapped_columns_rejected', bad not in vec['allowed'])
        if maxsel is not None and 'row_binding' not in selected:
            # binding self-tests: for a payload selected in another order than its base, what is right for the base order
            # (rows not following the selection), a padded and a cropped table must not be among the allowed outcomes
            selected['row_binding'] = True
            vec = next(v for v in vectors if v.get('picked') and len(v['ix']) == 2 and v['ix'][0] > v['ix'][1]
                       and len(v['q']) >= 2 and v['allowed'][0]['res'] == 'ok' and len(v['allowed']) == 1
                       and v['allowed'][0]['rows'][0] != v['allowed'][0]['rows'][1])
            rows = vec['allowed'][0]['rows']
            chk.selftest('rows_in_base_order_rejected', {'res': 'ok', 'rows': rows[::-1]} not in vec['allowed'])
            chk.selftest('padded_rows_rejected', {'res': 'ok', 'rows': rows + rows[:1]} not in vec['allowed'])
            chk.selftest('cropped_rows_rejected', {'res': 'ok', 'rows': rows[:1]} not in vec['allowed'])
    if not selected.pop('row_binding', False):
        raise tlc.MachineryError('no selected payload replayed')
    chk.extra['entry_vectors_replayed'] = total
    chk.extra['entry_payload_selections'] = selected
    chk.extra['entry_outcomes'] = stats
    chk.extra.setdefault('impl_model_drift', {})['conforming_outcomes_not_predicted_by_asis_model'] = drift


SESSION = STRUCTURAL + ['ValuesCast', 'ArrangementFree', 'PastAligned', 'ExportSess']


def sessions(chk, tmp):
    """spec -> code: every session of EntrySession.tla (one query, several requests in a row) answered by ONE real reader of
    its own - what a request gets must not depend on what the reader served before."""
    # (kinds, names, query fields, entry columns, rows, requests per session, follow-ups also arranged from scratch)
    runs = [(('int', 'str'), 3, 2, 2, 1, 2, True), (('int', 'str'), 3, 2, 3, 1, 2, False)]
    if not chk.quick:
        runs = [(('int', 'str'), 3, 2, 3, 1, 2, True), (NUMERIC, 3, 2, 3, 2, 2, False), (('flt', 'str'), 2, 2, 2, 1, 3, True)]
    total = requests = rearranged = 0
    tested = False
    for kinds, pool, mq, me, nrows, nreq, free in runs:
        cfg = cfg_entry(os.path.join(tmp, f'session-{kinds[0]}-{pool}{mq}{me}-{nreq}-{int(free)}.cfg'), 'SessSpec', kinds, pool, mq, me,
                        nrows, 1, False, 'aligned', True, SESSION)
        with open(cfg, 'a') as fh:
            fh.write(f'CONSTANTS MaxReq = {nreq}\n FreeFollowUp = {"TRUE" if free else "FALSE"}\n')
        res = chk.tlc('EntrySession', cfg, require=['ArrangeS', 'ServeS', 'AnyResend'] + (['Another'] if free else []), workers=4,
                      timeout=2400)
        found = {}
        for rec in res.json_prints():
            found[json.dumps(rec, sort_keys=True)] = rec
        sess = [found[k] for k in sorted(found)]
        queries = sum(len(kinds) ** n for n in range(1, mq + 1))
        entries = sum(math.perm(pool, n) * len(kinds) ** n for n in range(1, me + 1))
        if len(sess) < queries * entries * (entries ** (nreq - 1) if free else 1) or any(len(x['reqs']) != nreq for x in sess):
            raise tlc.MachineryError(f'EntrySession.tla exported {len(sess)} sessions of {queries} queries x {entries} entries')
        for x in sess:
            x['q'] = [tuple(f) for f in x['q']]
            for req in x['reqs']:
                req['e'] = [tuple(f) for f in req['e']]
        check_roundtrip([req for x in sess for req in x['reqs']])
        plans = [([(ROUTES[(n + 2 * k) % 3], PAYLOADS[(n // 3 + n // 7 + 5 * k) % len(PAYLOADS)]) for k in range(nreq)], n // 5)
                 for n in range(len(sess))]
        jobs = [(x['q'], [(r['e'], r['d']) for r in x['reqs']], plan, flavour) for x, (plan, flavour) in zip(sess, plans)]
        for n, (x, (plan, flavour), outs) in enumerate(zip(sess, plans, pmap('serve_session', jobs))):
            total += 1
            good = True
            for k, (req, got) in enumerate(zip(x['reqs'], outs)):
                requests += 1
                if plain(got) in req['allowed']:
                    continue
                good = False
                before = '; '.join(f'({", ".join(f"c{nm}:{kd}" for nm, kd in r["e"])})' for r in x['reqs'][:k]) or 'nothing'
                what = (f'[{plan[k][0]}/{plan[k][1]}] request {k + 1} of a session (the reader served {before} before) '
                        + describe(x['q'], req['e'], req['d'], got, req['allowed']))
                chk.fail(what, {'kind': 'session', 'q': x['q'], 'reqs': [{'e': r['e'], 'd': r['d'], 'allowed': r['allowed']}
                                                                          for r in x['reqs']],
                                'plan': plan, 'flavour': flavour, 'failing_request': k, 'observed': got},
                         finding=FINDING if req['inclass'] and plain(got) == req['asis'] else None)
            if good:
                chk.validated()
                rearranged += any(sorted(a['e']) == sorted(b['e']) and a['e'] != b['e'] for a, b in zip(x['reqs'], x['reqs'][1:]))
                if n % 1999 == 7:
                    chk.sample({'query': x['q'], 'session': [{'entry': r['e'], 'rows': [[concrete(v) for v in row] for row in r['d']]}
                                                             for r in x['reqs']],
                                'delivered': [g['res'] if g['res'] != 'ok' else g['rows'] for g in outs]})
        if not tested:
            # binding self-test (synthetic observation): the second request holds the columns of the first in another order;
            # its values delivered at the positions that were right for the FIRST request must not be among the allowed outcomes
            for x in sess:
                one, two = x['reqs'][0], x['reqs'][1]
                kind = dict(x['q'])
                if (sorted(one['e']) == sorted(two['e']) and one['e'] != two['e'] and len(two['allowed']) == 1
                        and two['allowed'][0]['res'] == 'ok' and all(kind.get(nm, kd) == kd for nm, kd in two['e'])
                        and {nm for nm, _ in x['q']} <= {nm for nm, _ in one['e']}):
                    pos = [[nm for nm, _ in one['e']].index(nm) for nm, _ in x['q']]
                    stale = {'res': 'ok', 'rows': [[den(row[c]) for c in pos] for row in two['d']]}
                    if stale != two['allowed'][0]:
                        chk.selftest('answer_of_previous_arrangement_rejected', stale not in two['allowed'])
                        tested = True
                        break
    if not tested:
        raise tlc.MachineryError('no session suitable for the binding self-test')
    chk.extra['entry_sessions'] = {'sessions_replayed_each_on_a_reader_of_its_own': total, 'requests': requests,
                                   'sessions_resending_the_same_fields_rearranged': rearranged}


# ------------------------------------------------------------------------------------- code -> spec: random requests
def rand_value(rnd, kind, temporal):
    if kind == 'int':
        return ['int', '-', rnd.randint(-99, 99) * 10]
    if kind == 'flt':
        return ['flt', '-', rnd.randint(-990, 990)]
    if kind == 'date':
        return ['date', '-', rnd.randint(0, 90) * 10]
    if kind == 'ts':
        return ['ts', '-', rnd.randint(0, 90) * 10 + rnd.randint(0, 9)]
    forms = 'dtx' if temporal else 'ifxd'
    form = rnd.choice(forms[:-1] if rnd.random() < 0.7 else forms)
    if form == 'i':
        return ['str', 'i', rnd.randint(-99, 99) * 10]
    if form == 'f':
        return ['str', 'f', rnd.randint(-990, 990)]
    if form == 'd':
        return ['str', 'd', rnd.randint(0, 90) * 10]
    if form == 't':
        return ['str', 't', rnd.randint(0, 90) * 10 + rnd.randint(0, 9)]
    return ['str', 'x', rnd.randint(0, 9)]


def rand_case(rnd):
    """Random request: a query of 1..5 fields and an entry that is a permutation / superset / subset of it.
    Excluded (property silent): numbers <-> calendar kinds in one request (kinds are drawn from one family), repeated names
    (covered exhaustively by the model; the public constructor refuses them), dishonest columns."""
    temporal = rnd.random() < 0.35
    kinds = TEMPORAL if temporal else NUMERIC
    nq = rnd.randint(1, 5)
    names = rnd.sample(range(1, 10), nq)
    q = [(nm, rnd.choice(kinds)) for nm in names]
    mode = rnd.random()
    cols = list(names)
    if mode < 0.15:  # lacking some column
        cols.remove(rnd.choice(cols))
    spare = [n for n in range(1, 10) if n not in names]
    if mode > 0.4 and spare:  # extra columns
        cols += rnd.sample(spare, rnd.randint(1, min(len(spare), 7 - len(cols), 3)))
    if rnd.random() < 0.85:
        rnd.shuffle(cols)
    if not cols:
        cols = [spare[0]]
    qkind = dict(q)
    # the entry mostly declares the query's kind, sometimes another one (needs a cast)
    e = [(nm, qkind[nm] if nm in qkind and rnd.random() < 0.5 else rnd.choice(kinds)) for nm in cols]
    nrows = rnd.choice((0, 1, 1, 2, 3, 4))
    d = []
    for _ in range(nrows):
        d.append([rand_value(rnd, k, temporal) if not (k == 'str' and nm in qkind and qkind[nm] != 'str' and rnd.random() < 0.8)
                  else _castable_string(rnd, qkind[nm]) for nm, k in e])
    return q, e, d


def _castable_string(rnd, target):
    if target == 'int':
        return ['str', 'i', rnd.randint(-99, 99) * 10]
    if target == 'flt':
        return rnd.choice((['str', 'i', rnd.randint(-99, 99) * 10], ['str', 'f', rnd.randint(-990, 990)]))
    return rnd.choice((['str', 'd', rnd.randint(0, 90) * 10], ['str', 't', rnd.randint(0, 90) * 10 + rnd.randint(0, 9)]))


def picked_rows(d, sel):
    """The matrix of the payload: the rows themselves or their selection (1-based index list)."""
    return d if sel is None else [d[i - 1] for i in sel]


def as_records(q, e, d, out):
    rec = lambda v: {'t': v[0], 's': v[1], 'n': v[2]}
    return {'q': [{'name': n, 'kind': k} for n, k in q], 'e': [{'name': n, 'kind': k} for n, k in e],
            'd': [[rec(v) for v in row] for row in d],
            'out': {'res': out['res'], 'rows': [[rec(v) for v in row] for row in out['rows']]}}


def random_observations(chk, rnd):
    count = 3000 if chk.quick else 40000
    cases = []
    for _ in range(count):
        q, e, d = rand_case(rnd)
        for row in d:
            for val in row:
                if project(concrete(val)) != den(val):
                    raise tlc.MachineryError(f'value translation does not round-trip: {val}')
        # the payload: built from the request rows, or (2 of 5) a row selection of them made by the real take_rows -
        # the observation handed to TLC is the matrix of the payload, however it was obtained
        sel = [rnd.randint(1, len(d)) for _ in range(rnd.randint(0, 4))] if d and rnd.random() < 0.4 else None
        cases.append((q, e, d, rnd.choice(ROUTES), rnd.choice(PAYLOADS), rnd.randint(0, 1), sel))
    cases = [(*job, got) for job, got in zip(cases, pmap('serve', cases))]
    # binding self-tests: corrupted observations appended to the batch must be rejected by TLC
    q0 = [(1, 'int'), (2, 'str')]
    e0 = [(2, 'str'), (1, 'str')]
    d0 = [[['str', 'x', 1], ['str', 'i', 30]]]
    d2 = d0 + [[['str', 'x', 2], ['str', 'i', 40]]]
    corrupt = [
        ('uncast_value_rejected', (q0, e0, d0, {'res': 'ok', 'rows': [[['str', 'i', 30], ['str', 'x', 1]]]})),
        ('entry_order_rejected', (q0, e0, d0, {'res': 'ok', 'rows': [[['str', 'x', 1], ['num', '-', 30]]]})),
        ('padded_missing_column_rejected', (q0, [(2, 'str')], [[['str', 'x', 1]]], {'res': 'ok', 'rows': [[['str', 'x', 1], ['str', 'x', 1]]]})),
        # values attached to another row / a row too many (what label alignment of a frame does to a selected payload)
        ('misaligned_rows_rejected', (q0, e0, d2, {'res': 'ok', 'rows': [[['num', '-', 30], ['str', 'x', 2]], [['num', '-', 40], ['str', 'x', 1]]]})),
        ('padded_rows_rejected', (q0, e0, d2, {'res': 'ok', 'rows': [[['num', '-', 30], ['str', 'x', 1]], [['num', '-', 40], ['str', 'x', 2]],
                                                                     [['num', '-', 30], ['str', 'x', 1]]]})),
    ]
    good = (q0, e0, d0, {'res': 'ok', 'rows': [[['num', '-', 30], ['str', 'x', 1]]]})
    batch = [as_records(q, e, picked_rows(d, sel), got) for q, e, d, _, _, _, sel, got in cases]
    batch += [as_records(*c) for _, c in corrupt] + [as_records(*good)]
    verdicts = {}
    size = 4000
    for start in range(0, len(batch), size):
        path = common.write_json({'obs': batch[start:start + size]}, f'c15-obs-{start}.json')
        res = chk.tlc('TraceEntry', 'TraceEntry.cfg', workers=1, env={'TRACE_FILE': path}, coverage=False, timeout=2400)
        for v in res.tuples('VERDICT'):
            verdicts[start + v[0]] = v[1:]
    if len(verdicts) != len(batch):
        raise tlc.MachineryError(f'expected {len(batch)} verdicts, got {len(verdicts)}')
    for i, (name, _) in enumerate(corrupt):
        chk.selftest(name, verdicts[len(cases) + 1 + i][0] == 0)
    if verdicts[len(batch)][0] != 1:  # the uncorrupted twin of the corrupted observations must pass
        raise tlc.MachineryError('TraceEntry rejects the control observation')
    drift_asis = drift_aligned = inclass = 0
    for i, (q, e, d, route, container, flavour, sel, got) in enumerate(cases, start=1):
        accepted, cls, is_asis, is_aligned, silent = verdicts[i]
        if silent:
            raise tlc.MachineryError(f'generator produced an input the requirement is silent on: {q} {e} {d}')
        inclass += cls
        if accepted:
            chk.validated()
            drift_asis += 1 - is_asis
            drift_aligned += 1 - is_aligned
            if i % 997 == 1:
                chk.sample({'query': q, 'entry': e, 'rows': [[concrete(v) for v in r] for r in d], 'route': route,
                            'payload': container, 'selected': sel,
                            'delivered': got['res'] if got['res'] != 'ok' else got['rows']})
        else:
            what = f'[{route}/{container}] ' + describe(q, e, d, got, [], sel)
            chk.fail(what, {'kind': 'entry', 'q': q, 'e': e, 'd': d, 'sel': sel, 'route': route, 'container': container,
                            'flavour': flavour, 'observed': got}, finding=FINDING if cls and is_asis else None)
    chk.extra['random_requests'] = {'count': len(cases), 'in_known_finding_class': inclass,
                                    'payload_selected_by_take_rows': sum(c[6] is not None for c in cases),
                                    'payload_frames_with_row_labels': sum(c[4] in LABELLED for c in cases)}
    chk.extra.setdefault('impl_model_drift', {}).update({'accepted_random_outcomes_not_predicted_by_asis_model': drift_asis,
                                                         'accepted_random_outcomes_not_predicted_by_aligned_model': drift_aligned})


# -------------------------------------------------------------------------------------------------- tabular views
def cell_value(cid):
    """Concrete content of the original cell (i, j) = 10 i + j: the column decides the type."""
    col = cid % 10
    if col % 3 == 2:
        return f's{cid}'
    if col % 3 == 0:
        return cid + 0.5
    return cid


def cell_id(obj):
    if isinstance(obj, str):
        return int(obj[1:]) if re.fullmatch(r's\d+', obj) else -1
    if isinstance(obj, bool):
        return -1
    if isinstance(obj, numbers.Integral):
        return int(obj)
    if isinstance(obj, numbers.Real):  # a row of mixed columns may carry an int cell as an equal float
        return int(obj) if float(obj).is_integer() else int(obj - 0.5) if float(obj - 0.5).is_integer() else -1
    return -1


def grid(major):
    return [[cell_id(c) for c in line] for line in major]


def build_table(impl, nr, nc):
    import pandas
    from forml.io import layout
    rows = [[cell_value(10 * i + j) for j in range(1, nc + 1)] for i in range(1, nr + 1)]
    if impl.startswith('frame'):
        return layout.Frame(pandas.DataFrame(rows, columns=[f'k{j}' for j in range(nc)], index=row_labels(impl, nr)))
    if impl == 'dense_rows':
        return layout.Dense.from_rows(rows)
    return layout.Dense.from_columns([list(c) for c in zip(*rows)])


def views_of(table):
    """Everything observable through the view API, as plain lists of cell ids."""
    rows, cols = table.to_rows(), table.to_columns()
    seen = {'rows': grid(rows), 'cols': grid(cols), 'nrows': len(rows), 'ncols': len(cols)}
    seen['row_items'] = [[cell_id(c) for c in rows[i]] for i in range(len(rows))]
    seen['col_items'] = [[cell_id(c) for c in cols[i]] for i in range(len(cols))]
    seen['last_row'] = [cell_id(c) for c in rows[-1]] if len(rows) else None
    seen['last_col'] = [cell_id(c) for c in cols[-1]] if len(cols) else None
    seen['row_slice'] = grid(rows[1:3])
    seen['col_slice'] = grid(cols[0:2])
    return seen


def views_expected(state):
    rows, cols = state['rows'], state['cols']
    return {'rows': rows, 'cols': cols, 'nrows': len(rows), 'ncols': len(cols), 'row_items': rows, 'col_items': cols,
            'last_row': rows[-1] if rows else None, 'last_col': cols[-1] if cols else None, 'row_slice': rows[1:3],
            'col_slice': cols[0:2]}


SEQUENCES = ('list', 'tuple', 'range')


def as_sequence(ix, form):
    """The 0-based index list as the python Sequence[int] of the given form (an index list is what it holds, whatever
    spells it): 'range' = the arithmetic progression with these members when there is one, a tuple otherwise."""
    if form == 'range':
        if not ix:
            return range(0)
        step = ix[1] - ix[0] if len(ix) > 1 else 1
        if step and all(b - a == step for a, b in zip(ix, ix[1:])):
            return range(ix[0], ix[-1] + step, step)
        return tuple(ix)
    return list(ix) if form == 'list' else tuple(ix)


def run_history(impl, nr, nc, hist, form='list'):
    """Replay the calls of one Tabular.tla state on a real table; -> (views, sliced)."""
    from forml.io._input import extract
    table = build_table(impl, nr, nc)
    sliced = None
    for call in hist:
        ix = as_sequence([i - 1 for i in call['ix']], form)
        if list(ix) != [i - 1 for i in call['ix']]:
            raise tlc.MachineryError(f'{ix!r} does not denote {call["ix"]}')
        if call['op'] == 'take_rows':
            table = table.take_rows(ix)
        elif call['op'] == 'take_columns':
            table = table.take_columns(ix)
        elif call['op'] == 'slice':
            feats, labels = extract.Slicer(ix, as_sequence([i - 1 for i in call['lx']], form)).apply(table)
            sliced = {'features': grid(feats), 'labels': grid(labels), 'label': []}
        else:
            feats, label = extract.Slicer(ix, call['l'] - 1).apply(table)
            sliced = {'features': grid(feats), 'labels': [], 'label': [cell_id(c) for c in label]}
    return views_of(table), sliced


def table_job(impl, nr, nc, hist, form='list'):
    """One replay of a Tabular.tla state -> everything observed (or the error)."""
    try:
        seen, sliced = run_history(impl, nr, nc, hist, form)
    except tlc.MachineryError:
        raise
    except Exception as exc:  # pylint: disable=broad-except
        return {'error': f'{type(exc).__name__}: {exc}'[:200]}
    seen['slicer'] = sliced
    return seen


def table_expected(state):
    want = views_expected(state)
    want['slicer'] = {k: state['sliced'][k] for k in ('features', 'labels', 'label')} if state['sliced']['done'] else None
    return want


def tabular(chk, tmp):
    # (rows, columns, longest index list, longest Slicer list, selections in a row, Slicer after at most .. selections)
    shapes = ([(3, 3, 3, 2, 2, 1), (2, 4, 3, 1, 1, 0)] if chk.quick else
              [(3, 3, 4, 2, 2, 0), (2, 4, 3, 2, 2, 1), (4, 2, 3, 2, 2, 1), (1, 3, 3, 2, 2, 1)])
    total = 0
    tested = False
    for nr, nc, maxtake, maxslice, depth, slicedepth in shapes:
        cfg = os.path.join(tmp, f'tab-{nr}x{nc}.cfg')
        with open(cfg, 'w') as fh:
            fh.write(f'SPECIFICATION Spec\nCONSTANTS NR0 = {nr}\n NC0 = {nc}\n MaxTake = {maxtake}\n MaxSlice = {maxslice}\n'
                     f' Depth = {depth}\n SliceDepth = {slicedepth}\nINVARIANT Rectangular\nINVARIANT Transposed\n'
                     'INVARIANT Provenance\nINVARIANT SlicerSplits\nINVARIANT Export\nCHECK_DEADLOCK FALSE\n')
        res = chk.tlc('Tabular', cfg, require=['AnyTakeRows', 'AnyTakeColumns', 'AnySliceVector', 'AnySliceScalar'], workers=4,
                      timeout=2400)
        states = sorted(res.json_prints(), key=lambda st: json.dumps(st['hist'], sort_keys=True))
        if not states or len(states) != res.distinct:
            raise tlc.MachineryError(f'Tabular.tla exported {len(states)} of {res.distinct} states')
        jobs = []
        for n, state in enumerate(states):
            # single selections on all three tables; Slicer applications and second selections on all three for every
            # 4th / 3rd state and on one of them or on a frame with row labels of its own (rotating) otherwise
            every = len(state['hist']) <= 1 and not state['sliced']['done'] or n % (4 if state['sliced']['done'] else 3) == 0
            for impl in (CONTAINERS if every else ((CONTAINERS + LABELLED)[(n // 3) % 6],)):
                # the index lists are handed over as list / tuple / range (rotating: every state meets every form on some
                # table when replayed on all three, on one of them otherwise)
                jobs.append((n, impl, SEQUENCES[(n + len(jobs)) % 3]))
        results = pmap('table_job', [(impl, nr, nc, states[n]['hist'], form) for n, impl, form in jobs])
        for (n, impl, form), seen in zip(jobs, results):
            state = states[n]
            want = table_expected(state)
            total += 1
            calls = [(c['op'], c['ix'], c['lx'], c['l']) for c in state['hist']]
            if 'error' in seen:
                chk.fail(f'{impl} {nr}x{nc} after {calls} (indices as {form}): {seen["error"]}',
                         {'kind': 'tabular', 'impl': impl, 'nr': nr, 'nc': nc, 'state': state, 'form': form})
                continue
            bad = [k for k in want if seen.get(k, '?') != want[k]]
            if bad:
                chk.fail(f'{impl} {nr}x{nc} after {calls} (indices as {form}): {bad[0]} = {seen.get(bad[0])} but matrix semantics '
                         f'give {want[bad[0]]}', {'kind': 'tabular', 'impl': impl, 'nr': nr, 'nc': nc, 'state': state, 'form': form})
            else:
                chk.validated()
                if n % 2999 == 11:
                    chk.sample({'table': impl, 'calls': calls, 'rows': state['rows']})
        for state in states:
            hist = state['hist']
            if not tested and len(hist) == 1 and hist[0]['op'] == 'take_columns' and len(hist[0]['ix']) == 2 \
                    and hist[0]['ix'][0] != hist[0]['ix'][1]:
                # binding self-test: the same call with the index list reversed must be told apart by the comparison
                tested = True
                want = table_expected(state)
                seen = table_job('frame', nr, nc, [dict(hist[0], ix=hist[0]['ix'][::-1])])
                chk.selftest('reversed_take_columns_rejected', any(seen.get(k, '?') != want[k] for k in want))
    if not tested:
        raise tlc.MachineryError('no state suitable for the tabular binding self-test')
    slicer_from_columns(chk)
    chk.extra['tabular_replays'] = total


def slicer_from_columns(chk):
    """Slicer.from_columns (features then labels, positional) against the same matrix semantics, small auxiliary sweep."""
    from forml.io import dsl
    from forml.io._input import extract
    schema = dsl.Schema.from_fields(*(dsl.Field(dsl.Integer(), name=f'k{j}') for j in range(4)), title='T')
    table = dsl.Table(schema)
    feats = table.features
    for impl in CONTAINERS:
        data = build_table(impl, 3, 4)
        base = [[10 * i + j for j in range(1, 5)] for i in range(1, 4)]
        for nf in range(0, 4):
            for labels, scalar in ((feats[nf], True), (list(feats[nf:]), False), (list(feats[nf:nf + 1]), False)):
                columns, builder = extract.Slicer.from_columns(list(feats[:nf]), labels)
                actor = builder()
                try:
                    got_f, got_l = actor.apply(data)
                    got = (grid(got_f), [cell_id(c) for c in got_l] if scalar else grid(got_l))
                except Exception as exc:  # pylint: disable=broad-except
                    got = f'{type(exc).__name__}: {exc}'[:200]
                nl = 1 if scalar else len(labels)
                want = ([r[:nf] for r in base], [r[nf] for r in base] if scalar else [r[nf:nf + nl] for r in base])
                if got != want or len(columns) != nf + nl:
                    chk.fail(f'Slicer.from_columns({nf} features, {"scalar" if scalar else nl} labels) on {impl}: {got} but '
                             f'matrix semantics give {want}', {'kind': 'from_columns', 'impl': impl, 'nf': nf, 'scalar': scalar, 'nl': nl})
                else:
                    chk.validated()


# ----------------------------------------------------------------------------------------------------------- replay
def replay(chk, path):
    with open(path) as fh:
        rep = json.load(fh)['replay']
    print(json.dumps(rep, indent=1, default=str)[:3000])
    if rep['kind'] == 'entry':
        q = [tuple(f) for f in rep['q']]
        e = [tuple(f) for f in rep['e']]
        got = serve(q, e, rep['d'], rep['route'], rep['container'], rep['flavour'], rep.get('sel'))
        print('observed now:', got)
        allowed = rep.get('allowed')
        if allowed is None:
            return 1 if plain(got) == plain(rep['observed']) else 0
        return 0 if plain(got) in allowed else 1
    if rep['kind'] == 'session':
        q = [tuple(f) for f in rep['q']]
        reqs = [([tuple(f) for f in r['e']], r['d']) for r in rep['reqs']]
        outs = serve_session(q, reqs, [tuple(p) for p in rep['plan']], rep['flavour'])
        print('observed now:', outs)
        return 0 if all(plain(got) in r['allowed'] for got, r in zip(outs, rep['reqs'])) else 1
    if rep['kind'] == 'takeindex' and 'want' in rep:
        import pandas
        from forml.io import layout
        rows = [[10 * r + c for c in range(2)] for r in range(3)]
        table = {'dense-from-rows': lambda: layout.Dense.from_rows(rows),
                 'dense-from-columns': lambda: layout.Dense.from_columns([list(c) for c in zip(*rows)]),
                 'frame': lambda: layout.Frame(pandas.DataFrame(rows, columns=['k0', 'k1'])),
                 'frame-with-row-labels': lambda: layout.Frame(pandas.DataFrame(rows, columns=['k0', 'k1'], index=[2, 0, 1]))}[rep['table']]()
        seq = {'list': list, 'tuple': tuple}.get(rep['form'], lambda _: range(*rep['range']))(rep['ix'])
        try:
            taken = getattr(table, f'take_{rep["axis"]}')(seq)
            got = {'ok': True, 'rows': [[int(v) for v in r] for r in taken.to_rows()]}
            if rep['axis'] == 'columns' and not rep['ix']:
                got['rows'] = rep['want']['rows']
        except (IndexError, KeyError):
            got = {'ok': False, 'rows': []}
        except Exception as exc:  # pylint: disable=broad-except
            got = {'ok': f'{type(exc).__name__}', 'rows': []}
        print('observed now:', got)
        return 0 if got == rep['want'] else 1
    if rep['kind'] == 'tabular':
        state = rep['state']
        seen = table_job(rep['impl'], rep['nr'], rep['nc'], state['hist'], rep.get('form', 'list'))
        want = table_expected(state)
        print('observed now:', seen)
        print('matrix semantics:', want)
        return 0 if all(seen.get(k, '?') == want[k] for k in want) else 1
    return 1
