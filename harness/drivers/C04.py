"""C04 - persisted states are bound to the actors that produced them in every mode.

model:        specs/Lifecycle.tla over specs/Composition.tla: generations, incremental training of persistent actors,
              Gen(term, g); histories of {train, apply g|latest, perftrack g, serve g}
spec -> code: every history TLC generates (sampled in the quick tier) is replayed on a real posix registry holding a
              real project package (pipeline = expression over symbolic actors): real Runner.train / apply /
              eval_perftrack and the pyfunc serving runner, each action with a fresh instance, fresh project components
              and a fresh expansion - in a fresh interpreter per action for a share of the histories; the values observed
              by the actors must be TLC's terms (own state, requested generation, no missing state).
"""
import concurrent.futures
import json
import os
import random
import shutil
import subprocess
import sys
import tempfile
import threading

from harness import common, lifecycle, tlc

PUBLISH_LOCK = threading.Lock()  # package import machinery (sys.path, importer caches) is process-global

NPIPES = 12


def cfg(pipe, maxgen, depth, path):
    with open(path, 'w') as fh:
        fh.write(f'SPECIFICATION Spec\nCONSTANTS Pipeline = {pipe}\n MaxGen = {maxgen}\n Depth = {depth}\nCONSTRAINT Bound\n'
                 'INVARIANT Distinct\nINVARIANT OwnChain\nINVARIANT NonEmpty\nINVARIANT Export\nCHECK_DEADLOCK FALSE\n')
    return path


def bag(terms):
    return sorted(json.dumps(t, sort_keys=True) for t in terms)


def judge(ev, obs, gens_before):
    """Requirement verdict for one action."""
    if 'error' in obs:
        if ev['op'].endswith('-fault'):
            return None     # the injected I/O error surfaced: a loud failure is fine
        if ev['op'] == 'perftrack' and obs['error'].startswith('TopologyError'):
            # the evaluation composition is refused loudly (fan-out/fan-in pipelines: 'Ambiguous tail' when the apply
            # segment is re-traced from the placeholder head); nothing is loaded, the property is silent - see DESIGN.md
            return None
        return f'{ev["op"]} failed: {obs["error"]}'
    if ev['op'] == 'train':
        if obs['generations'] != list(range(1, ev['resolved'] + 1)):
            return f'generations after training #{ev["resolved"]} are {obs["generations"]}'
        if bag(obs['states']) != bag(ev['expect']):
            return (f'generation {ev["resolved"]} does not hold exactly the states of this run, each trained on top of the '
                    f'actor\'s own previous state (observed {json.dumps(obs["states"])[:300]})')
        return None
    stale = [p for p in obs.get('params', []) if json.loads(p).get('rate', 'current') != 'current']
    if stale:
        return (f'{ev["op"]}: loaded actors were applied with the hyper-parameters {stale} stored in their state instead of '
                "the current code's {'rate': 'current'}")
    want = ev['expect'][0]
    root = want['id']
    got = [v for v in obs['values'] if v['tag'] == 'app' and v['id'] == root]
    if ev['op'].endswith('-race'):
        if len(got) != 1 or got[0] not in ev['expect']:
            return (f'{ev["op"]}: while generation {ev["resolved"] + 1} was committed during the load, the actors received a mixture '
                    f'of generations (observed {json.dumps(got)[:400]})')
        return None
    if got != [want]:
        return (f'{ev["op"]} of generation {ev["g"] or "latest"}: an actor did not receive its own state of generation '
                f'{ev["resolved"]} (observed {json.dumps(got)[:400]} expected {json.dumps(want)[:400]})')
    return None


def run_history(args):
    """Replay one history; per-action subprocess when isolate is set, else one fresh-everything step in-process."""
    rec, tmp, isolate = args
    work = tempfile.mkdtemp(prefix='lc-', dir=tmp)
    try:
        with PUBLISH_LOCK:
            pkg = lifecycle.make_package(os.path.join(work, 'pkg'), rec['pipeline'], work)
            reg = os.path.join(work, 'registry')
            lifecycle.publish(reg, pkg)
        gens = 0
        for k, ev in enumerate(rec['hist']):
            if isolate:
                spec = {'registry': reg, 'op': ev['op'], 'g': ev['g'], 'w': ev.get('w', 'none'), 'cwd': work, 'out': os.path.join(work, f'obs{k}.json')}
                json.dump(spec, open(os.path.join(work, f'spec{k}.json'), 'w'))
                env = dict(os.environ, FORML_HOME=work)
                proc = subprocess.run([sys.executable, '-W', 'ignore', '-m', 'harness.lifecycle', os.path.join(work, f'spec{k}.json')],
                                      env=env, capture_output=True, text=True, timeout=300)
                if not os.path.exists(spec['out']):
                    return k, f'step process died: {proc.stderr[-500:]}'
                obs = json.load(open(spec['out']))
            else:
                try:
                    obs = lifecycle.step(reg, ev['op'], ev['g'], ev.get('w', 'none'))
                except Exception as exc:  # pylint: disable=broad-except
                    obs = {'error': f'{type(exc).__name__}: {exc}'}
            problem = judge(ev, obs, gens)
            if problem:
                return k, problem
            if ev['op'] == 'train' or ev['op'].endswith('-race'):
                gens += 1
        return None, None
    finally:
        shutil.rmtree(work, ignore_errors=True)


def main(chk):
    import logging
    logging.disable(logging.ERROR)
    rnd = random.Random(chk.seed)
    tmp = os.getcwd()
    # depth 5 (14k+ states per pipeline, > 12 GB of terms each since the fault actions) does not fit: both tiers model-check
    # depth 4, the thorough tier replays ten times as many of the generated histories
    maxgen, depth = (2, 4)
    histories = []
    # one TLC process per pipeline, four at a time (two in the thorough tier: ~8 GB of terms per process at depth 5)
    with concurrent.futures.ThreadPoolExecutor(max_workers=4) as pool:
        runs = list(pool.map(lambda pipe: chk.tlc('Lifecycle', cfg(pipe, maxgen, depth, os.path.join(tmp, f'lc{pipe}.cfg')),
                                                  require=['Train', 'Load', 'Race'], workers=4, heap='5g'),
                             range(1, NPIPES + 1)))
    for pipe, res in enumerate(runs, start=1):
        recs = res.json_prints()
        if not recs:
            raise tlc.MachineryError(f'Lifecycle.tla pipeline {pipe}: nothing exported')
        rnd.shuffle(recs)
        histories += recs[:(8 if chk.quick else 80)]
    isolated = 12 if chk.quick else 160
    jobs = [(rec, tmp, i < isolated) for i, rec in enumerate(histories)]
    iso_jobs = [j for j in jobs if j[2]]
    in_jobs = [j for j in jobs if not j[2]]
    results = []
    with concurrent.futures.ThreadPoolExecutor(max_workers=8) as pool:
        results += list(zip(iso_jobs, pool.map(run_history, iso_jobs)))
    # "in-process" replays: every worker process replays its histories sequentially in one interpreter
    import multiprocessing
    with concurrent.futures.ProcessPoolExecutor(max_workers=8, mp_context=multiprocessing.get_context('fork')) as pool:
        results += list(zip(in_jobs, pool.map(run_history, in_jobs, chunksize=2)))
    ok = 0
    for (rec, _, iso), (k, problem) in results:
        if problem:
            chk.fail(f'C04 pipeline {json.dumps(rec["pipeline"])} history {[(e["op"], e["g"]) for e in rec["hist"]]} step {k + 1}: {problem}',
                     {'pipeline': rec['pipeline'], 'hist': rec['hist'], 'isolated': iso})
        else:
            ok += 1
            if ok % 17 == 1:
                chk.sample({'pipeline': rec['pipeline'], 'history': [(e['op'], e['g']) for e in rec['hist']], 'fresh_interpreter_per_action': iso})
    chk.validated(ok)
    chk.extra['histories'] = {'replayed': len(histories), 'fresh_interpreter_per_action': len(iso_jobs), 'conforming': ok,
                              'max_generations': maxgen, 'depth': depth, 'pipelines': NPIPES}
    # binding self-test: two states of a committed generation exchanged on disk must be noticed at the next load
    selftest_swap(chk, histories, tmp)
    chk.assume('actors are symbolic; the feed layer is replaced by the symbolic source operator; the registry, the package, the '
               'project components, Runner.train/apply/eval_perftrack, pyfunc.Runner and the compiler are the real ones')
    chk.assume('in-process replays rebuild instance, registry object and expansion and clear forml\'s asset caches per action; '
               'the isolated share runs every action in its own interpreter')


def selftest_swap(chk, histories, tmp):
    from forml.io import asset
    rec = next(r for r in histories if len(r['hist'][0]['expect']) >= 2)
    work = tempfile.mkdtemp(prefix='lc-self-', dir=tmp)
    try:
        pkg = lifecycle.make_package(os.path.join(work, 'pkg'), rec['pipeline'], work)
        reg = os.path.join(work, 'registry')
        lifecycle.publish(reg, pkg)
        lifecycle.step(reg, 'train', 0)
        tagfile = os.path.join(reg, lifecycle.PROJECT, lifecycle.RELEASE, '1', 'tag.toml')
        tag = asset.Tag.loads(open(tagfile, 'rb').read())
        states = list(tag.states)
        states[0], states[1] = states[1], states[0]
        open(tagfile, 'wb').write(tag.replace(states=states).dumps())
        obs = lifecycle.step(reg, 'apply', 1)
        # expectation for apply of generation 1 = first-training apply term: recompute through a load event of the model
        ev = next((e for r in histories if r['pipeline'] == rec['pipeline'] for e in r['hist'] if e['op'] in ('apply', 'serve') and e['resolved'] == 1), None)
        rejected = ev is None or judge(dict(ev, op='apply'), obs, 1) is not None
        chk.selftest('swapped_states_on_disk_rejected', rejected and ev is not None)
    finally:
        shutil.rmtree(work, ignore_errors=True)


def replay(chk, path):
    with open(path) as fh:
        rep = json.load(fh)['replay']
    print(run_history(({'pipeline': rep['pipeline'], 'hist': rep['hist']}, os.getcwd(), rep.get('isolated', False))))
    return 1
