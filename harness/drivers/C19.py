"""C19 - content negotiation (Encoding.parse ordering, Encoding.match, get_encoder/get_decoder choice,
Generic.receive/respond errors; CSV codec round trip as an auxiliary observation).

model:        specs/Negotiation.tla  (header read range by range, preference order, Match - the kind of a pattern is a
                                      glob over the text of the kind -, EncoderSet/DecoderSet, as-is first-in-table
                                      choice; the swapped-loop rule is refuted by TLC)
              specs/NegotiationRequest.tla  (the request level: Content-Type x optional Accept header; the response is
                                      negotiated over the client's Accept list alone, the decoder over the content type)
spec -> code: every header TLC enumerates (<= MaxLen ranges over the constants; 4-5 ranges by TLC simulation in the
              thorough tier) is rendered into several spellings and run through the real Encoding.parse /
              get_encoder / get_decoder / Generic.respond / Generic.receive; TLC's exported expectations decide.
              The (pattern, concrete) Match table exported by TLC is compared with Encoding.match.  One run ranges over
              kinds AROUND the supported ones (longer / shorter at either end, wildcards inside a component).
              Every (content type, Accept header) pair of NegotiationRequest.tla is turned into a layout.Request the way
              the gateways do it, pickled (the hop to the engine's process pool), and answered by
              application.Generic.receive / .respond(outcome, request.accept, ...); a part of them additionally goes
              through the rest.Apply route (Starlette test client; 415 = the unsupported-encoding error).
code -> spec: seeded random headers from a wider grammar (1..5 ranges, more kinds/options/q-values) are run on the real
              code first (kinds incl. random edits of the supported ones, random (content type, Accept) requests);
              the recorded observations are judged by specs/TraceNegotiation.tla (one TLC run per batch).

q=0 is the lowest quality: the parse clause is demanded for it like for any other value (behind every positive range,
ties in header order; all headers of <= 3 ranges over QsZero by TLC + the random headers); for the chosen encoder the
property text (a zero-weighted range is the last resort) and RFC 7231 (q=0 = "not acceptable") differ only when no positive
range is supported: both outcomes are allowed there (EncoderSetZ of Negotiation.tla, exported as `encz`).
Excluded in the generators because the property is silent on them: malformed q values / empty ranges (trailing commas) / quoted-string parameter values, duplicate option keys inside one
range, wildcards on the concrete side of match and in a Content-Type, case variations of option VALUES (compared
verbatim), non-ASCII.  Only glob '*' is used in kinds (no '?', '['); every kind is of the form type "/" subtype.
A request without an Accept header: the property does not say what the response is encoded in (as-is: the encoding of
the request; tracked as drift only).
"""
import concurrent.futures
import json
import os
import pickle
import random

from harness import common, tlc

UNSUP = {'t': '!', 's': 'unsupported', 'opts': []}
NOT_OBSERVED = 99
NOQ = 2000
INVARIANTS = ('TypeOK PrefPermutation PrefDescending PrefStable PrefIsParseOrder EncoderSound ImplEncoderRefines '
              'DecoderSound Export')
CSV_BYTES = b'a,b\n1,x\n2,y\n'


# ----------------------------------------------------------------------------------------------- abstract <-> real
def key(enc):
    """Abstract encoding -> hashable denotation."""
    return enc['t'], enc['s'], frozenset((k, v) for k, v in enc['opts'])


def abstract(encoding):
    """Real layout.Encoding -> abstract record."""
    t, _, s = encoding.kind.partition('/')
    return {'t': t, 's': s, 'opts': sorted([k, v] for k, v in encoding.options.items())}


def concrete(enc):
    from forml.io import layout
    return layout.Encoding(f'{enc["t"]}/{enc["s"]}', **dict(enc['opts']))


def qtext(q, rnd):
    """Spellings of a quality given in thousandths."""
    whole, frac = divmod(q, 1000)
    digits = f'{frac:03d}'.rstrip('0')
    base = f'{whole}.{digits}' if digits else str(whole)
    if rnd is None:
        return base
    pick = rnd.randrange(4)
    if pick == 0:
        return base
    if pick == 1:
        return f'{whole}.{frac:03d}'
    if pick == 2:
        return base if '.' in base else base + '.0'
    return base + '0' if '.' in base and len(digits) < 3 else base


def cased(text, rnd):
    return (text, text.upper(), text.title(), text.capitalize())[rnd.randrange(4)]


def blank(rnd):
    return ('', '', ' ', '  ', '\t')[rnd.randrange(5)]


def render(hdr, rnd=None):
    """Abstract header -> header string; rnd=None gives the canonical spelling, otherwise case of kind / parameter
    names, blanks around , ; = and at both ends, parameter order (incl. the position of q) and the q spelling vary."""
    parts = []
    for r in hdr:
        params = [(k, v) for k, v in r['opts']]
        if r['q'] != NOQ:
            params.append(('q', qtext(r['q'], rnd)))
        kind = f'{r["t"]}/{r["s"]}'
        if rnd is None:
            parts.append('; '.join([kind] + [f'{k}={v}' for k, v in params]))
            continue
        rnd.shuffle(params)
        text = cased(kind, rnd)
        for k, v in params:
            text += f'{blank(rnd)};{blank(rnd)}{cased(k, rnd)}{blank(rnd)}={blank(rnd)}{v}'
        parts.append(text)
    if rnd is None:
        return ', '.join(parts)
    text = blank(rnd) + parts[0]
    for p in parts[1:]:
        text += f'{blank(rnd)},{blank(rnd)}{p}'
    return text + blank(rnd)


def rows_of(entry):
    """Decoded layout.Entry -> list of rows of plain python values."""
    cols = entry.data.to_columns()  # column-wise: a row slice of a frame would upcast ints next to floats
    cols = [[v.item() if hasattr(v, 'item') else v for v in list(cols[i])] for i in range(len(cols))]
    return [list(r) for r in zip(*cols)]


class Real:
    """Observation of the real code through layout.Encoding / get_encoder / get_decoder / application.Generic."""

    def __init__(self):
        from forml import application
        from forml.io import dsl, layout
        from forml.io.layout import _codec
        self.layout = layout
        self.app = application.Generic('c19')
        self.outcome = layout.Outcome(
            dsl.Schema.from_fields(dsl.Field(dsl.Integer(), name='a'), dsl.Field(dsl.String(), name='b')),
            [[1, 'x'], [2, 'y']])
        # the only way to tell WHICH decoder was handed out is the (documented, module level) table of defaults
        self.decoders = tuple(getattr(_codec, 'DECODERS', ()))
        self.encoders = tuple(getattr(_codec, 'ENCODERS', ()))
        if not self.decoders or not self.encoders:
            raise tlc.MachineryError('forml.io.layout._codec.ENCODERS/DECODERS tables not found')
        self._memo = {}
        self.decoder_index = {i: i for i in range(1, len(self.decoders) + 1)}

    def tables(self):
        return [abstract(e.encoding) for e in self.encoders], [abstract(e) for _, e in self.decoders]

    def _outcome(self, fn):
        try:
            return fn(), None
        except self.layout.Encoding.Unsupported:
            return None, UNSUP
        except Exception as exc:  # pylint: disable=broad-except
            return None, {'t': '?', 's': type(exc).__name__, 'opts': []}

    def header(self, text, full=True):
        """Everything the gateway derives from one header value."""
        obs = {'parsed': [], 'enc': {'t': '?', 's': 'parse', 'opts': []}, 'dec': NOT_OBSERVED,
               'respond': {'t': '-', 's': '', 'opts': []}, 'receive': NOT_OBSERVED}
        parsed, err = self._outcome(lambda: self.layout.Encoding.parse(text))
        if err:
            obs['error'] = err['s']
            return obs
        obs['parsed'] = [abstract(e) for e in parsed]
        memo = self._memo.get(parsed)
        if memo is None or (full and 'respond' not in memo):
            memo = self._choices(parsed, full)
            if len(self._memo) > 200000:
                self._memo.clear()
            self._memo[parsed] = memo
        obs.update(memo)
        return obs

    def _choices(self, parsed, full):
        layout = self.layout
        res = {}
        enc, err = self._outcome(lambda: layout.get_encoder(*parsed).encoding)
        res['enc'] = err or abstract(enc)
        dec, err = self._outcome(lambda: layout.get_decoder(parsed[0]))
        if err:
            res['dec'] = 0 if err is UNSUP else NOT_OBSERVED + 1  # any other error: never acceptable
        else:
            pos = next((i for i, (c, _) in enumerate(self.decoders, start=1) if c is dec), None)
            res['dec'] = self.decoder_index.get(pos, NOT_OBSERVED + 2)
        if full:
            pay, err = self._outcome(lambda: self.app.respond(self.outcome, parsed, None))
            if err:
                res['respond'] = err
            elif not isinstance(pay.data, bytes) or not pay.data:
                res['respond'] = {'t': '?', 's': 'payload', 'opts': []}
            else:
                res['respond'] = abstract(pay.encoding)
            # the glue of the gateways: content type = most preferred entry, accept = the whole list
            got, err = self._outcome(lambda: self.app.receive(layout.Request(CSV_BYTES, parsed[0], {'p': 1}, parsed)))
            if err is UNSUP:
                res['receive'] = 0
            elif err:
                res['receive'] = 2  # decoder found but it could not read CSV bytes (a JSON decoder) - not judged
            else:
                ok = (got.context == {'params': {'p': 1}}
                      and rows_of(got.entry) == [[1, 'x'], [2, 'y']])
                res['receive'] = 1 if ok else 3
        return res

    # ---- the request level: Content-Type + optional Accept -> layout.Request -> Generic.receive / respond
    def serve(self, request, receive=True):
        """What the serving engine does with a request (minus the model): receive, then respond over request.accept."""
        obs = {'receive': NOT_OBSERVED}
        context = None
        if receive:
            got, err = self._outcome(lambda: self.app.receive(request))
            if err is UNSUP:
                obs['receive'] = 0
            elif err:
                obs['receive'] = 2  # decoder found but it could not read CSV bytes (a JSON decoder) - not judged
            else:
                context = got.context
                ok = got.context == {'params': {'p': '1'}} and rows_of(got.entry) == [[1, 'x'], [2, 'y']]
                obs['receive'] = 1 if ok else 3
        pay, err = self._outcome(lambda: self.app.respond(self.outcome, request.accept, context))
        if err:
            obs['reply'] = err
        elif not isinstance(pay.data, bytes) or not pay.data:
            obs['reply'] = {'t': '?', 's': 'payload', 'opts': []}
        else:
            obs['reply'] = abstract(pay.encoding)
            obs['payload'] = pay
        return obs

    def exchange(self, ctype, accept, receive=True):
        """Header values -> request as the gateways build it (content type = most preferred entry of Content-Type,
        accept = the parsed Accept header if there is one) -> pickled like on the way to the engine -> served."""
        layout = self.layout
        request, err = self._outcome(lambda: layout.Request(
            CSV_BYTES, layout.Encoding.parse(ctype)[0], {'p': '1'}, layout.Encoding.parse(accept) if accept else None))
        if not err:
            request, err = self._outcome(lambda: pickle.loads(pickle.dumps(request)))
        if err:
            return {'receive': NOT_OBSERVED + 1, 'reply': err}
        obs = self.serve(request, receive)
        obs.pop('payload', None)
        return obs

    def rest(self):
        """The rest.Apply route over self.serve (None when the REST provider is not importable here)."""
        if not hasattr(self, '_rest'):
            try:
                self._rest = Rest(self)
            except Exception:  # pylint: disable=broad-except
                self._rest = None  # provider (or its web framework) not usable here: the route is not observed
        return self._rest

    def close(self):
        if getattr(self, '_rest', None):
            self._rest.close()

    def match(self, pat, con):
        """Encoding.match on the real objects: True / False, or the name of the exception it raised."""
        try:
            return bool(concrete(pat).match(concrete(con)))
        except Exception as exc:  # pylint: disable=broad-except
            return type(exc).__name__


class Rest:
    """One request through forml.provider.gateway.rest.Apply (Starlette test client, no sockets): the route turns the
    HTTP headers into the layout.Request, our handler serves it with Real.serve and keeps what it saw."""

    def __init__(self, real):
        from starlette import applications, testclient
        from forml.provider.gateway import rest
        layout = real.layout
        self.seen = None

        async def handler(_, request):
            self.seen = obs = real.serve(request)
            if obs['receive'] == 0 or obs['reply'] is UNSUP:
                raise layout.Encoding.Unsupported('c19')
            return layout.Response(obs.get('payload') or layout.Payload(b'?', request.payload.encoding), 'c19')

        self.ctx = testclient.TestClient(applications.Starlette(routes=[rest.Apply(handler)]))
        self.client = self.ctx.__enter__()

    def close(self):
        self.ctx.__exit__(None, None, None)

    def exchange(self, ctype, accept):
        """POST with the given header values ('' = the header left empty: the test client would otherwise add its own
        Accept) -> observation of the handler + the HTTP status."""
        self.seen = None
        try:
            resp = self.client.post('/c19?p=1', content=CSV_BYTES, headers={'content-type': ctype, 'accept': accept or ''})
            status = resp.status_code
        except Exception as exc:  # pylint: disable=broad-except
            status = type(exc).__name__
        obs = dict(self.seen or {'receive': NOT_OBSERVED + 1, 'reply': {'t': '?', 's': 'route', 'opts': []}})
        obs.pop('payload', None)
        obs['status'] = status
        return obs


# ----------------------------------------------------------------------------------------------- spec -> code
def judge_request(exp, obs, encoders):
    """TLC's expectation (one exported state of NegotiationRequest.tla) against one served request."""
    bad, drift = [], 0
    allowed = [key(encoders[e - 1]) for e in exp['enc']]
    fits = key(obs['reply']) == key(UNSUP) if not allowed else key(obs['reply']) in allowed
    if not fits and exp['judged']:
        bad.append(('respond', f'response over request.accept came as {show([obs["reply"]])}, allowed by the Accept header: '
                               f'{show([encoders[e - 1] for e in exp["enc"]]) or "Unsupported"}'))
    elif not fits:
        drift += 1  # no Accept header: the property is silent
    if obs['receive'] != NOT_OBSERVED and ((obs['receive'] == 0) != (not exp['dec']) or obs['receive'] not in (0, 1, 2)):
        bad.append(('receive', f'Generic.receive outcome {obs["receive"]} (0=Unsupported 1=ok 2=other error 3=wrong entry) '
                               f'but decoders allowed: {exp["dec"] or "none"}'))
    if 'status' in obs and not bad and exp['judged']:
        refused = not exp['dec'] or not exp['enc']
        if http_ok(obs['status']) == refused and (refused or obs['receive'] == 1):
            bad.append(('rest', f'HTTP status {obs["status"]} but the unsupported-encoding error is '
                                f'{"" if refused else "not "}due'))
    return bad, drift


def http_ok(status):
    """The route answered with a success (the unsupported-encoding error has to come as an HTTP error, as-is 415)."""
    return isinstance(status, int) and 200 <= status < 300


def replay_requests(chk, real, res, rnd, stats):
    """Every (content type, Accept header) state exported by one NegotiationRequest.tla run on the real code."""
    states, seen_receive = 0, set()
    for line in res.printed:
        try:
            exp = json.loads(line)
        except ValueError:
            continue
        if not isinstance(exp, dict) or 'req' not in exp:
            continue
        states += 1
        spell = rnd if states % 2 else None
        ctype = render([dict(exp['ctype'], q=NOQ)], spell)
        accept = render(exp['hdr'], spell) if exp['hdr'] else None
        # the decoder is chosen from the content type: observed for every content type with each length of Accept
        rkey = (key(exp['ctype']), len(exp['hdr']))
        runs = [(False, real.exchange(ctype, accept, receive=rkey not in seen_receive))]
        seen_receive.add(rkey)
        if states % 8 == 1 and real.rest():
            runs.append((True, real.rest().exchange(ctype, accept)))
            stats['rest'] += 1
        failed = False
        for via_rest, obs in runs:
            bad, drift = judge_request(exp, obs, stats['encoders'])
            stats['drift'] += drift
            stats['requests'] += 1
            for clause, what in bad:
                failed = True
                chk.fail(f'{clause}: request Content-Type {ctype!r} Accept {accept!r}{" via rest.Apply" if via_rest else ""}: {what}',
                         {'kind': 'request', 'ctype': ctype, 'accept': accept, 'expected': exp, 'rest': via_rest})
        if not failed:
            chk.validated()
            if states % 977 == 5:
                chk.sample({'content_type': ctype, 'accept': accept, 'response': show([runs[0][1]['reply']])})
    return states


def judge(exp, obs, encoders, full):
    """TLC's expectation (one exported state of Negotiation.tla) against one observation. Returns (failures, drift)."""
    bad, drift = [], 0
    if [key(e) for e in obs['parsed']] != [key(e) for e in exp['parsed']]:
        bad.append(('parse', f'parsed order {show(obs["parsed"])} expected {show(exp["parsed"])}'
                    + (f' ({obs["error"]} raised)' if 'error' in obs else '')))
        return bad, drift
    # the admissible encoders; `encz` = the same with zero-weighted ranges read as "not acceptable" (RFC 7231) - differs
    # from `enc` only for headers whose positive ranges are all unsupported
    readings = [[key(encoders[e - 1]) for e in exp[f]] for f in ('enc', 'encz') if f in exp]

    def enc_ok(out):
        return any(key(out) == key(UNSUP) if not allowed else key(out) in allowed for allowed in readings)

    if not enc_ok(obs['enc']):
        bad.append(('encoder', f'get_encoder gave {show([obs["enc"]])}, allowed {show([encoders[e - 1] for e in exp["enc"]]) or "Unsupported"}'))
    elif exp['ienc'] and key(obs['enc']) != key(encoders[exp['ienc'] - 1]):
        drift += 1
    if exp['conc']:
        if (obs['dec'] != 0) if not exp['dec'] else (obs['dec'] not in exp['dec']):
            bad.append(('decoder', f'get_decoder gave table entry {obs["dec"]}, allowed {exp["dec"] or "Unsupported"}'))
        elif obs['dec'] != exp['idec']:
            drift += 1
    if full:
        if not enc_ok(obs['respond']):
            bad.append(('respond', f'Generic.respond gave {show([obs["respond"]])}, allowed '
                                   f'{show([encoders[e - 1] for e in exp["enc"]]) or "Unsupported"}'))
        if exp['conc'] and ((obs['receive'] == 0) != (not exp['dec']) or obs['receive'] == 3):
            bad.append(('receive', f'Generic.receive outcome {obs["receive"]} (0=Unsupported 1=ok 2=other error 3=wrong '
                                   f'entry) but decoders allowed: {exp["dec"] or "none"}'))
    return bad, drift


def show(encs):
    return ', '.join(f'{e["t"]}/{e["s"]}' + ''.join(f';{k}={v}' for k, v in sorted(map(tuple, e['opts']))) for e in encs)


def cfg_neg(path, maxlen, kinds, opts, qs, rule='pattern-outer', export=1, invariants=INVARIANTS, spec='Spec', more=''):
    with open(path, 'w') as fh:
        fh.write(f'SPECIFICATION {spec}\nCONSTANTS MaxLen = {maxlen}\n Kinds <- {kinds}\n OptSets <- {opts}\n Qs <- {qs}\n{more}'
                 f' Rule = "{rule}"\n ExportFrom = {export}\nINVARIANTS {invariants}\nCHECK_DEADLOCK FALSE\n')
    return path


REQ_INVARIANTS = 'RTypeOK ReplyIgnoresContentType ReplyFromClientList UnsupportedIffNoRange DefaultReply RExport'


def replay_model(chk, real, res, rnd, spellings, stats):
    """Compare every state exported by one Negotiation.tla run with the real code."""
    encoders = None
    states = 0
    for line in res.printed:
        try:
            exp = json.loads(line)
        except ValueError:
            continue
        if 'match' in exp:
            encoders = check_tables(chk, real, exp, stats)
            continue
        if 'hdr' not in exp:
            continue
        if encoders is None:
            encoders = stats['encoders']
        states += 1
        stats['zero_last'] += any(r['q'] == 0 for r in exp['hdr'])
        failed = False
        for n in range(spellings):
            text = render(exp['hdr'], None if n == 0 else rnd)
            full = n == 0
            obs = real.header(text, full=full)
            bad, drift = judge(exp, obs, encoders, full)
            stats['drift'] += drift
            stats['headers'] += 1
            for clause, what in bad:
                failed = True
                chk.fail(f'{clause}: header {text!r}: {what}',
                         {'kind': 'header', 'header': text, 'abstract': exp['hdr'], 'expected': exp, 'full': full})
            if failed:
                break
        if not failed:
            chk.validated()
            outcome = (len(exp['hdr']), tuple(exp['enc']))
            if outcome not in stats['sampled'] and len(exp['hdr']) > 1 and states % 7 == 3:
                stats['sampled'].add(outcome)
                chk.sample({'header': render(exp['hdr'], rnd), 'parsed': show(exp['parsed']),
                            'allowed_encoders': show([encoders[e - 1] for e in exp['enc']]) or 'Unsupported'})
    return states


def check_tables(chk, real, exp, stats):
    """The supported codec tables assumed by the model vs the code; then the exported Match table."""
    encs, decs = real.tables()
    if {key(e) for e in encs} != {key(e) for e in exp['encoders']} or {key(d) for d in decs} != {key(d) for d in exp['decoders']} \
            or len(decs) != len(exp['decoders']):
        raise tlc.MachineryError('the codecs supported by forml.io.layout differ from Encoders/Decoders of '
                                 f'Negotiation.tla (update the model): {show(encs)} / {show(decs)}')
    # decoders are reported by their position in the table of the MODEL (the code may keep another order: drift only)
    model_pos = {key(d): i for i, d in enumerate(exp['decoders'], start=1)}
    real.decoder_index = {i: model_pos[key(d)] for i, d in enumerate(decs, start=1)}
    if [key(e) for e in encs] != [key(e) for e in exp['encoders']] or [key(d) for d in decs] != [key(d) for d in exp['decoders']]:
        chk.extra['impl_table_order_differs'] = True
    stats['encoders'] = exp['encoders']
    for row in exp['match']:
        got = real.match(row['p'], row['c'])
        stats['pairs'] += 1
        if got != row['m']:
            chk.fail(f'match: pattern {show([row["p"]])} vs {show([row["c"]])} gave {got}, expected {row["m"]}',
                     {'kind': 'match', 'p': row['p'], 'c': row['c'], 'm': row['m']})
        else:
            chk.validated()
    return exp['encoders']


# ----------------------------------------------------------------------------------------------- code -> spec
KINDS = [('*', '*'), ('application', '*'), ('application', 'json'), ('text', 'csv'), ('text', '*'), ('foo', 'bar'),
         ('text', 'plain'), ('application', 'xml'), ('image', '*'), ('*', 'json'), ('*', 'csv')]
CONCRETE = [('application', 'json'), ('text', 'csv'), ('foo', 'bar'), ('text', 'plain'), ('application', 'xml')]
FORMATS = ['pandas-records', 'pandas-split', 'pandas-columns', 'pandas-index', 'pandas-table', 'pandas-values', 'bogus']
QPOOL = [1000, 900, 800, 750, 500, 330, 100, 10, 1, 0]


SUPPORTED = [('application', 'json'), ('text', 'csv')]
TAILS = ['l', 's', '5', '-seq', '+xml', '.v2', 'x']
HEADS = ['x', 'x-', 'my', 'v.']


def edited_kind(rnd, stars=True):
    """A kind near a supported one: characters added / dropped at either end of a component and (stars) wildcards put
    in place of a (possibly empty) run of characters; both the patterns that still fit the supported kind and the
    ones that just do not are frequent."""
    comps = list(rnd.choice(SUPPORTED))
    for _ in range(rnd.choice((0, 1, 1, 2))):
        i = rnd.randrange(2)
        op = rnd.randrange(4)
        if op == 0:
            comps[i] += rnd.choice(TAILS)
        elif op == 1:
            comps[i] = rnd.choice(HEADS) + comps[i]
        elif op == 2 and len(comps[i]) > 2:
            comps[i] = comps[i][:-rnd.randint(1, 2)]
        elif len(comps[i]) > 2:
            comps[i] = comps[i][rnd.randint(1, 2):]
    for _ in range(rnd.choice((0, 1, 1, 2)) if stars else 0):
        i = rnd.randrange(2)
        a = rnd.randint(0, len(comps[i]))
        b = min(len(comps[i]), a + rnd.choice((0, 0, 1, 2, 9)))
        comps[i] = comps[i][:a] + '*' + comps[i][b:]
    return comps[0], comps[1]


def instance_of(rnd, kind):
    """A concrete kind the pattern fits (each wildcard filled with a short run) - or, half of the time, nearly fits."""
    fill = ['', '', 'a', 'son', 'pplication', 'x-', 'sv', 'ext']
    comps = [''.join(rnd.choice(fill) if ch == '*' else ch for ch in comp) for comp in kind]
    if rnd.random() < 0.5:
        i = rnd.randrange(2)
        comps[i] = (comps[i] + rnd.choice(TAILS)) if rnd.random() < 0.5 else (rnd.choice(HEADS) + comps[i])
    return comps[0] or 'a', comps[1] or 'b'


def random_opts(rnd, rich=False):
    opts = []
    if rnd.random() < (0.7 if rich else 0.45):
        opts.append(['format', rnd.choice(FORMATS)])
    if rnd.random() < 0.25:
        opts.append(['charset', rnd.choice(['utf-8', 'latin1'])])
    if rnd.random() < 0.1:
        opts.append(['version', '1'])
    return opts


def random_header(rnd):
    """1..5 media ranges; q drawn from a small per-header palette so that ties are frequent."""
    if rnd.random() < 0.3:  # content-type like: one concrete range
        t, s = rnd.choice(CONCRETE[:3] if rnd.random() < 0.8 else CONCRETE)
        if rnd.random() < 0.3:
            t, s = edited_kind(rnd, stars=False)
        return [{'t': t, 's': s, 'opts': random_opts(rnd, True), 'q': rnd.choice([NOQ, NOQ, 1000, 500, 0])}]
    palette = [NOQ] + rnd.sample(QPOOL, rnd.randint(1, 3)) + ([rnd.randint(1, 1000)] if rnd.random() < 0.3 else [])
    hdr = []
    near = rnd.random() < 0.25  # a header whose kinds are (mostly) near misses / inner wildcards of the supported ones
    for _ in range(rnd.randint(1, 5)):
        if near and rnd.random() < 0.8:
            t, s = edited_kind(rnd)
        else:
            t, s = rnd.choice(KINDS[:6] if rnd.random() < 0.7 else KINDS)
        hdr.append({'t': t, 's': s, 'opts': random_opts(rnd), 'q': rnd.choice(palette)})
    return hdr


def random_content_type(rnd):
    """One concrete range without q: an encoding some codec produces / reads, the same with other options, a near miss
    of a supported kind, an unknown kind."""
    pick = rnd.random()
    if pick < 0.35:
        t, s = rnd.choice(SUPPORTED)
        opts = [['format', rnd.choice(FORMATS[:6])]] if s == 'json' and rnd.random() < 0.8 else []
    elif pick < 0.6:
        (t, s), opts = rnd.choice(CONCRETE[:3]), random_opts(rnd, True)
    elif pick < 0.8:
        (t, s), opts = edited_kind(rnd, stars=False), random_opts(rnd)
    else:
        (t, s), opts = rnd.choice(CONCRETE), random_opts(rnd, True)
    return {'t': t, 's': s, 'opts': opts, 'q': NOQ}


def random_request(rnd):
    """(content type, Accept header or [] for none); a good share of the Accept headers name nothing supported."""
    ctype = random_content_type(rnd)
    pick = rnd.random()
    if pick < 0.12:
        return ctype, []
    if pick < 0.5:
        unsup = [('foo', 'bar'), ('text', 'plain'), ('application', 'xml'), ('image', '*'), ('text', 'html')]
        hdr = []
        for _ in range(rnd.randint(1, 4)):
            roll = rnd.random()
            if roll < 0.6:
                (t, s), opts = rnd.choice(unsup), random_opts(rnd)
            elif roll < 0.8:
                (t, s), opts = rnd.choice(SUPPORTED), [['format', 'bogus']] + ([['version', '1']] if rnd.random() < 0.3 else [])
            else:
                (t, s), opts = edited_kind(rnd), random_opts(rnd)
            hdr.append({'t': t, 's': s, 'opts': opts, 'q': rnd.choice([NOQ, NOQ, 900, 800, 500, 0])})
        return ctype, hdr
    return ctype, random_header(rnd)


def random_pair(rnd):
    if rnd.random() < 0.5:  # kinds as texts: a pattern near a supported kind against an instance / a near instance
        t, s = edited_kind(rnd)
        ct, cs = instance_of(rnd, (t, s)) if rnd.random() < 0.7 else edited_kind(rnd, stars=False)
    else:
        t, s = rnd.choice(KINDS)
        ct, cs = rnd.choice(CONCRETE) if rnd.random() < 0.5 else ((t if t != '*' else rnd.choice(['application', 'text'])),
                                                                  (s if s != '*' else rnd.choice(['json', 'csv', 'plain'])))
    popts = random_opts(rnd, True)
    copts = [list(o) for o in popts if rnd.random() < 0.8] if rnd.random() < 0.7 else random_opts(rnd, True)
    have = {k for k, _ in copts}
    copts += [o for o in random_opts(rnd) if o[0] not in have]
    if rnd.random() < 0.15 and copts:  # same key, other value
        copts[0] = [copts[0][0], copts[0][1] + 'x']
    return {'t': t, 's': s, 'opts': popts}, {'t': ct, 's': cs, 'opts': copts}


def strip_q(rng):
    return {k: v for k, v in rng.items() if k != 'q'}


def random_table(rnd):
    """Tables on which CSV is expected to be lossless: CSV is untyped, so strings that read as numbers / booleans /
    missing-value markers, empty strings, missing values and empty tables are excluded; floats are dyadic.  Column names
    (part of the table) are distinct non-empty texts, with blanks at either end / inside, separators and quotes."""
    words = ['ab', 'x y', 'q,r', ' pad ', 'he said "hi"', 'Zed', 'a;b', 'semi:colon', "it's", 'tab\there']
    gens = {'int': lambda: rnd.randint(-1000, 1000), 'float': lambda: rnd.randint(-4000, 4000) / 8 + 0.125,
            'str': lambda: rnd.choice(words), 'bool': lambda: rnd.random() < 0.5}
    kinds = [rnd.choice(list(gens)) for _ in range(rnd.randint(1, 4))]
    rows = [[gens[k]() for k in kinds] for _ in range(rnd.randint(1, 6))]
    heads = ['c', 'c', 'c', ' lead', 'trail ', 'in ner', 'q,r', 'say "hi"', "it's", 'Zed', 'a;b']
    names = [rnd.choice(heads) + str(i) for i in range(len(kinds))]   # (the index keeps them distinct)
    return kinds, rows, names


def csv_roundtrip(real, kinds, rows, names=None):
    """Encode with the CSV encoder, decode with the CSV decoder (both obtained by negotiation); cells dictionary-encoded."""
    from forml.io import dsl, layout
    kindmap = {'int': dsl.Integer(), 'float': dsl.Float(), 'str': dsl.String(), 'bool': dsl.Boolean()}
    names = names or [f'c{i}' for i in range(len(kinds))]
    schema = dsl.Schema.from_fields(*(dsl.Field(kindmap[k], name=n) for k, n in zip(kinds, names)))
    accept = layout.Encoding.parse('foo/bar;q=0.9, text/*;q=0.5')
    payload = real.app.respond(layout.Outcome(schema, rows), accept, None)
    entry = real.app.receive(layout.Request(payload.data, payload.encoding)).entry
    back = rows_of(entry)
    book = {}

    def code(v):
        return book.setdefault((type(v).__name__, v), len(book) + 1)

    src = [[code(n) for n in names]] + [[code(v) for v in row] for row in rows]
    out = [[code(f.name) for f in entry.schema]] + [[code(v) for v in row] for row in back]
    return {'src': src, 'out': out, 'encoding': payload.encoding.header}


def trace_validation(chk, real, rnd, pool):
    """Records the observations, hands them to TLC (in the pool) and returns the function that collects the verdicts."""
    n_hdr, n_pair, n_tab, n_req = (4000, 3000, 150, 600) if chk.quick else (40000, 20000, 1000, 12000)
    traces, texts, seen = [], [], set()
    while len(traces) < n_hdr:
        hdr = random_header(rnd)
        text = render(hdr, rnd if rnd.random() < 0.85 else None)
        if text in seen:
            continue
        seen.add(text)
        obs = real.header(text, full=True)
        obs.pop('error', None)
        traces.append(dict(obs, hdr=hdr))
        texts.append(text)
    pairs = []
    for _ in range(n_pair):
        p, c = random_pair(rnd)
        got = real.match(p, c)
        if not isinstance(got, bool):  # TLC judges booleans; a raising match is a failure whatever the expectation
            chk.fail(f'match: pattern {show([p])} vs {show([c])} raised {got}', {'kind': 'match', 'p': p, 'c': c, 'm': None})
            continue
        pairs.append({'p': p, 'c': c, 'm': got})
    requests, reqtexts, seen = [], [], set()
    while len(requests) < n_req:
        ctype, hdr = random_request(rnd)
        spell = rnd if rnd.random() < 0.5 else None
        texts_ = render([ctype], spell), (render(hdr, spell) if hdr else None)
        if texts_ in seen:
            continue
        seen.add(texts_)
        via_rest = len(requests) % 5 == 0 and real.rest() is not None
        obs = real.rest().exchange(*texts_) if via_rest else real.exchange(*texts_, receive=len(requests) % 3 == 0)
        status = obs.pop('status', None)
        refused = obs['receive'] == 0 or obs['reply'] is UNSUP
        if via_rest and http_ok(status) == refused:  # the route has to surface the error the application raised
            chk.fail(f'rest: request Content-Type {texts_[0]!r} Accept {texts_[1]!r}: HTTP status {status} although the '
                     f'application {"raised" if refused else "did not raise"} the unsupported-encoding error',
                     {'kind': 'request', 'ctype': texts_[0], 'accept': texts_[1], 'expected': None, 'rest': True,
                      'abstract': {'ct': strip_q(ctype), 'accept': hdr}})
        requests.append(dict(obs, ct=strip_q(ctype), accept=hdr))
        reqtexts.append(texts_ + (via_rest,))
    tables, tabmeta = [], []
    for _ in range(n_tab):
        kinds, rows, names = random_table(rnd)
        try:
            obs = csv_roundtrip(real, kinds, rows, names)
        except Exception as exc:  # pylint: disable=broad-except
            obs = {'src': [[1]], 'out': [[2]], 'encoding': f'raised {type(exc).__name__}: {exc}'}
        tables.append({'src': obs['src'], 'out': obs['out']})
        tabmeta.append({'kinds': kinds, 'rows': rows, 'names': names, 'encoding': obs['encoding']})
    # ---- corrupted observations (binding self-test): each must be rejected by TLC
    csv = {'t': 'text', 's': 'csv', 'opts': []}
    jsn = {'t': 'application', 's': 'json', 'opts': []}
    rec = {'t': 'application', 's': 'json', 'opts': [['format', 'pandas-records']]}
    spl = {'t': 'application', 's': 'json', 'opts': [['format', 'pandas-split']]}
    blank_out = {'dec': NOT_OBSERVED, 'respond': {'t': '-', 's': '', 'opts': []}, 'receive': NOT_OBSERVED}
    corrupted = [
        ('tie_order_swapped', 0, dict(blank_out, hdr=[dict(csv, q=500), dict(jsn, q=500)], parsed=[jsn, csv], enc=csv)),
        ('ascending_order', 0, dict(blank_out, hdr=[dict(csv, q=100), dict(jsn, q=NOQ)], parsed=[csv, jsn], enc=csv)),
        ('zero_weight_ranked_as_default', 0, dict(blank_out, hdr=[dict(csv, q=0), dict(jsn, q=800)], parsed=[csv, jsn], enc=csv)),
        ('zero_weight_beats_supported_range', 1, dict(blank_out, hdr=[dict(csv, q=0), dict(jsn, q=800)], parsed=[jsn, csv], enc=csv)),
        ('less_preferred_encoder', 1, dict(blank_out, hdr=[dict(csv, q=NOQ), dict(jsn, q=500)], parsed=[csv, jsn], enc=rec)),
        ('unsupported_swallowed', 1, dict(blank_out, hdr=[{'t': 'foo', 's': 'bar', 'opts': [], 'q': NOQ}],
                                        parsed=[{'t': 'foo', 's': 'bar', 'opts': []}], enc=csv)),
        ('option_ignored_by_encoder', 1, dict(blank_out, hdr=[dict(spl, q=NOQ)], parsed=[spl], enc=rec)),
        ('wrong_decoder', 2, dict(blank_out, hdr=[dict(csv, q=NOQ)], parsed=[csv], enc=csv, dec=7)),
        ('respond_error_missing', 3, dict(blank_out, hdr=[{'t': 'foo', 's': 'bar', 'opts': [], 'q': NOQ}],
                                        parsed=[{'t': 'foo', 's': 'bar', 'opts': []}], enc=UNSUP, respond=csv)),
        ('receive_error_missing', 4, dict(blank_out, hdr=[{'t': 'foo', 's': 'bar', 'opts': [], 'q': NOQ}],
                                        parsed=[{'t': 'foo', 's': 'bar', 'opts': []}], enc=UNSUP, dec=0, receive=1)),
    ]
    bad_pairs = [('match_ignores_option_value', {'p': spl, 'c': rec, 'm': True}),
                 ('match_ignores_wildcard', {'p': {'t': 'text', 's': '*', 'opts': []}, 'c': csv, 'm': False})]
    bad_pairs += [('match_prefix_only', {'p': jsn, 'c': dict(jsn, s='jsonl'), 'm': True}),
                  ('match_suffix_only', {'p': csv, 'c': dict(csv, t='x-text'), 'm': True}),
                  ('match_inner_wildcard_ignored', {'p': dict(jsn, s='j*n'), 'c': jsn, 'm': False})]
    foo = {'t': 'foo', 's': 'bar', 'opts': []}
    bad_requests = [  # (name, flag index, observation)
        ('request_encoding_served_despite_accept', 0, {'ct': csv, 'accept': [dict(foo, q=NOQ)], 'reply': csv, 'receive': 1}),
        ('request_encoding_preferred_to_accept', 0, {'ct': csv, 'accept': [dict(foo, q=NOQ), dict(spl, q=500)], 'reply': csv,
                                                    'receive': NOT_OBSERVED}),
        ('request_zero_weight_beats_supported_range', 0, {'ct': csv, 'accept': [dict(csv, q=0), dict(spl, q=500)], 'reply': csv,
                                                         'receive': NOT_OBSERVED}),
        ('request_decoder_from_accept', 1, {'ct': foo, 'accept': [dict(csv, q=NOQ)], 'reply': csv, 'receive': 1}),
    ]
    bad_table = {'src': [[1, 2], [3, 4], [5, 6]], 'out': [[1, 2], [3, 4], [5, 7]]}  # one cell came back different
    batch = {'traces': traces + [c[2] for c in corrupted], 'matches': pairs + [p[1] for p in bad_pairs],
             'tables': tables + [{'src': bad_table['src'], 'out': bad_table['out']}],
             'requests': requests + [r[2] for r in bad_requests]}
    path = common.write_json(batch, 'c19-batch.json')
    run = pool.submit(chk.tlc, 'TraceNegotiation', 'TraceNegotiation.cfg', workers=1, env={'TRACE_FILE': path},
                      require=['Read', 'Judge'], timeout=1500)

    def judge_batch():
        """TLC's verdicts on the recorded observations (TLC has been judging them in the background)."""
        res = run.result()
        verdicts = {v[0]: v for v in res.tuples('VERDICT')}
        matches = {v[0]: v for v in res.tuples('MATCH')}
        tabs = {v[0]: v for v in res.tuples('TABLE')}
        reqs = {v[0]: v for v in res.tuples('REQUEST')}
        if len(verdicts) != len(batch['traces']) or len(matches) != len(batch['matches']) or len(tabs) != len(batch['tables']) \
                or len(reqs) != len(batch['requests']):
            raise tlc.MachineryError(f'TraceNegotiation: verdict count mismatch {len(verdicts)}/{len(matches)}/{len(tabs)}/{len(reqs)}')
        clauses = ['parse', 'encoder', 'decoder', 'respond', 'receive']
        drift = 0
        for i, (text, tr) in enumerate(zip(texts, traces), start=1):
            _, want, reg = verdicts[i]
            if reg[0] != want or len(reg) != 8:
                raise tlc.MachineryError(f'trace {i} ({text!r}) was not replayed to the end by TraceNegotiation: {reg}')
            flags = reg[1:]
            drift += (1 - flags[5]) + (1 - flags[6])
            broken = [c for c, f in zip(clauses, flags) if not f]
            if broken:
                chk.fail(f'{"+".join(broken)}: header {text!r}: observed parsed={show(tr["parsed"])} encoder={show([tr["enc"]])} '
                         f'decoder={tr["dec"]} respond={show([tr["respond"]])} receive={tr["receive"]} rejected by TraceNegotiation',
                         {'kind': 'trace', 'header': text, 'abstract': tr['hdr']})
            else:
                chk.validated()
                if i % 997 == 1:
                    chk.sample({'observed_header': text, 'parsed': show(tr['parsed']), 'encoder': show([tr['enc']])})
        for j, (name, flag, _) in enumerate(corrupted, start=len(traces) + 1):
            _, want, reg = verdicts[j]
            chk.selftest(f'trace_{name}', reg[0] == want and reg[1 + flag] == 0)
        for i, pair in enumerate(pairs, start=1):
            _, model, code = matches[i]
            if model != code:
                chk.fail(f'match: pattern {show([pair["p"]])} vs {show([pair["c"]])} gave {code}, TLC says {model}',
                         {'kind': 'match', 'p': pair['p'], 'c': pair['c'], 'm': model})
            else:
                chk.validated()
        for j, (name, _) in enumerate(bad_pairs, start=len(pairs) + 1):
            chk.selftest(f'trace_{name}', matches[j][1] != matches[j][2])
        for i, (req, (ctype, accept, via_rest)) in enumerate(zip(requests, reqtexts), start=1):
            _, reply_ok, receive_ok, as_is = reqs[i]
            drift += 1 - as_is
            broken = [c for c, f in zip(('respond', 'receive'), (reply_ok, receive_ok)) if not f]
            if broken:
                chk.fail(f'{"+".join(broken)}: request Content-Type {ctype!r} Accept {accept!r}{" via rest.Apply" if via_rest else ""}: '
                         f'observed response {show([req["reply"]])} receive={req["receive"]} rejected by TraceNegotiation',
                         {'kind': 'request', 'ctype': ctype, 'accept': accept, 'expected': None, 'rest': via_rest,
                          'abstract': {'ct': req['ct'], 'accept': req['accept']}})
            else:
                chk.validated()
        for j, (name, flag, _) in enumerate(bad_requests, start=len(requests) + 1):
            chk.selftest(f'trace_{name}', reqs[j][1 + flag] == 0)
        aux_bad = 0
        for i, meta in enumerate(tabmeta, start=1):
            if not tabs[i][1]:
                aux_bad += 1
                chk.fail(f'csv round trip: table columns={meta["names"]} kinds={meta["kinds"]} rows={meta["rows"]} came back '
                         f'different ({meta["encoding"]})',
                         {'kind': 'table', 'kinds': meta['kinds'], 'rows': meta['rows'], 'names': meta['names']})
            else:
                chk.validated()
        chk.selftest('trace_roundtrip_corrupted_cell', not tabs[len(tables) + 1][1])
        chk.extra['code_to_spec'] = {'headers': len(traces), 'match_pairs': len(pairs), 'csv_roundtrips': len(tables),
                                     'requests': len(requests), 'requests_via_rest': sum(1 for r in reqtexts if r[2]),
                                     'csv_roundtrip_failures': aux_bad, 'impl_drift': drift}
        return drift

    return judge_batch


# ----------------------------------------------------------------------------------------------- main
def main(chk):
    import logging
    logging.disable(logging.INFO)
    rnd = random.Random(chk.seed)
    tmp = os.getcwd()
    real = Real()
    stats = {'drift': 0, 'headers': 0, 'pairs': 0, 'encoders': None, 'sampled': set(), 'requests': 0, 'rest': 0, 'zero_last': 0}
    acts = ['AddDefault', 'AddWeighted']
    spellings = 3 if chk.quick else 6
    workers = int(os.environ.get('VERIF_WORKERS') or 8)  # TLC workers of the exhaustive runs
    # TLC works in the background while this thread runs the real code: the two large models one after the other
    # (`workers` threads each), the small ones and the judging of the recorded observations next to them
    large = concurrent.futures.ThreadPoolExecutor(1)
    pool = concurrent.futures.ThreadPoolExecutor(2)
    full_run = large.submit(chk.tlc, 'Negotiation', cfg_neg(os.path.join(tmp, 'full2.cfg'), 2, 'KindsFull', 'OptsFull', 'QsFull'),
                            require=acts, workers=workers)
    kinds, opts, qs = ('KindsFull', 'OptsSmall', 'QsSmall') if chk.quick else ('KindsFull', 'OptsMid', 'QsSmall')
    three_run = large.submit(chk.tlc, 'Negotiation', cfg_neg(os.path.join(tmp, 'three.cfg'), 3, kinds, opts, qs, export=3),
                             require=acts, workers=workers)
    if not chk.quick:
        sim_run = large.submit(chk.tlc, 'Negotiation',
                               cfg_neg(os.path.join(tmp, 'sim5.cfg'), 5, 'KindsFull', 'OptsFull', 'QsFull', export=4),
                               simulate='num=50', depth=6, seed=chk.seed + 1, workers=4, coverage=False, timeout=900)
    glob_run = pool.submit(chk.tlc, 'Negotiation',
                           cfg_neg(os.path.join(tmp, 'glob.cfg'), 2, 'KindsGlob', 'OptsSmall', 'QsOne' if chk.quick else 'QsTwo'),
                           require=acts[:1] if chk.quick else acts, workers=2)
    req_run = pool.submit(chk.tlc, 'NegotiationRequest',
                          cfg_neg(os.path.join(tmp, 'request.cfg'), 2 if chk.quick else 3, 'KindsReq', 'OptsSmall', 'QsReq',
                                  export=2, invariants=REQ_INVARIANTS, spec='RSpec',
                                  more=' CtKinds <- CtKindsReq\n CtOpts <- CtOptsReq\n'),
                          require=['RAddDefault', 'RAddWeighted'], workers=2 if chk.quick else 4)
    # the lowest quality (q=0) next to middle / highest / default ones: all headers of <= 3 ranges
    zero_run = pool.submit(chk.tlc, 'Negotiation',
                           cfg_neg(os.path.join(tmp, 'zero.cfg'), 3, 'KindsZero' if chk.quick else 'KindsSmall',
                                   'OptsNone' if chk.quick else 'OptsSmall', 'QsZero', export=2, invariants=INVARIANTS + ' ZeroLast'),
                           require=acts, workers=2)
    swapped_run = pool.submit(chk.tlc, 'Negotiation',
                              cfg_neg(os.path.join(tmp, 'swapped.cfg'), 2, 'KindsSmall', 'OptsSmall', 'QsSmall',
                                      rule='encoder-outer', export=0), expect_ok=False, workers=2, coverage=False)
    large.shutdown(wait=False)

    # ---- 1. spec -> code: all headers of <= 2 ranges over the full constants (+ the Match table, + codec tables)
    res = full_run.result()
    exported = replay_model(chk, real, res, rnd, spellings, stats)
    pairs = stats['pairs']
    if exported != res.distinct - 1 or not pairs:
        raise tlc.MachineryError(f'Negotiation export incomplete: {exported} of {res.distinct - 1} states, {pairs} pairs')
    # ---- 2. code -> spec: the observations are recorded now, TLC judges them while the other models are replayed
    judge_batch = trace_validation(chk, real, rnd, pool)
    pool.shutdown(wait=False)
    # ---- 3. all headers of <= 2 ranges over kinds AROUND the supported ones (a character more or less at either end of
    #         a component, wildcards inside a component) + the Match table over those kinds
    res = glob_run.result()
    near = replay_model(chk, real, res, rnd, spellings, stats)
    if near != res.distinct - 1 or stats['pairs'] == pairs:
        raise tlc.MachineryError(f'Negotiation export (near kinds) incomplete: {near} of {res.distinct - 1} states')
    exported += near
    # ---- 3b. zero-weighted ranges anywhere in headers of 2-3 ranges
    res = zero_run.result()
    zeros = replay_model(chk, real, res, rnd, spellings, stats)
    if zeros < 1000 or not stats['zero_last']:
        raise tlc.MachineryError(f'Negotiation export (zero weights) incomplete: {zeros} states, {stats["zero_last"]} with q=0')
    exported += zeros
    # ---- 4. the request level: every content type x every Accept header of <= 2 (thorough: 3) ranges, served
    res = req_run.result()
    served = replay_requests(chk, real, res, rnd, stats)
    if served != res.distinct:
        raise tlc.MachineryError(f'NegotiationRequest export incomplete: {served} of {res.distinct} states')
    # ---- 5. all headers of 3 ranges over reduced constants (interplay of three ranges: ties among three, first match)
    #         (the largest model, replayed last: TLC needs the time)
    res = three_run.result()
    exported += replay_model(chk, real, res, rnd, spellings, stats)
    # ---- 6. thorough: 4-5 ranges over the full constants, behaviours drawn by TLC's simulator (the simulator evaluates
    #         the invariants - hence Export - on EVERY successor of the states it walks through: one behaviour exports
    #         2 x |Ranges| headers sharing a random prefix; num is per worker)
    if not chk.quick:
        res = sim_run.result()
        sim = replay_model(chk, real, res, rnd, spellings, stats)
        if sim < 1000:
            raise tlc.MachineryError(f'simulation exported only {sim} headers')
        chk.extra['simulated_headers_4_5_ranges'] = sim
        exported += sim
    # ---- 7. the model tells the implementation rules apart: swapped loops are refuted
    res = swapped_run.result()
    chk.selftest('model_refutes_encoder_outer_loop', res.violated == 'ImplEncoderRefines')
    # ---- 8. the python-side comparison rejects corrupted observations of the real code
    exp = {'hdr': [], 'parsed': [{'t': 'text', 's': 'csv', 'opts': []}, {'t': 'application', 's': 'json', 'opts': []}],
           'enc': [7], 'encz': [7], 'ienc': 7, 'conc': True, 'dec': [8], 'idec': 8}
    good = {'parsed': exp['parsed'], 'enc': exp['parsed'][0], 'dec': 8, 'respond': exp['parsed'][0], 'receive': 1}
    if judge(exp, good, stats['encoders'], True)[0]:
        raise tlc.MachineryError(f'self-test baseline rejected: {judge(exp, good, stats["encoders"], True)}')
    chk.selftest('replay_rejects_swapped_tie', bool(judge(exp, dict(good, parsed=good['parsed'][::-1]), stats['encoders'], True)[0]))
    chk.selftest('replay_rejects_other_encoder', bool(judge(exp, dict(good, enc=stats['encoders'][0]), stats['encoders'], True)[0]))
    chk.selftest('replay_rejects_other_decoder', bool(judge(exp, dict(good, dec=7), stats['encoders'], True)[0]))
    chk.selftest('replay_rejects_swallowed_unsupported',
                 bool(judge(dict(exp, enc=[], encz=[], ienc=0), good, stats['encoders'], True)[0]))
    lone = dict(exp, encz=[])  # `text/csv;q=0` alone: CSV (last resort) and the error (not acceptable) both pass, nothing else
    refused = dict(good, enc=UNSUP, respond=UNSUP)
    if judge(lone, good, stats['encoders'], True)[0] or judge(lone, refused, stats['encoders'], True)[0]:
        raise tlc.MachineryError('self-test baseline (lone zero-weighted range) rejected')
    chk.selftest('replay_rejects_other_encoder_for_zero_weight',
                 bool(judge(lone, dict(good, enc=stats['encoders'][0]), stats['encoders'], True)[0]))
    exp = {'judged': True, 'enc': [], 'dec': [8]}  # text/csv sent, only foo/bar accepted
    good = {'reply': UNSUP, 'receive': 1, 'status': 415}
    if judge_request(exp, good, stats['encoders'])[0]:
        raise tlc.MachineryError(f'self-test baseline rejected: {judge_request(exp, good, stats["encoders"])}')
    chk.selftest('request_rejects_own_encoding_served', bool(judge_request(exp, dict(good, reply=stats['encoders'][6]), stats['encoders'])[0]))
    chk.selftest('request_rejects_missing_415', bool(judge_request(exp, dict(good, status=200), stats['encoders'])[0]))
    chk.selftest('request_rejects_undecodable_accepted', bool(judge_request(dict(exp, dec=[]), good, stats['encoders'])[0]))

    # ---- 9. the verdicts of TLC on the observations recorded in 2
    drift = judge_batch()

    real.close()
    chk.extra['spec_to_code'] = {'headers_exported_by_tlc': exported, 'header_spellings_run': stats['headers'],
                                 'headers_over_near_kinds': near, 'headers_with_zero_weights_domain': zeros,
                                 'headers_holding_a_zero_weight': stats['zero_last'], 'requests_exported_by_tlc': served,
                                 'requests_served': stats['requests'], 'requests_via_rest_route': stats['rest'],
                                 'match_pairs': stats['pairs'], 'spellings_per_header': spellings}
    chk.extra['impl_model_drift'] = {'choices_not_predicted_by_first_in_table_rule': stats['drift'] + drift}
    chk.assume('q=0 is ordered as the lowest quality (demanded); a zero-weighted range may either serve as the last resort '
               '(property text, as-is) or count as not acceptable (RFC 7231): with no supported positive range both the '
               'encoder it names and the unsupported-encoding error are accepted')
    chk.assume('malformed q, empty ranges, quoted-string values, duplicate option keys in one range and wildcards in a '
               'Content-Type / on the concrete side of match are outside the property (excluded in the generators)')
    chk.assume('a kind is type "/" subtype; the kind of a pattern is a glob over that text in which only "*" is special')
    chk.assume('a request without an Accept header: the encoding of the response is not judged (as-is default = the '
               'encoding of the request, drift only); the gateway glue is observed as layout.Request built from the parsed '
               'headers + a pickle round trip, and through the rest.Apply route with a handler of ours'
               + ('' if real.rest() else ' (REST provider not importable here: route NOT observed)'))
    chk.assume('option values are compared verbatim (case sensitive); kinds and parameter names are case-insensitive')
    chk.assume('the supported codec set is the ENCODERS/DECODERS tables of forml.io.layout._codec (checked against the '
               'constants of Negotiation.tla on every run); decoder identity is observed through that table')
    chk.assume('among several encoders/decoders matching the decisive range any one satisfies the requirement; the '
               'first-in-table choice of the code is only tracked as drift')
    chk.assume('JSON decoders cannot read payloads with the installed pandas 3.0: Generic.receive is judged only on '
               'Unsupported vs not Unsupported; the codec round trip is run on the CSV pair only (auxiliary, lossless '
               'table domain: ints, dyadic floats, booleans, non-numeric non-empty strings, >= 1 row, distinct non-empty '
               'column names)')


def replay(chk, path):
    with open(path) as fh:
        rep = json.load(fh)['replay']
    print(json.dumps(rep, indent=1)[:3000])
    real = Real()
    if rep['kind'] == 'header':
        obs = real.header(rep['header'], full=True)
        print('observed now:', json.dumps(obs))
        bad, _ = judge(rep['expected'], obs, _model_encoders(), rep.get('full', True))
        print('failing clauses now:', bad)
        return 1 if bad else 0
    if rep['kind'] == 'match':
        got = real.match(rep['p'], rep['c'])
        print('observed now:', got, 'expected', rep['m'])
        return 1 if (got != rep['m'] if rep['m'] is not None else not isinstance(got, bool)) else 0
    if rep['kind'] == 'table':
        obs = csv_roundtrip(real, rep['kinds'], rep['rows'], rep.get('names'))
        print('observed now:', obs)
        return 1 if obs['src'] != obs['out'] else 0
    if rep['kind'] == 'request':
        obs = real.rest().exchange(rep['ctype'], rep['accept']) if rep.get('rest') and real.rest() else \
            real.exchange(rep['ctype'], rep['accept'])
        print('observed now:', json.dumps({k: v for k, v in obs.items()}))
        if rep.get('expected'):
            bad, _ = judge_request(rep['expected'], obs, _model_encoders())
            print('failing clauses now:', bad)
            return 1 if bad else 0
        status = obs.pop('status', None)
        if rep.get('rest') and http_ok(status) == (obs['receive'] == 0 or obs['reply'] == UNSUP):
            print('the HTTP status does not tell what the application did')
            return 1
        csv = {'t': 'text', 's': 'csv', 'opts': []}  # (TraceNegotiation wants at least one header trace: a dummy)
        dummy = {'hdr': [dict(csv, q=NOQ)], 'parsed': [csv], 'enc': csv, 'dec': NOT_OBSERVED,
                 'respond': {'t': '-', 's': '', 'opts': []}, 'receive': NOT_OBSERVED}
        path = common.write_json({'traces': [dummy], 'matches': [], 'tables': [],
                                  'requests': [dict(obs, ct=rep['abstract']['ct'], accept=rep['abstract']['accept'])]},
                                 'c19-replay.json')
        res = tlc.run('TraceNegotiation', 'TraceNegotiation.cfg', workers=1, env={'TRACE_FILE': path}, coverage=False)
        verdict = res.tuples('REQUEST')[0]
        print('verdict of TraceNegotiation (index, response ok, receive ok, as-is default):', verdict)
        return 1 if 0 in verdict[1:3] else 0
    if rep['kind'] == 'trace':
        obs = real.header(rep['header'], full=True)
        obs.pop('error', None)
        path = common.write_json({'traces': [dict(obs, hdr=rep['abstract'])], 'matches': [], 'tables': [], 'requests': []},
                                 'c19-replay.json')
        res = tlc.run('TraceNegotiation', 'TraceNegotiation.cfg', workers=1, env={'TRACE_FILE': path}, coverage=False)
        verdict = res.tuples('VERDICT')[0]
        print('observed now:', json.dumps(obs), 'verdict', verdict)
        return 1 if 0 in verdict[2][1:6] or verdict[2][0] != verdict[1] else 0
    return 1


def _model_encoders():
    """Encoders of Negotiation.tla (order of the model)."""
    fmts = ['pandas-records', 'pandas-columns', 'pandas-index', 'pandas-split', 'pandas-table', 'pandas-values']
    return [{'t': 'application', 's': 'json', 'opts': [['format', f]]} for f in fmts] + [{'t': 'text', 's': 'csv', 'opts': []}]
