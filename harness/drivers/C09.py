"""C09 - a feed is selected exactly when it can resolve the statement.

model:        specs/Importer.tla (requirement: pool of feeds with priorities and advertised subsets of the statement's
              catalog; Register / Match / Missing / Parse; Covers == CutCovers <=> Resolvable, one invariant per clause),
              specs/ImporterImpl.tla (as-is: Importer.Matcher with its flag, stable descending slot order, the parser's
              `bypass` that visits the children before it consults the mapping, no bypass on references); TLC checks the
              requirement clauses on the as-is behaviours and characterises the divergence (ParserDivergenceIsClass)
spec -> code: every (statement, advertised subset) pair of the family and every abstract pool exported by TLC is built
              for real (io.Feed subclasses with the real alchemy Reader / parser, lazy descriptors from a config.toml for
              the prioritised slots, explicit instances for the infinite priority), io.Importer(*pool).match(stmt) and
              every feed's parser are run and compared with TLC's verdicts (best / cov)
code -> spec: seeded random pools over random (deeper) statements, recorded and validated by specs/TraceImporter.tla

Generator exclusions (the property is silent on them; they belong to other properties):
  * predicates combining two origins with and / or, where / having predicates over two origins, bare boolean columns
    used as predicates, negated null tests: they crash the parser whatever is advertised (Factors.merge / push-down /
    python `not` on a sqlalchemy clause, C06 / C14);
  * no two catalog entries of one statement differ only in literal values (Equal.__bool__ compares hashes, C08), and
    the near-miss sources differ structurally (join kind, reference name, table, set kind, row limit) - asserted here.
"""
import json
import os
import random
import threading

from harness import common, dslgen as g, tlc

FINDING = 'parser-descends-below-advertised-source'
TOP = 4  # abstract priority standing for an explicitly passed instance (infinite priority)
PRIORITY = {1: -5.0, 2: 0.0, 3: 1000.0}  # abstract -> configured priority (strictly monotone; 0 = the default priority, a falsy value)
SLOTS = (1, 2, 3)
ALIAS = 'c09pool'


# ------------------------------------------------------------------------------------------------ abstract side
def skeleton(s):
    """Source structure of a statement without its features (what matching can depend on)."""
    t = s['t']
    if t == 'table':
        return s['name']
    if t == 'ref':
        return f"ref({skeleton(s['l'])},{s['name']})"
    if t in ('join', 'set'):
        return f"{t}[{s['kind']}]({skeleton(s['l'])},{skeleton(s['r'])})"
    return f"q({skeleton(s['l'])})"


def subsources(stmt):
    """[(path, node)] of the distinct sub-sources of a statement (children before parents, first occurrence);
    a path is a list of 'l' / 'r' steps.  The TLA+ side re-derives the catalog (SourcesOf) and compares."""
    out, seen = [], set()

    def visit(node, path):
        if node['t'] == 'nil':
            return
        if node['t'] != 'table':
            visit(node['l'], path + ['l'])
            if node['t'] in ('join', 'set'):
                visit(node['r'], path + ['r'])
        key = g.canon(node)
        if key not in seen:
            seen.add(key)
            out.append((path, node))

    visit(stmt, [])
    return out


def _origins(feature):
    """Origins of the columns a feature is made of (the features inside those origins do not count)."""
    if feature['f'] == 'col':
        return {g.canon(feature['src'])}
    out = set()
    for arg in feature['args']:
        out |= _origins(arg)
    return out


def _features(stmt):
    """(clause, feature) for every clause feature of every query / join of a statement, at any nesting level."""
    for _, node in g.walk(stmt):
        if g.is_source(node) and node['t'] in ('query', 'join'):
            for clause in ('where', 'having', 'on'):
                if node[clause]['f'] != 'nil':
                    yield clause, node[clause]
            for clause in ('sel', 'group'):
                for feature in node[clause]:
                    yield clause, feature
            for term in node['order']:
                yield 'order', term['x']


def _subfeatures(feature):
    yield feature
    for arg in feature['args']:
        yield from _subfeatures(arg)


def silent(stmt):
    """Reason why the property is silent on a statement (None = the statement belongs to the family): the parser fails
    on it for reasons unrelated to what is advertised (other properties own these defects).  Decided on the abstract
    statement only."""
    for clause, feature in _features(stmt):
        if clause in ('where', 'having', 'on') and feature['f'] in ('col', 'alias', 'lit'):
            return 'bare boolean column as predicate'  # Element has no .factors (push-down, C14)
        if clause in ('where', 'having') and len(_origins(feature)) > 1:
            return 'where/having predicate over two origins'  # push-down generates it before both origins exist (C14)
        for sub in _subfeatures(feature):
            if sub['f'] == 'op' and sub['op'] in ('and', 'or') and len(_origins(sub)) > 1:
                return 'logical combination over two origins'  # Factors.merge (C06 / C14)
            if sub['f'] == 'op' and sub['op'] == 'not' and sub['args'][0]['f'] == 'op' and \
                    sub['args'][0]['op'] in g.NULLTEST:
                return 'negated null test'  # the alchemy parser negates with python `not` (C06)
    return None


def _literal_blind(node):
    if isinstance(node, dict):
        if node.get('f') == 'lit':
            return {'f': 'lit'}
        return {k: _literal_blind(v) for k, v in node.items()}
    if isinstance(node, list):
        return [_literal_blind(v) for v in node]
    return node


def near_misses(stmt, subs):
    """Sources that are NOT part of the statement but one structural step away from one of its sub-sources
    (at most one per sort): other join kind, other reference name, twin table, other set kind, other row limit."""
    have = {g.canon(n) for _, n in subs}
    out, sorts = [], set()
    for _, node in reversed(subs):
        t = node['t']
        if t in sorts:
            continue
        cand = None
        if t == 'join' and node['kind'] in ('inner', 'left', 'right', 'full'):
            cand = dict(node, kind={'inner': 'left', 'left': 'inner', 'right': 'full', 'full': 'right'}[node['kind']])
        elif t == 'ref':
            cand = g.ref(node['l'], node['name'] + '_')
        elif t == 'table':
            twins = [o for o in g.TABLES.values() if o['name'] != node['name'] and o['cols'] == node['cols']]
            cand = twins[0] if twins else None
        elif t == 'set':
            cand = dict(node, kind=g.SETS[(g.SETS.index(node['kind']) + 1) % 3])
        elif t == 'query':
            cand = dict(node, rows=[node['rows'][0] + 1, node['rows'][1]] if node['rows'] else [7, 0])
        if cand is not None and g.canon(cand) not in have:
            sorts.add(t)
            out.append(cand)
    return out


def entry(stmt):
    """One statement of the TLC input: ast, catalog paths, near-misses (+ the generator-side guarantees)."""
    subs = subsources(stmt)
    extras = near_misses(stmt, subs)
    blind = [g.canon(_literal_blind(n)) for _, n in subs] + [g.canon(_literal_blind(n)) for n in extras]
    if len(set(blind)) != len(blind):
        raise tlc.MachineryError('generator: two catalog entries differ only in literal values')
    index = {g.canon(n): i + 1 for i, (_, n) in enumerate(subs)}
    kids = {'table': (), 'ref': ('l',), 'query': ('l',), 'join': ('l', 'r'), 'set': ('l', 'r')}
    tree = [{'t': n['t'], 'kids': [index[g.canon(n[k])] for k in kids[n['t']]]} for _, n in subs]
    return {'ast': stmt, 'subs': [p for p, _ in subs], 'tree': tree, 'root': index[g.canon(stmt)], 'extras': extras,
            'obs': []}


def family(chk, rnd):
    """Statements of nesting depth <= 2 from the shared generator: every source skeleton, a few clause variants each."""
    pool = [s for s in g.statements(2, rich=not chk.quick) if silent(s) is None]
    groups = {}
    for s in pool:
        groups.setdefault(skeleton(s), []).append(s)
    per = 2 if chk.quick else 3
    out = []
    for key in sorted(groups):
        grp = groups[key]
        picks = [grp[0], grp[-1]] + [rnd.choice(grp) for _ in range(max(0, per - 2))]
        seen = set()
        for s in picks[:per]:
            if g.canon(s) not in seen:
                seen.add(g.canon(s))
                out.append(s)
    # nesting depth 3 (joins of joins of joins, references of statements over joins...) from the seeded random generator
    count, max_cat = (4, 7) if chk.quick else (30, 9)
    tries = 0
    while count and tries < 4000:
        tries += 1
        stmt = g.random_statement(rnd, 3)
        key = skeleton(stmt)
        if key in groups or silent(stmt) is not None or len(g.canon(stmt)) > 60000:
            continue
        if not 5 <= len(subsources(stmt)) <= max_cat:
            continue
        groups[key] = [stmt]
        out.append(stmt)
        count -= 1
    return out, len(groups)


def representatives(stmts, cap):
    """One statement per source skeleton (smallest catalogs first) for the pool-level runs."""
    by = {}
    for i, s in enumerate(stmts):
        by.setdefault(skeleton(s), i)
    idx = sorted(by.values(), key=lambda i: (len(subsources(stmts[i])), i))
    step = max(1, len(idx) // cap)
    return sorted(idx[::step][:cap])


def write_cfg(path, module_spec, consts, invariants, properties=(), view=None, extra=()):
    lines = [f'SPECIFICATION {module_spec}', 'CONSTANTS']
    lines += [f' {k} = {v}' for k, v in consts.items()]
    lines += [f'INVARIANT {i}' for i in invariants]
    lines += [f'PROPERTY {p}' for p in properties]
    if view:
        lines.append(f'VIEW {view}')
    lines += list(extra) + ['CHECK_DEADLOCK FALSE']
    with open(path, 'w') as fh:
        fh.write('\n'.join(lines) + '\n')
    return path


REQ_INVARIANTS = ['InputsOK', 'SelectedCovers', 'HighestPriority', 'MissingOnlyIfNone', 'Decides', 'SelectedParses',
                  'PassedOverCannotParse', 'CoversIffResolvable', 'CoversIsCut', 'ReadsAdvertisedCut', 'Monotone']


def consts(max_feeds, prios, choice, extras, export):
    return {'MaxFeeds': max_feeds, 'Prios': '{' + ', '.join(map(str, prios)) + '}', 'Choice': f'"{choice}"',
            'Extras': 'TRUE' if extras else 'FALSE', 'ExportOn': 'TRUE' if export else 'FALSE'}


# ------------------------------------------------------------------------------------------------ real side
class Real:
    """The real objects: one statement at a time, feeds advertising exactly an abstract set of its catalog."""

    def __init__(self):
        # the prioritised slots are lazy descriptors of a config file in $FORML_HOME (the sandbox cwd): written before
        # forml.setup is imported, read explicitly if forml was imported earlier
        home = os.environ.get('FORML_HOME') or os.getcwd()
        path = os.path.join(home, 'config.toml')
        with open(path, 'w') as fh:
            for slot in SLOTS:
                for prio, value in PRIORITY.items():
                    fh.write(f'[FEED.s{slot}p{prio}]\nprovider = "{ALIAS}"\npriority = {value}\nslot = {slot}\n')
        import pathlib

        import sqlalchemy

        import forml
        from forml import io, setup
        from forml.io import dsl
        from forml.provider.feed.reader import alchemy
        if 's1p1' not in setup.CONFIG.get('FEED', {}):  # forml.setup was imported before the file existed
            setup.CONFIG.read(pathlib.Path(path))
        self.forml, self.io, self.setup, self.dsl, self.sql = forml, io, setup, dsl, sqlalchemy
        current = self.current = {}
        try:
            self.feed = io.Feed[ALIAS]
        except forml.MissingError:

            class PoolFeed(io.Feed, alias=ALIAS):
                """Feed advertising whatever the driver put into its slot (sources are read on every access)."""
                Reader = alchemy.Reader

                def __init__(self, slot):
                    super().__init__()
                    self.slot = int(slot)

                @property
                def sources(self):
                    return PoolFeed.CURRENT[self.slot]

            PoolFeed.CURRENT = current
            self.feed = PoolFeed
        self.current = self.feed.CURRENT
        self.key = None

    def load(self, ent):
        """Build the statement and - with an independent builder, as a feed author would - every catalog entry."""
        self.key = g.canon(ent['ast'])
        self.stmt = g.Builder().source(ent['ast'])
        if g.canon(g.project(self.stmt)) != self.key:
            raise tlc.MachineryError('projection of the built statement differs from its abstract term')
        other = g.Builder()
        self.cat = [other.source(g.get(ent['ast'], path)) for path in ent['subs']]
        self.extras = [other.source(x) for x in ent['extras']]
        # natives of the kind a feed author has to supply for the position: a selectable statement for (sub-)queries and
        # sets (set operands / referenced statements), a table for tables, references and joins
        self.native = [self._native(g.get(ent['ast'], path), f'n{i + 1}') for i, path in enumerate(ent['subs'])]
        self.xnative = [self._native(x, f'x{i + 1}') for i, x in enumerate(ent['extras'])]

    def decoy(self):
        if not hasattr(self, '_decoy'):
            dsl = self.dsl

            class Zzdecoy(dsl.Schema):
                zz = dsl.Field(dsl.Integer())

            self._decoy = Zzdecoy.select(Zzdecoy.zz)
        return self._decoy

    def _native(self, node, name):
        if node['t'] in ('query', 'set'):
            return self.sql.select(self.sql.column('c')).select_from(self.sql.table(name))
        return self.sql.table(name)

    def observe(self, pool):
        """pool = [{'p': abstract priority, 'a': [catalog indices], 'x': near-misses advertised}] in the order the
        feeds are passed to io.Importer.  Returns {'sel', 'parse', 'why'}: sel = 1-based position of the returned feed,
        0 = forml.MissingError, -1 = anything else; parse[j] = 'ok' | 'UnprovisionedError' | 'other:<class>'."""
        args = []
        for j, feed in enumerate(pool, start=1):
            mapping = {self.cat[i - 1]: self.native[i - 1] for i in feed['a']}
            if feed['x']:
                mapping.update(zip(self.extras, self.xnative))
            self.current[j] = mapping
            args.append(self.feed(slot=j) if feed['p'] == TOP else self.setup.Feed(f's{j}p{feed["p"]}'))
        why = None
        importer = self.io.Importer(*args)
        self.calls = getattr(self, 'calls', 0) + 1
        if self.calls % 2:
            # the same importer serves many statements: first ask it for a statement nobody provides (a table outside
            # every catalog); the answer for the real statement must not depend on that earlier miss
            try:
                importer.match(self.decoy())
            except self.forml.MissingError:
                pass
        try:
            got = importer.match(self.stmt)
            sel = got.slot if isinstance(got, self.feed) and 1 <= got.slot <= len(pool) else -1
        except self.forml.MissingError:
            sel = 0
        except Exception as exc:  # pylint: disable=broad-except
            sel, why = -1, f'{type(exc).__name__}: {exc}'[:200]
        instances = {f.slot: f for f in importer}
        parse = []
        for j in range(1, len(pool) + 1):
            feed = instances[j]
            try:
                with feed.Reader.parser(feed.sources, feed.features) as visitor:
                    self.stmt.accept(visitor)
                    visitor.fetch()
                parse.append('ok')
            except self.dsl.UnprovisionedError:
                parse.append('UnprovisionedError')
            except Exception as exc:  # pylint: disable=broad-except
                parse.append(f'other:{type(exc).__name__}')
                why = why or f'{type(exc).__name__}: {exc}'[:200]
        return {'sel': sel, 'parse': parse, 'why': why}


def judge(chk, ent, exp, obs, stats, impl=None):
    """Compare one observation with TLC's requirement verdicts (exp: best / cov / cls per feed)."""
    pool = exp['pool']
    replay = {'kind': 'pool', 'ast': ent['ast'], 'subs': ent['subs'], 'extras': ent['extras'], 'pool': pool}
    name = skeleton(ent['ast'])
    good = True
    best = exp['best']
    if (obs['sel'] not in best) if best else (obs['sel'] != 0):
        good = False
        said = {0: 'raised MissingError', -1: f'failed ({obs["why"]})'}.get(obs['sel'], f'returned feed #{obs["sel"]}')
        want = f'feed #{"/#".join(map(str, best))}' if best else 'MissingError (no feed covers the statement)'
        chk.fail(f'Importer.match on {name} with pool {show_pool(pool)} {said}; required: {want}', replay)
    for j, (out, cov, cls) in enumerate(zip(obs['parse'], exp['cov'], exp['cls']), start=1):
        want = 'ok' if cov else 'UnprovisionedError'
        if out == want:
            continue
        good = False
        what = (f'parser of feed #{j} advertising {show_adv(ent, pool[j - 1])} on {name}: {out}'
                + (f' ({obs["why"]})' if out.startswith('other') else '') + f'; required: {want}')
        # triage by the input class computed by TLC on the abstract input (ThroughNonLeafOnly), never by the outcome alone
        chk.fail(what, replay, finding=FINDING if cov and cls and out == 'UnprovisionedError' else None)
    if impl is not None:
        if (obs['sel'] not in impl['isel']) if impl['isel'] else (obs['sel'] != 0):
            stats['drift_selection'] += 1
        stats['drift_parser'] += sum(1 for out, ip in zip(obs['parse'], impl['ip']) if (out == 'ok') != ip)
    if good:
        chk.validated()
    return good


def judge_selftest(chk):
    """Binding self-test of the spec -> code comparison: hand-written observations that contradict hand-written
    verdicts must be reported (and the conforming one must not)."""

    class Collector:
        def __init__(self):
            self.failures, self.ok = [], 0

        def fail(self, what, replay, finding=None):
            self.failures.append(finding)

        def validated(self, n=1):
            self.ok += n

    ent = entry(SYNTHETIC)
    exp = {'pool': [{'p': 1, 'a': [1, 2], 'x': False}, {'p': 3, 'a': [3], 'x': False}], 'best': [2],
           'cov': [True, True], 'cls': [False, True]}
    import collections
    cases = {'conforming': ({'sel': 2, 'parse': ['ok', 'ok'], 'why': None}, []),
             'lower_priority_feed_returned': ({'sel': 1, 'parse': ['ok', 'ok'], 'why': None}, [None]),
             'missing_error_although_covered': ({'sel': 0, 'parse': ['ok', 'ok'], 'why': None}, [None]),
             'covering_feed_unprovisioned_outside_class': ({'sel': 2, 'parse': ['UnprovisionedError', 'ok'], 'why': None},
                                                           [None]),
             'covering_feed_unprovisioned_inside_class': ({'sel': 2, 'parse': ['ok', 'UnprovisionedError'], 'why': None},
                                                          [FINDING])}
    for name, (obs, want) in cases.items():
        col = Collector()
        judge(col, ent, exp, obs, collections.Counter())
        if name == 'conforming':
            if col.failures or col.ok != 1:
                raise tlc.MachineryError('judge rejects a conforming hand-written observation')
        else:
            chk.selftest(f'judge_{name}', col.failures == want and col.ok == 0)


def show_adv(ent, feed):
    names = [skeleton(g.get(ent['ast'], ent['subs'][i - 1])) for i in feed['a']]
    return '{' + ', '.join(names) + ('' if not feed['x'] else ', +near-misses') + '}'


def show_pool(pool):
    return '[' + ', '.join(f'(prio {"inf" if f["p"] == TOP else PRIORITY[f["p"]]}, adv {f["a"]}{"+x" if f["x"] else ""})'
                           for f in pool) + ']'


# ------------------------------------------------------------------------------------------------ TLC runs
IMPL_INVARIANTS = ['SelectedCovers', 'HighestPriority', 'MissingOnlyIfNone', 'PassedOverCannotParse', 'MatcherIsCovers',
                   'ParserNeverOverResolves', 'ParserDivergenceIsClass']
REQ_ACTIONS = ['RegisterAny', 'MatchAny', 'Missing', 'ParseNext']
IMPL_ACTIONS = ['RegisterAny', 'IMatchAny', 'IMissing', 'IParseNext']


def pool_key(rec):
    return (rec['s'], tuple((f['p'], tuple(sorted(f['a'])), bool(f['x'])) for f in rec['pool']))


def normalise(rec):
    """ToJson prints sets as arrays and functions over 1..n as arrays: sort the sets."""
    for f in rec['pool']:
        f['a'] = sorted(f['a'])
    for k in ('best', 'isel'):
        if k in rec:
            rec[k] = sorted(rec[k])
    return rec


def pair_expectations(chk, tmp, path, tag):
    """Requirement, every (statement, advertised subset) pair: one feed, all subsets (+ near-misses on small sets)."""
    cfg = write_cfg(os.path.join(tmp, f'pair-{tag}.cfg'), 'Spec', consts(1, [TOP], 'all', True, True),
                    REQ_INVARIANTS + ['Export'])
    res = chk.tlc('Importer', cfg, require=REQ_ACTIONS, workers=8, env={'C09_INPUT': path})
    expected = [normalise(r) for r in res.json_prints() if isinstance(r, dict) and 'best' in r]
    if not expected:
        raise tlc.MachineryError('Importer.tla exported no (statement, advertised set) pair')
    return expected


def impl_and_pool_runs(chk, tmp, path, reps_path, tag, max_feeds):
    """The remaining TLC runs of a tier (they run while the pairs are replayed on the real code).
    Returns (pair-level predictions of the as-is model, pool-level records)."""
    env = {'C09_INPUT': path}
    # as-is model on the same pairs: requirement clauses on its behaviours, divergence == triage class
    cfg = write_cfg(os.path.join(tmp, f'impl-{tag}.cfg'), 'ImplSpec', consts(1, [TOP], 'all', True, True),
                    IMPL_INVARIANTS + ['ImplExport'], properties=['AnswerRefines'])
    res = chk.tlc('ImporterImpl', cfg, require=IMPL_ACTIONS, workers=4, env=env)
    predicted = {pool_key(r): r for r in map(normalise, (r for r in res.json_prints() if isinstance(r, dict) and 'ip' in r))}
    # the as-is parser model is refuted by the clause "the selected feed's parser resolves the statement"
    cfg = write_cfg(os.path.join(tmp, f'refute-{tag}.cfg'), 'ImplSpec', consts(1, [TOP], 'all', False, False),
                    ['SelectedParses'])
    res = chk.tlc('ImporterImpl', cfg, expect_ok=False, workers=2, env={'C09_INPUT': reps_path})
    chk.selftest('model_refutes_children_first_bypass', res.violated == 'SelectedParses')
    # pools: priorities 1..3 (lazy descriptors) and TOP (explicit instance), one witness per abstract pool
    penv = {'C09_INPUT': reps_path}
    prios = [1, 2, 3, TOP]
    cfg = write_cfg(os.path.join(tmp, f'pool-{tag}.cfg'), 'Spec', consts(max_feeds, prios, 'menu', False, False),
                    REQ_INVARIANTS, view='View')
    chk.tlc('Importer', cfg, require=REQ_ACTIONS, workers=4, env=penv)
    cfg = write_cfg(os.path.join(tmp, f'implpool-{tag}.cfg'), 'ImplSpec', consts(max_feeds, prios, 'menu', False, True),
                    IMPL_INVARIANTS + ['FullExport'], properties=['AnswerRefines'], view='View')
    res = chk.tlc('ImporterImpl', cfg, require=IMPL_ACTIONS, workers=4, env=penv)
    pools = [normalise(r) for r in res.json_prints() if isinstance(r, dict) and 'best' in r and 'ip' in r]
    if not predicted or not pools:
        raise tlc.MachineryError(f'exports: {len(predicted)} predictions, {len(pools)} pools')
    return predicted, pools


def replay_exports(chk, real, ents, records, stats, label, observed=None):
    """spec -> code: build every exported pool for real and compare with TLC's verdicts.  Pool-level records carry the
    predictions of the as-is model themselves; pair-level observations are kept (observed) for the drift count."""
    records.sort(key=lambda r: r['s'])
    current = None
    for n, rec in enumerate(records):
        if rec['s'] != current:
            current = rec['s']
            real.load(ents[current - 1])
        obs = real.observe(rec['pool'])
        if observed is not None:
            observed[pool_key(rec)] = obs
        good = judge(chk, ents[current - 1], rec, obs, stats, rec if 'ip' in rec else None)
        stats[label] += 1
        if good and n % 997 == 0:
            chk.sample({'statement': skeleton(ents[current - 1]['ast']), 'pool': show_pool(rec['pool']),
                        'advertised': [show_adv(ents[current - 1], f) for f in rec['pool']],
                        'expected_best': rec['best'], 'observed_selection': obs['sel'], 'observed_parsers': obs['parse']})


# ------------------------------------------------------------------------------------------------ code -> spec
def random_adv(rnd, ent):
    n = len(ent['subs'])
    tables = [i + 1 for i, node in enumerate(ent['tree']) if node['t'] == 'table']
    inner = [i + 1 for i, node in enumerate(ent['tree']) if node['t'] != 'table']
    roll = rnd.random()
    if roll < 0.3:
        adv = [i for i in range(1, n + 1) if rnd.random() < 0.5]
    elif roll < 0.5:
        adv = list(tables)
    elif roll < 0.65:
        adv = [t for t in tables if t != rnd.choice(tables)]
    elif roll < 0.85:
        adv = [rnd.choice(inner)] + [t for t in tables if rnd.random() < 0.3]
    else:
        adv = []
    return {'p': rnd.choice([1, 2, 3, TOP]), 'a': sorted(set(adv)), 'x': bool(ent['extras']) and rnd.random() < 0.25}


def random_observations(chk, rnd, real, stats):
    """Random deeper statements x random pools of 1..3 feeds, observed on the real code."""
    n_stmts, n_pools = (60, 12) if chk.quick else (300, 20)
    ents, seen, tries = [], set(), 0
    while len(ents) < n_stmts and tries < 50 * n_stmts:
        tries += 1
        stmt = g.random_statement(rnd, 3)
        key = g.canon(stmt)
        if key in seen or len(key) > 60000:
            continue
        if silent(stmt) is not None:  # see the module docstring: unrelated parser crashes (C06 / C14)
            stats['random_statements_excluded'] += 1
            continue
        ent = entry(stmt)
        if len(ent['subs']) <= 2 and rnd.random() < 0.7:
            continue
        seen.add(key)
        ents.append(ent)
    oid = 0
    for ent in ents:
        real.load(ent)
        for _ in range(n_pools):
            pool = [random_adv(rnd, ent) for _ in range(rnd.randint(1, 3))]
            obs = real.observe(pool)
            oid += 1
            ent['obs'].append({'id': oid, 'pool': pool, 'sel': obs['sel'],
                               'parse': [o.split(':')[0] for o in obs['parse']], 'why': obs['why'] or ''})
    return ents, oid


A, B = g.TABLES['A'], g.TABLES['B']
SYNTHETIC = g.query(g.join(A, B, 'inner', g.op('eq', g.col(A, 'i'), g.col(B, 'i'))), [g.col(A, 'i'), g.col(B, 's')])


def synthetic_entry(first_id):
    """Hand-written observations (never taken from the real code) over q(A join B): catalog 1 = A, 2 = B, 3 = join,
    4 = query.  One conforming record and three corrupted ones that TraceImporter has to reject."""
    ent = entry(SYNTHETIC)
    low, high = {'p': 1, 'a': [1, 2], 'x': False}, {'p': 3, 'a': [1, 2], 'x': False}
    partial = {'p': TOP, 'a': [1], 'x': False}
    records = [
        ('conforming', [low, high, partial], 2, ['ok', 'ok', 'UnprovisionedError']),
        ('priorities_reversed_in_record', [high, low, partial], 2, ['ok', 'ok', 'UnprovisionedError']),
        ('missing_error_although_covered', [low, high, partial], 0, ['ok', 'ok', 'UnprovisionedError']),
        ('uncovering_feed_parsed', [low, high, partial], 2, ['ok', 'ok', 'ok']),
        ('covering_feed_unprovisioned', [low, high, partial], 2, ['UnprovisionedError', 'ok', 'UnprovisionedError']),
    ]
    names = {}
    for k, (name, pool, sel, parse) in enumerate(records):
        ent['obs'].append({'id': first_id + k, 'pool': pool, 'sel': sel, 'parse': parse, 'why': ''})
        names[first_id + k] = name
    return ent, names


def validate_observations(chk, tmp, ents, nobs, stats):
    synth, names = synthetic_entry(nobs + 1)
    # the batch TLC reads carries the recorded fields only (no free-text diagnostics)
    slim = [dict(e, obs=[{k: o[k] for k in ('id', 'pool', 'sel', 'parse')} for o in e['obs']]) for e in ents + [synth]]
    batch = {'stmts': slim, 'nobs': nobs + len(names)}
    path = common.write_json(batch, 'c09-trace.json')
    cfg = write_cfg(os.path.join(tmp, 'trace.cfg'), 'TSpec', consts(3, [1, 2, 3, TOP], 'all', True, False),
                    ['TraceInputsOK', 'TraceSelectedCovers'], extra=['CONSTRAINT Track', 'POSTCONDITION Post'])
    res = chk.tlc('TraceImporter', cfg, workers=1, env={'C09_INPUT': path}, coverage=True,
                  require=['TRegister', 'TAnswer', 'TParse'])
    verdicts = {v[0]: v for v in res.tuples('VERDICT')}
    if len(verdicts) != batch['nobs']:
        raise tlc.MachineryError(f'expected {batch["nobs"]} verdicts, got {len(verdicts)}')

    def accepted(oid, events):
        return verdicts[oid][1] == events and not verdicts[oid][2]

    for oid, name in names.items():
        if name == 'conforming':
            if not accepted(oid, 7):
                raise tlc.MachineryError('TraceImporter rejects the hand-written conforming observation')
        else:
            chk.selftest(name, not accepted(oid, 7))
    chk.selftest('uncovering_feed_parsed_is_outside_the_known_class',
                 verdicts[nobs + 4][2] == [[3, 0]] and verdicts[nobs + 5][2] == [[1, 0]])
    for ent in ents:
        for obs in ent['obs']:
            _, matched, bad = verdicts[obs['id']]
            events = 2 * len(obs['pool']) + 1
            replay = {'kind': 'pool', 'ast': ent['ast'], 'subs': ent['subs'], 'extras': ent['extras'], 'pool': obs['pool']}
            name = skeleton(ent['ast'])
            if matched < events:  # the answer event was refused (register events cannot be)
                said = {0: 'raised MissingError', -1: f'failed ({obs["why"]})'}.get(obs['sel'], f'returned feed #{obs["sel"]}')
                chk.fail(f'Importer.match on {name} with pool {show_pool(obs["pool"])} {said}, which the requirement does '
                         f'not allow (refused by TraceImporter at event {matched + 1})', replay)
            for j, known in bad:
                out = obs['parse'][j - 1]
                chk.fail(f'parser of feed #{j} advertising {show_adv(ent, obs["pool"][j - 1])} on {name}: {out}'
                         + (f' ({obs["why"]})' if out == 'other' else '') + ', which the requirement does not allow',
                         replay, finding=FINDING if known == 1 and out == 'UnprovisionedError' else None)
            if matched == events and not bad:
                chk.validated()
            stats['random_pools'] += 1
            if matched == events and not bad and obs['id'] % 199 == 0:
                chk.sample({'random_statement': name, 'pool': show_pool(obs['pool']), 'selection': obs['sel'],
                            'parsers': obs['parse']})


# ------------------------------------------------------------------------------------------------ entry points
def main(chk):
    import collections
    import logging
    import warnings
    logging.disable(logging.INFO)
    warnings.simplefilter('ignore')
    rnd = random.Random(chk.seed)
    tmp = os.getcwd()
    stats = collections.Counter()
    real = Real()  # writes config.toml before forml is imported
    judge_selftest(chk)

    stmts, skeletons = family(chk, rnd)
    ents = [entry(s) for s in stmts]
    path = common.write_json({'stmts': ents, 'nobs': 0}, 'c09-pairs.json')
    reps = representatives(stmts, 20 if chk.quick else 12)
    rep_ents = [ents[i] for i in reps]
    reps_path = common.write_json({'stmts': rep_ents, 'nobs': 0}, 'c09-reps.json')
    expected = pair_expectations(chk, tmp, path, chk.tier)
    # the other TLC runs proceed in the background while the pairs are replayed on the real code
    box = {}

    def background():
        try:
            box['res'] = impl_and_pool_runs(chk, tmp, path, reps_path, chk.tier, 2 if chk.quick else 3)
        except BaseException as exc:  # pylint: disable=broad-except
            box['exc'] = exc

    thread = threading.Thread(target=background)
    thread.start()
    observed = {}
    try:
        replay_exports(chk, real, ents, expected, stats, 'pairs', observed)
    finally:
        thread.join()
    if 'exc' in box:
        raise box['exc']
    predicted, pools = box['res']
    if set(predicted) != set(observed):
        raise tlc.MachineryError('Importer.tla and ImporterImpl.tla exported different (statement, advertised set) pairs')
    for key, obs in observed.items():
        impl = predicted[key]
        if (obs['sel'] not in impl['isel']) if impl['isel'] else (obs['sel'] != 0):
            stats['drift_selection'] += 1
        stats['drift_parser'] += sum(1 for out, ip in zip(obs['parse'], impl['ip']) if (out == 'ok') != ip)
    replay_exports(chk, real, rep_ents, pools, stats, 'pools')
    random_ents, nobs = random_observations(chk, rnd, real, stats)
    validate_observations(chk, tmp, random_ents, nobs, stats)

    in_class = sum(1 for r in expected if r['cls'][0])
    chk.extra['family'] = {'statements': len(stmts), 'source_skeletons': skeletons, 'depth': '<= 2 exhaustively over the generator + seeded depth-3 statements',
                           'statement_advertised_pairs': stats['pairs'], 'pairs_in_known_class': in_class,
                           'pool_level_statements': len(rep_ents), 'abstract_pools_replayed': stats['pools'],
                           'max_pool': 2 if chk.quick else 3, 'random_statements': len(random_ents),
                           'random_pools_validated_by_TraceImporter': stats['random_pools'],
                           'random_statements_excluded_as_silent': stats['random_statements_excluded']}
    chk.extra['impl_model_drift'] = {'selection_not_predicted_by_ImporterImpl': stats['drift_selection'],
                                     'parser_outcomes_not_predicted_by_ImporterImpl': stats['drift_parser']}
    chk.assume('a feed advertises a source by holding an equal DSL object (built independently of the statement) as a '
               'key of its sources mapping; natives are sqlalchemy tables for tables / references / joins and selects '
               'for (sub-)queries and sets, i.e. of the kind the alchemy parser needs at that position')
    chk.assume('equal priorities: the requirement allows any of the tied covering feeds (the implementation keeps the '
               'order in which they were passed - measured as drift only)')
    chk.assume('abstract priorities 1..3 are the configured priorities -5, 0, 1000 of lazy descriptors in '
               '$FORML_HOME/config.toml; 4 is an explicitly passed instance (documented infinite priority)')
    chk.assume('statements with predicates over two origins combined by and/or, where/having over two origins or bare '
               'boolean columns as predicates are not generated: the parser crashes on them whatever is advertised '
               '(C06 / C14); catalog entries never differ in literal values only (C08)')


def replay(chk, path):
    import logging
    import warnings
    logging.disable(logging.INFO)
    warnings.simplefilter('ignore')
    with open(path) as fh:
        rep = json.load(fh)['replay']
    ent = entry(rep['ast'])
    real = Real()
    real.load(ent)
    obs = real.observe(rep['pool'])
    print('statement :', skeleton(rep['ast']))
    print('catalog   :', [skeleton(g.get(rep['ast'], p)) for p in ent['subs']])
    print('pool      :', show_pool(rep['pool']))
    print('observed  :', obs)
    # requirement verdicts for this single pool from TLC
    data = common.write_json({'stmts': [dict(ent, obs=[{'id': 1, 'pool': rep['pool'], 'sel': obs['sel'], 'why': '',
                                                         'parse': [o.split(':')[0] for o in obs['parse']]}])],
                              'nobs': 1}, 'c09-replay.json')
    cfg = write_cfg(os.path.join(os.getcwd(), 'trace.cfg'), 'TSpec', consts(3, [1, 2, 3, TOP], 'all', True, False),
                    ['TraceInputsOK'], extra=['CONSTRAINT Track', 'POSTCONDITION Post'])
    res = tlc.run('TraceImporter', cfg, workers=1, env={'C09_INPUT': data}, coverage=False)
    verdict = res.tuples('VERDICT')[0]
    print('TraceImporter: events matched', verdict[1], 'of', 2 * len(rep['pool']) + 1, 'deviating parsers', verdict[2])
    return 0 if verdict[1] == 2 * len(rep['pool']) + 1 and not verdict[2] else 1
