"""C13 - actor state and hyper-parameter contract for every actor flavour.

model:        specs/Actor.tla (requirement level: builder + NI instances, state = (params, model), one invariant /
              action property per clause), specs/ActorImpl.tla (as-is model of the default / decorated / wrapped state
              handling, copyreg pickling and flow.Functor presets, checked to refine Actor.tla; seeded deviations and
              the "custom set_state through the direct API" combination must be refuted)
spec -> code: every distinct abstract state of Actor.tla within the constants is exported with one witness call
              sequence and the expected observation; the SAME sequences are replayed on every flavour (native
              flow.Actor subclass, @wrap.Actor.apply, @wrap.Actor.train/.apply, wrap.Actor.type with method names /
              callables / as decorator, an actor with its own set_state) through the actor API and through
              flow.Functor.preset_state/preset_params; apply is symbolic so the observation is the term TLC expects.
              The two sorts Actor.tla leaves uninterpreted are concretised in more than one way: the hyper-parameter
              VALUES (plain numbers / None, '', () - see REPS) and the state OBJECT of a decorated pair (the event list /
              a number, the Tally of the events exported by TLC, which is 0 = falsy for some trained models).
              Through flow.Functor the behaviours also say WHICH functor object executes an instance (the carrier chosen
              by Build: a new one or a live one holding the same builder): functor objects are created once, executed
              for every instance / rebuild assigned to them and pickled by the `pickle` calls - a functor has no memory
code -> spec: seeded random call sequences over larger constants, recorded with the full projection of the real
              objects after each call, validated call by call by specs/TraceActor.tla
"""
import concurrent.futures
import copy
import json
import multiprocessing
import os
import pickle
import random
import subprocess
import sys
import zlib

import cloudpickle

from forml import flow
from forml.pipeline import wrap
from harness import common, tlc

ABSENT = 99
KEYS = ('a', 'b')
F_NEEDY = 'class-actor-unpickle-required-ctor-args'
F_PLAIN = 'class-actor-without-mapping-keyerror'

# ------------------------------------------------------------------------------------------------------------------
# concretisation of the hyper-parameter VALUES.  Actor.tla leaves the values uninterpreted (0 = the constructor default,
# 1..MaxV = explicit values, all it uses is their equality), so every explicit abstract value may be represented by any
# python value as long as the representatives stay pairwise distinct: besides the plain numbers the replays use the
# values user code hands over all the time that are easy to mistake for "nothing supplied" - None, '' and () (all falsy,
# None being the usual spelling of "no limit" overriding a non-None default).  The representation is chosen per
# behaviour / recorded trace (CODEC); the projection back (dec) does not depend on that choice.
# ------------------------------------------------------------------------------------------------------------------
REPS = ({}, {1: None, 2: '', 3: ()})
CODEC = 0


def set_codec(n):
    global CODEC  # pylint: disable=global-statement
    CODEC = n % len(REPS)


def enc(v):
    """abstract explicit value -> its python representative under the codec in force"""
    return REPS[CODEC].get(v, v)


def dec(x):
    """python value seen in kwargs / get_params / an apply term -> abstract value"""
    if x is None:
        return 1
    if isinstance(x, str) and x == '':
        return 2
    if isinstance(x, tuple) and x == ():
        return 3
    return x


def weight(a, b, features, labels):
    """what one training event adds to the running sum of the tally flavour (Actor.tla: Weight)"""
    if features[0] != 'x' or labels != ('y', features[1]):
        return 1000
    return features[1] - 1 + dec(a) + 2 * dec(b)


# ------------------------------------------------------------------------------------------------------------------
# symbolic actors: apply returns the term ('app', params in force, model, input); the model is the list of training
# events (params in force, features, labels) - incremental training appends IN PLACE (sensitive to aliasing)
# ------------------------------------------------------------------------------------------------------------------
def _term(a, b, model, x):
    return 'app', (a, b), tuple(model), x


class NativeSym(flow.Actor):
    """Native stateful actor relying on the default get_state / set_state."""

    def __init__(self, *, a=0, b=0):
        self._a, self._b, self._model = a, b, []

    def train(self, features, labels, /):
        self._model.append(((self._a, self._b), features, labels))

    def apply(self, features):
        return _term(self._a, self._b, self._model, features)

    def get_params(self):
        return {'a': self._a, 'b': self._b}

    def set_params(self, **params):
        for key, value in params.items():
            if key not in KEYS:
                raise TypeError(key)
            setattr(self, '_' + key, value)


class NativeStateless(flow.Actor):
    """Native actor without train."""

    def __init__(self, *, a=0, b=0):
        self._a, self._b = a, b

    def apply(self, features):
        return _term(self._a, self._b, (), features)

    def get_params(self):
        return {'a': self._a, 'b': self._b}

    def set_params(self, **params):
        for key, value in params.items():
            if key not in KEYS:
                raise TypeError(key)
            setattr(self, '_' + key, value)


class CustomSym(NativeSym):
    """Native actor with its own state encoding: set_state restores everything it exported, params included
    (legal: only flow.Functor's SetState.set promises to keep the current params) -> functor mode only."""

    def get_state(self):
        return cloudpickle.dumps((self._a, self._b, self._model))

    def set_state(self, state):
        if state:
            self._a, self._b, self._model = cloudpickle.loads(state)


class LeakySym(NativeSym):
    """Deliberately BROKEN actor for the binding self-tests: the direct set_state lets the state's params win."""

    def set_state(self, state):
        if state:
            self.__dict__.update(cloudpickle.loads(state))


class StickyBuilder(flow.Builder):
    """Deliberately BROKEN builder for the binding self-test of the functor replay: it instantiates its actor once and
    hands out that very object ever after - seen through flow.Functor (one builder object per functor) this is a functor
    that keeps its actor between executions instead of rebuilding it."""

    def __init__(self, actor, kwargs):
        self._actor, self._kwargs, self._made = actor, dict(kwargs), None

    actor = property(lambda self: self._actor)
    args = property(lambda self: ())
    kwargs = property(lambda self: self._kwargs)

    def __call__(self, *args, **kwargs):
        if self._made is None:
            self._made = self._actor(**self._kwargs | kwargs)
        return self._made

    def __copy__(self):
        return StickyBuilder(self._actor, self._kwargs)


class StickySym(NativeSym):
    """Conforming actor behind the broken builder."""

    @classmethod
    def builder(cls, *args, **kwargs):
        return StickyBuilder(cls, kwargs)


@wrap.Actor.train
def PairSym(state, features, labels, *, a=0, b=0):  # pylint: disable=invalid-name
    """Train half of the decorated pair."""
    state = [] if state is None else state
    state.append(((a, b), features, labels))
    return state


@PairSym.apply
def PairSym(state, features, *, a=0, b=0):  # pylint: disable=invalid-name,function-redefined
    """Apply half of the decorated pair."""
    return _term(a, b, state, features)


@wrap.Actor.train
def TallySym(state, features, labels, *, a=0, b=0):  # pylint: disable=invalid-name
    """Train half of a decorated pair whose state is a NUMBER, the running sum of the event weights: the state object of
    a trained actor is whatever the user function returns - here one that may well be 0 (any falsy object would do:
    a learned offset of exactly zero, an empty vocabulary...); only None means untrained."""
    return (0 if state is None else state) + weight(a, b, features, labels)


@TallySym.apply
def TallySym(state, features, *, a=0, b=0):  # pylint: disable=invalid-name,function-redefined
    """Apply half: the model is visible as its sum only (Actor.tla exports the expected Tally of every instance)."""
    return 'app', (a, b), ('sum', state), features


@wrap.Actor.apply
def ApplySym(features, *, a=0, b=0):  # pylint: disable=invalid-name
    """Decorated stateless function."""
    return _term(a, b, (), features)


class Estimator:
    """Third-party style estimator (knows nothing about forml)."""

    def __init__(self, a=0, b=0):
        self.a, self.b, self.model = a, b, []

    def fit(self, x, y):
        self.model.append(((self.a, self.b), x, y))

    def predict(self, x):
        return _term(self.a, self.b, self.model, x)

    def get_params(self):
        return {'a': self.a, 'b': self.b}

    def set_params(self, **params):
        for key, value in params.items():
            if key not in KEYS:
                raise TypeError(key)
            setattr(self, key, value)


class Gadget:
    """Third-party class without a single actor-like method name."""

    def __init__(self, a=0, b=0):
        self.conf, self.seen = {'a': a, 'b': b}, []

    def learn(self, x, y):
        self.seen.append(((self.conf['a'], self.conf['b']), x, y))

    def run(self, x):
        return _term(self.conf['a'], self.conf['b'], self.seen, x)

    def reconf(self, **params):
        for key in params:
            if key not in KEYS:
                raise TypeError(key)
        self.conf.update(params)


class Formula:
    """Third-party class without any training method."""

    def __init__(self, a=0, b=0):
        self.a, self.b = a, b

    def compute(self, x):
        return _term(self.a, self.b, (), x)

    def get_params(self):
        return {'a': self.a, 'b': self.b}

    def set_params(self, **params):
        for key, value in params.items():
            setattr(self, key, value)


class Needy(Estimator):
    """Estimator whose constructor has a REQUIRED argument."""

    def __init__(self, a, b=0):  # pylint: disable=useless-parent-delegation
        super().__init__(a, b)


ClassByName = wrap.Actor.type(Estimator, train='fit', apply='predict')
ClassByCall = wrap.Actor.type(
    Gadget,
    train=lambda g, x, y: g.learn(x, y),
    apply=lambda g, x: g.run(x),
    get_params=lambda g: dict(g.conf),
    set_params=lambda g, **kw: g.reconf(**kw),
)
ClassNeedy = wrap.Actor.type(Needy, train='fit', apply='predict')
ClassStatelessName = wrap.Actor.type(Formula, apply='compute')
ClassStatelessCall = wrap.Actor.type(Formula, apply=lambda f, x: f.compute(x))


@wrap.Actor.type(train='fit', apply='predict')
class ClassDeco(Estimator):
    """Decorator form with a mapping (the module name is bound to the ACTOR -> pickled by reference)."""


@wrap.Actor.type
class ClassPlain:
    """Parameterless decorator form: the class already speaks the actor API."""

    def __init__(self, a=0, b=0):
        self.a, self.b, self.model = a, b, []

    def train(self, x, y):
        self.model.append(((self.a, self.b), x, y))

    def apply(self, x):
        return _term(self.a, self.b, self.model, x)

    def get_params(self):
        return {'a': self.a, 'b': self.b}

    def set_params(self, **params):
        for key, value in params.items():
            setattr(self, key, value)


class Flavour:
    def __init__(self, name, actor, stateful, modes, std=False, needs_a=False, sat_every=1, tally=False):
        self.name, self.actor, self.stateful, self.modes, self.std, self.needs_a = name, actor, stateful, modes, std, needs_a
        self.tally = tally  # apply shows the Tally of the model instead of the model
        self.sat_every = sat_every  # the saturated mode runs on every n-th behaviour only (cloudpickle by value is slow)


ALL = ('direct', 'saturated', 'functor')
FLAVOURS = {
    f.name: f
    for f in (
        # std: instances are also pushed through the standard pickle module (wrap.Actor.type instances are not: their
        # copyreg reducer carries a local lambda only cloudpickle - the serialiser forml uses everywhere - can handle)
        Flavour('native', NativeSym, True, ALL, std=True),
        Flavour('pair', PairSym, True, ALL, std=True),
        Flavour('pair-tally', TallySym, True, ALL, std=True, tally=True, sat_every=4),
        Flavour('class-name', ClassByName, True, ALL, sat_every=16),
        Flavour('class-call', ClassByCall, True, ALL, sat_every=16),
        Flavour('class-deco', ClassDeco, True, ALL, sat_every=4),
        Flavour('custom', CustomSym, True, ('functor',), std=True),
        Flavour('class-needy', ClassNeedy, True, ('direct', 'functor'), needs_a=True),
        Flavour('class-plain', ClassPlain, True, ('direct',)),
        Flavour('native-stateless', NativeStateless, False, ALL, std=True),
        Flavour('apply', ApplySym, False, ALL, std=True),
        Flavour('class-stateless-name', ClassStatelessName, False, ALL, sat_every=8),
        Flavour('class-stateless-call', ClassStatelessCall, False, ('direct', 'saturated'), sat_every=8),
        Flavour('leaky', LeakySym, True, ('direct',), std=True),  # self-test only
        Flavour('sticky', StickySym, True, ('functor',), std=True),  # self-test only
    )
}
SELFTEST = ('leaky', 'sticky')
CHECKED = [n for n in FLAVOURS if n not in SELFTEST]


# ------------------------------------------------------------------------------------------------------------------
# concretisation / projection
# ------------------------------------------------------------------------------------------------------------------
def kw(p):
    """abstract partial assignment [a, b] (99 = not supplied) -> keyword arguments"""
    return {k: enc(v) for k, v in zip(KEYS, p) if v != ABSENT}


def partial(kwargs):
    extra = set(kwargs) - set(KEYS)
    return [dec(kwargs[k]) if k in kwargs else ABSENT for k in KEYS] + sorted(extra)


def resolved(params):
    """params reported by get_params -> total assignment (a key that is not reported runs on its default 0)"""
    extra = set(params) - set(KEYS)
    return [dec(params.get(k, 0)) for k in KEYS] + sorted(extra)


def project_term(term, x):
    """('app', (a, b), model, x) -> [params, [[p, d]...], d]; anything malformed is made unequal to every expectation
    (tally flavour: model = ('sum', n) -> ['sum', n])"""
    try:
        tag, (a, b), model, echo = term
        if tag != 'app' or echo != x:
            return ['malformed', repr(term)[:200]]
        if isinstance(model, tuple) and len(model) == 2 and model[0] == 'sum':
            return [[dec(a), dec(b)], ['sum', model[1]], x[1]]
        events = []
        for (pa, pb), fx, fy in model:
            d = fx[1] if (fx[0] == 'x' and fy == ('y', fx[1])) else -1
            events.append([[dec(pa), dec(pb)], d])
        return [[dec(a), dec(b)], events, x[1]]
    except (TypeError, ValueError, IndexError):
        return ['malformed', repr(term)[:200]]


class Untrained(Exception):
    """apply refused because there is no model"""


def observe_actor(get_params, apply, data):
    """-> [True, params, model] when get_params and every apply(x) agree with one (params, model); the apply of an
    untrained actor may refuse (RuntimeError) - that is the observation model = []"""
    params = resolved(get_params())
    model = None
    for d in data:
        try:
            got = project_term(apply(('x', d)), ('x', d))
        except RuntimeError:
            got = [params, [], d]
        if got[0] == 'malformed':
            return [True, params, got]
        if got[0] != params:
            return [True, params, ['apply ran under params', got[0]]]
        if model is not None and got[1] != model:
            return [True, params, ['apply not a function of the input only', model, got[1]]]
        model = got[1]
    return [True, params, model]


UNBUILT = [False, [0, 0], []]


class Direct:
    """Live actor objects driven through the flow.Actor API."""

    stage = None

    def __init__(self, flav, p0, ni):
        self.flav = flav
        self.builder = flav.actor.builder(**kw(p0))
        self.inst = [None] * ni
        self.snap = [None] * ni
        self.n = 0

    def _serde(self, obj):
        self.n += 1
        mod = pickle if (self.flav.std and self.n % 2 == 0) else cloudpickle
        return mod.loads(mod.dumps(obj))

    def call(self, op, i, j, d, p):
        i, j = i - 1, j - 1
        if op == 'update':
            self.builder = self.builder.update(**kw(p))
        elif op == 'reset':
            self.builder = self.builder.reset(**kw(p))
        elif op == 'build':
            self.inst[i] = self.builder(**kw(p))
        elif op == 'train':
            self.inst[i].train(('x', d), ('y', d))
        elif op == 'getstate':
            self.snap[i] = self.inst[i].get_state()
            if not isinstance(self.snap[i], bytes):
                raise AssertionError('state is not bytes')
            return not self.snap[i]
        elif op == 'setstate':
            self.inst[i].set_state(self.snap[j])
        elif op == 'setempty':
            self.inst[i].set_state(b'')
        elif op == 'setparams':
            self.inst[i].set_params(**kw(p))
        elif op == 'pickle':
            self.inst[i] = self._serde(self.inst[i])
        elif op == 'pickleb':
            self.builder = self._serde(self.builder)
        elif op == 'apply':
            return project_term(self.inst[i].apply(('x', d)), ('x', d))
        else:
            raise tlc.MachineryError(f'unknown op {op}')
        return None

    def observe(self, data):
        return [UNBUILT if a is None else observe_actor(a.get_params, a.apply, data) for a in self.inst]

    def stateful(self):
        return [None if a is None else (a.is_stateful(), type(a).is_stateful()) for a in self.inst]

    def kwargs(self):
        return partial(dict(self.builder.kwargs))

    def dump(self):
        return cloudpickle.dumps({'builder': self.builder, 'inst': self.inst})


class Saturated(Direct):
    """Derived behaviours: after every call the touched instance additionally receives the empty state and is replaced
    by its pickle round trip (the builder after update / reset).  Sound because Actor.tla proves EmptyIsNoop and
    PickleIsIdentity: inserting these calls anywhere yields another behaviour with the same expected observations.
    (TLC itself never continues a history beyond a no-op call - it leads to a state already seen.)"""

    def call(self, op, i, j, d, p):
        self.stage = op
        res = super().call(op, i, j, d, p)
        if op in ('update', 'reset'):
            self.stage = 'pickleb'
            self.builder = self._serde(self.builder)
        elif op in ('build', 'train', 'setstate', 'setparams', 'getstate'):
            self.stage = 'setempty'
            self.inst[i - 1].set_state(b'')
            self.stage = 'pickle'
            self.inst[i - 1] = self._serde(self.inst[i - 1])
        self.stage = None
        return res


class Probe(flow.Apply):
    """Functor action reporting the params in force of the (fresh, preset) actor."""

    def __call__(self, actor, *args):
        return dict(actor.get_params())


KINDS = {'train': flow.Train, 'apply': flow.Apply, 'probe': Probe}


class ViaFunctor:
    """flow.Functor: every execution must act on a fresh actor built from the functor's builder, with the params and
    state presets passed to that very execution.  An instance is [carrier, params preset, state preset]; a carrier is
    the set of functor OBJECTS (train / apply / probe action) created ONCE from a builder.  Which carrier executes an
    instance is decided by the behaviour (Actor.tla, BuildOn: a new one or a live one holding the same builder), so
    one functor object is executed again and again with the presets of different instances / rebuilds."""

    stage = None

    def __init__(self, flav, p0, ni):
        self.flav = flav
        self.builder = flav.actor.builder(**kw(p0))
        self.inst = [None] * ni  # [carrier id, params preset, state preset]
        self.snap = [None] * ni
        self.carriers = {}  # id -> {'builder': its builder, 'train' / 'apply' / 'probe': functor objects}
        self.n = self.reused = 0
        self.salt = None  # replays of exported behaviours: a number derived from the behaviour (see _carrier)

    def _serde(self, obj):
        self.n += 1
        mod = pickle if (self.flav.std and self.n % 2 == 0) else cloudpickle
        return mod.loads(mod.dumps(obj))

    def _exec(self, i, kind, *args):
        carrier, preset, state = self.inst[i]
        return self.carriers[carrier][kind].execute(dict(preset), state, *args)

    def _builder(self, p):
        return self.builder.update(**kw(p)) if kw(p) else self.builder

    def offers(self):
        """[(carrier, override)]: the live functor objects that may execute an instance built now, each with the
        build-time override under which the instance gets exactly the builder that functor holds"""
        have, out = dict(self.builder.kwargs), []
        for c in sorted({r[0] for r in self.inst if r is not None and isinstance(r[0], int)}):
            held = dict(self.carriers[c]['builder'].kwargs)
            if set(have) <= set(held) <= set(KEYS):  # an override can set any key but not drop one
                out.append((c, [dec(held[k]) if k in held and have.get(k, ABSENT) != held[k] else ABSENT for k in KEYS]))
        return out

    def _carrier(self, builder, c):
        if not c:  # no carrier named by the caller: a new one
            self.n += 1
            c = f'new-{self.n}'
        have = self.carriers.get(c)
        if have is None:
            if any(other['builder'] is builder for other in self.carriers.values()):
                try:  # carriers do not share their builder OBJECT either (not essential: only makes the self-test sharp)
                    builder = copy.copy(builder)
                except Exception:  # pylint: disable=broad-except
                    pass
            self.carriers[c] = {'builder': builder, **{kind: action().functor(builder).preset_state().preset_params()
                                                       for kind, action in KINDS.items()}}
            return c
        self.reused += 1
        if self.salt is not None and (self.salt + self.reused) % (16 * self.flav.sat_every) == 0:
            # a functor object about to execute another instance is shipped first, now and then (pickling by value is
            # slow): a derived behaviour, sound because Actor.tla proves PickleIsIdentity (TLC itself never continues a
            # history beyond a no-op call) - whatever the functor gathered in its earlier executions would travel along
            self.stage = 'pickle'
            self.carriers[c] = have = self._serde(have)
            self.stage = None
        if dict(have['builder'].kwargs) != dict(builder.kwargs):
            # Actor.tla offers a live carrier only for an equal builder: the real builders deviate from the modelled ones
            raise AssertionError(f'builder kwargs {dict(builder.kwargs)} where the model has those of an earlier builder, '
                                 f'{dict(have["builder"].kwargs)}')
        return c

    def call(self, op, i, j, d, p):
        i, j = i - 1, j - 1
        if op == 'update':
            self.builder = self.builder.update(**kw(p))
        elif op == 'reset':
            self.builder = self.builder.reset(**kw(p))
        elif op == 'build':  # j + 1 = the carrier
            self.inst[i] = [self._carrier(self._builder(p), j + 1), {}, None]
        elif op == 'train':
            self.inst[i][2] = self._exec(i, 'train', ('x', d), ('y', d))
            if not isinstance(self.inst[i][2], bytes):
                raise AssertionError('state is not bytes')
        elif op == 'getstate':
            self.snap[i] = self.inst[i][2] or b''
            return not self.snap[i]
        elif op == 'setstate':
            self.inst[i][2] = self.snap[j]
        elif op == 'setempty':
            if not self.inst[i][2]:
                self.inst[i][2] = b''
        elif op == 'setparams':
            self.inst[i][1].update(kw(p))
        elif op == 'pickle':  # the functor objects themselves must be serialisable; presets are plain values
            carrier, preset, state = self.inst[i]
            self.carriers[carrier] = self._serde(self.carriers[carrier])
            self.inst[i] = [carrier, self._serde(preset), self._serde(state)]
        elif op == 'pickleb':
            self.builder = self._serde(self.builder)
        elif op == 'apply':
            return project_term(self._exec(i, 'apply', ('x', d)), ('x', d))
        else:
            raise tlc.MachineryError(f'unknown op {op}')
        return None

    def _observe(self, i, data):
        return observe_actor(lambda: self._exec(i, 'probe'), lambda x: self._exec(i, 'apply', x), data)

    def observe(self, data):
        got = [UNBUILT if r is None else self._observe(i, data) for i, r in enumerate(self.inst)]
        # functor objects executing several instances: one more look in the opposite order (what an execution shows
        # must not depend on the executions before it); the instance observed last was just looked at
        carriers = [r[0] for r in self.inst if r is not None]
        shared = [i for i, r in enumerate(self.inst) if r is not None and carriers.count(r[0]) > 1]
        for i in reversed(shared[:-1]):
            try:  # one execution of the apply functor shows the params in force and the model
                again = project_term(self._exec(i, 'apply', ('x', data[0])), ('x', data[0]))[:2]
            except RuntimeError:
                again = [got[i][1], []]
            if again != got[i][1:]:
                got[i] = [True, got[i][1], ['execution depends on the executions before it', got[i][1:], again]]
        return got

    def stateful(self):
        return [None if r is None else (self.carriers[r[0]]['builder'].actor.is_stateful(),) * 2 for r in self.inst]

    def kwargs(self):
        return partial(dict(self.builder.kwargs))

    def dump(self):
        return None


MODES = {'direct': Direct, 'saturated': Saturated, 'functor': ViaFunctor}


def constructible(h):
    """class-needy only: every build supplies the required constructor argument `a` (an actor that cannot even be
    constructed is outside the property)"""
    bld = list(h[0][4])
    for op, _, _, _, p in h[1:]:
        if op == 'update':
            bld = [o if n == ABSENT else n for o, n in zip(bld, p)]
        elif op == 'reset':
            bld = list(p)
        elif op == 'build' and (bld[0] if p[0] == ABSENT else p[0]) == ABSENT:
            return False
    return True


def known_finding(flav, mode, h, step, op):
    """Input-class predicates of known_findings.d/C13.json: decided from flavour + call, never from the outcome."""
    if flav.name == 'class-needy' and mode == 'direct' and op == 'pickle':
        return F_NEEDY  # unpickling a wrap.Actor.type instance whose origin constructor has a required argument
    if flav.name == 'class-plain' and op in ('is_stateful', 'getstate', 'setstate', 'pickle'):
        return F_PLAIN  # wrap.Actor.type without any mapping keyword: everything consulting is_stateful()
    return None


def expected_inst(flav, beh):
    """the observation Actor.tla expects of every instance: [built, params, model], the tally flavour shows the Tally of
    the model TLC exported along (a trained model whose Tally is 0 is still a trained model)"""
    if not flav.tally:
        return beh[1]
    return [[built, params, ['sum', tally] if model else []] for (built, params, model), tally in zip(beh[1], beh[3])]


def replay_one(flav, mode, beh, data):
    """Replay one exported behaviour [h, expected inst, expected builder, expected tallies] -> None | failure dict"""
    h, exp_inst, exp_bld = beh[0], expected_inst(flav, beh), beh[2]
    step, op, machine = 0, 'init', None
    try:
        salt = zlib.crc32(json.dumps(h).encode())
        set_codec(salt >> 4)  # representation of the hyper-parameter values in this behaviour
        machine = MODES[mode](flav, h[0][4], len(exp_inst))
        machine.salt = salt
        for step, (op, i, j, d, p) in enumerate(h[1:], start=1):
            empty = machine.call(op, i, j, d, p)
            if op == 'getstate' and not flav.stateful and not empty:
                return {'step': step, 'op': op, 'what': 'stateless actor exported a non-empty state'}
        step, op = len(h), 'observe'
        got = machine.observe(data)
        if got != exp_inst:
            bad = next(n for n, (g, e) in enumerate(zip(got, exp_inst)) if g != e)
            return {'step': len(h) - 1, 'op': h[-1][0], 'what': f'instance {bad + 1} shows [built, params, model] = {got[bad]}, '
                    f'the contract demands {exp_inst[bad]}', 'observed': got}
        if machine.kwargs() != exp_bld:
            return {'step': len(h) - 1, 'op': h[-1][0], 'what': f'builder kwargs {machine.kwargs()} instead of {exp_bld}'}
        op = 'is_stateful'
        for flags in machine.stateful():
            if flags is not None and flags != (flav.stateful, flav.stateful):
                return {'step': len(h) - 1, 'op': op, 'what': f'is_stateful() = {flags} but has train = {flav.stateful}'}
    except tlc.MachineryError:
        raise
    except Exception as exc:  # pylint: disable=broad-except
        op = getattr(machine, 'stage', None) or op
        return {'step': step, 'op': op, 'what': f'{op} raised {type(exc).__name__}: {str(exc)[:120]}', 'raised': type(exc).__name__}
    return None


CAP = 20  # examples kept per (flavour, mode, failing call) and chunk


def reuses(h):
    """positions (0-based) of the build calls executed by an EXISTING functor object (a new carrier is named after the
    1-based position of its build call)"""
    return [k for k, e in enumerate(h) if e[0] == 'build' and e[2] != k + 1]


def carrier_facts(h):
    """which carrier situations a behaviour exercises (vacuity guard of the functor replay)"""
    facts = set()
    for k in reuses(h):
        i, c = h[k][1], h[k][2]
        before = [e for e in h[:k] if e[0] == 'build' and e[2] == c]
        facts.add('rebuilt-on-own-carrier' if before[-1][1] == i else 'carrier-shared-by-instances')
        users = {e[1] for e in before}
        if any(e[0] == 'train' and e[1] in users for e in h[:k]):
            facts.add('reused-after-training')
        if any(e[0] == 'setparams' and e[1] in users for e in h[:k]):
            facts.add('reused-after-setparams')
        for e in h[k + 1:]:
            if e[1] == i and e[0] in ('train', 'setstate', 'setparams', 'pickle'):
                facts.add(f'reused-then-{e[0]}')
    return facts


def _chunk(args):
    names, lines, data, want_dumps = args
    done, failures, dumps, counts, lastops = 0, [], [], {}, set()
    for n, line in enumerate(lines):
        beh = json.loads(line)
        lastops.add(beh[0][-1][0])
        shared = reuses(beh[0])
        lastops.update(carrier_facts(beh[0]))
        # the carrier of a build means nothing through the direct actor API: a behaviour ENDING in a build on an existing
        # carrier is, there, the twin of the exported behaviour ending in the same build on a new carrier
        twin = bool(shared) and shared[-1] == len(beh[0]) - 1
        for name in names:
            flav = FLAVOURS[name]
            if flav.needs_a and not constructible(beh[0]):
                continue  # generator exclusion, see constructible()
            for mode in flav.modes:
                if mode == 'saturated' and n % flav.sat_every:
                    continue
                if twin and mode != 'functor':
                    continue
                fail = replay_one(flav, mode, beh, data)
                if fail is None:
                    done += 1
                    continue
                key = (name, mode, fail['op'])
                counts[key] = counts.get(key, 0) + 1
                if counts[key] <= CAP:
                    fail.update(flavour=name, mode=mode, h=beh[0], expected=beh[1], bld=beh[2], tally=beh[3])
                    failures.append(fail)
        if want_dumps and n % want_dumps == 0:
            for name in names:
                flav = FLAVOURS[name]
                if name in ('class-plain', 'class-needy') or 'direct' not in flav.modes:
                    continue
                try:
                    set_codec(n // want_dumps)
                    machine = Direct(flav, beh[0][0][4], len(beh[1]))
                    for op, i, j, d, p in beh[0][1:]:
                        machine.call(op, i, j, d, p)
                    dumps.append((name, beh, machine.dump()))
                except Exception:  # pylint: disable=broad-except
                    pass  # already reported by the replay above
    return done, failures, dumps, counts, lastops


def replay_all(lines, names, data, procs, want_dumps=0):
    """-> (#conforming replays, failure examples, pickles for the fresh-process check, failure counts, last ops seen)"""
    size = max(1, min(4000, len(lines) // (procs * 4) + 1))
    jobs = [(names, lines[k:k + size], data, want_dumps) for k in range(0, len(lines), size)]
    if procs > 1:
        with multiprocessing.get_context('fork').Pool(procs) as pool:
            results = pool.map(_chunk, jobs)
    else:
        results = [_chunk(j) for j in jobs]
    done, failures, dumps, counts, lastops = 0, [], [], {}, set()
    for d, f, dd, cc, lo in results:
        done += d
        failures += f
        dumps += dd
        lastops |= lo
        for k, v in cc.items():
            counts[k] = counts.get(k, 0) + v
    return done, failures, dumps, counts, lastops


def show(h, carriers=True):
    """compact call list; a build shows the functor object executing the instance from there on (flow.Functor only)"""
    return [[e[0]] + ([e[1]] + ([f'functor#{e[2]}'] if carriers and e[2] else []) if e[0] == 'build' else [x for x in e[1:4] if x])
            + ([kw(e[4])] if kw(e[4]) else []) for e in h]


def report(chk, failures):
    for fail in failures:
        flav = FLAVOURS[fail['flavour']]
        finding = known_finding(flav, fail['mode'], fail['h'], fail['step'], fail['op'])
        set_codec(zlib.crc32(json.dumps(fail['h']).encode()) >> 4)  # show the values the replay used (see replay_one)
        chk.fail(f'{fail["flavour"]}/{fail["mode"]} after {show(fail["h"][:fail["step"] + 1], fail["mode"] == "functor")}: {fail["what"]}',
                 {'kind': 'behaviour', 'flavour': fail['flavour'], 'mode': fail['mode'],
                  'behaviour': [fail['h'], fail['expected'], fail['bld'], fail['tally']], 'what': fail['what']}, finding=finding)


# ------------------------------------------------------------------------------------------------------------------
# TLC runs
# ------------------------------------------------------------------------------------------------------------------
INVARIANTS = ('TypeOK', 'TransferEquivalence', 'BuilderParamsWin', 'UntrainedUnlessFed', 'StatelessNeverTrained',
              'ApplyFunctional', 'CarrierHoldsBuilder')
PROPERTIES = ('ParamsOnlyBySetParams', 'ModelOnlyByTrainOrState', 'EmptyIsNoop', 'PickleIsIdentity', 'BuilderIsolated',
              'SnapshotImmutable', 'SetStateKeepsParams', 'FunctorHasNoMemory')


def cfg_actor(path, ht, maxv, depth, rich, data, export=True):
    with open(path, 'w') as fh:
        fh.write(f'SPECIFICATION Spec\nCONSTANTS NP = 2\n MaxV = {maxv}\n NI = 2\n Data = {{{", ".join(map(str, data))}}}\n'
                 f' HTS = {{{ht}}}\n Depth = {depth}\n Rich = {rich}\nVIEW view\nCONSTRAINT Bound\n'
                 + ''.join(f'INVARIANT {i}\n' for i in INVARIANTS) + ''.join(f'PROPERTY {p}\n' for p in PROPERTIES)
                 + ('INVARIANT Export\n' if export else '') + 'CHECK_DEADLOCK FALSE\n')
    return path


def cfg_impl(path, flavour, mode, variant, depth, ht='TRUE', view='iview'):
    with open(path, 'w') as fh:
        fh.write(f'SPECIFICATION SpecI\nCONSTANTS NP = 2\n MaxV = 1\n NI = 2\n Data = {{1}}\n HTS = {{{ht}}}\n Depth = {depth}\n'
                 f' Rich = FALSE\n Flavour = "{flavour}"\n Mode = "{mode}"\n Variant = "{variant}"\nVIEW {view}\n'
                 'CONSTRAINT Bound\nINVARIANT Refines\nINVARIANT BlobRefines\nINVARIANT BuilderParamsWin\nCHECK_DEADLOCK FALSE\n')
    return path


STATEFUL_ACTIONS = ['Update', 'Build', 'Train', 'GetState', 'SetState', 'SetEmpty', 'SetParams', 'Pickle', 'PickleB', 'Apply']
STATELESS_ACTIONS = [a for a in STATEFUL_ACTIONS if a != 'Train']
NOOPS = {'pickle', 'pickleb', 'setempty'}
CARRIER_FACTS = {'rebuilt-on-own-carrier', 'carrier-shared-by-instances', 'reused-after-training', 'reused-after-setparams',
                 'reused-then-train', 'reused-then-setstate', 'reused-then-setparams', 'reused-then-pickle'}


def main(chk):
    import logging
    logging.disable(logging.INFO)
    tmp = os.getcwd()
    procs = int(os.environ.get('VERIF_PROCS') or 8)
    # every TLC run uses ONE worker: the call history is hidden from the fingerprint (VIEW) while the Depth bound reads it,
    # which is exact only under strict breadth-first search

    # ---- 1. implementation model refines the requirement; seeded deviations are refuted (the model can tell them apart)
    # (independent single-worker TLC runs, a few at a time)
    depth = 4 if chk.quick else 5
    with concurrent.futures.ThreadPoolExecutor(max_workers=min(4, procs)) as pool:
        asis = []
        for flavour in ('native', 'pair', 'class', 'custom'):
            for mode in ('direct', 'functor'):
                if (flavour, mode) == ('custom', 'direct'):
                    continue
                asis.append(pool.submit(
                    chk.tlc, 'ActorImpl', cfg_impl(os.path.join(tmp, f'i-{flavour}-{mode}.cfg'), flavour, mode, 'asis', depth),
                    require=['BuildI', 'TrainI', 'GetStateI', 'SetStateI', 'SetEmptyI', 'SetParamsI', 'PickleI'], workers=1))
        asis.append(pool.submit(
            chk.tlc, 'ActorImpl', cfg_impl(os.path.join(tmp, 'i-stateless.cfg'), 'native', 'direct', 'asis', depth, ht='FALSE'),
            require=['BuildI', 'GetStateI', 'SetStateI', 'PickleI'], workers=1))
        refuted = []
        for name, flavour, mode, variant, view in (
                ('model_refutes_custom_set_state_via_direct_api', 'custom', 'direct', 'asis', 'iview'),
                ('model_refutes_params_restored_before_set_state', 'custom', 'functor', 'preset_before', 'iview'),
                ('model_refutes_empty_state_resetting_the_model', 'pair', 'direct', 'empty_resets', 'iview'),
                ('model_refutes_pickle_dropping_params', 'class', 'direct', 'pickle_drops_params', 'iview'),
                # a functor object that builds its actor once and keeps it: visible only when the object is executed again
                ('model_refutes_functor_keeping_its_actor', 'native', 'functor', 'functor_keeps_actor', 'iviewK')):
            refuted.append((name, pool.submit(
                chk.tlc, 'ActorImpl', cfg_impl(os.path.join(tmp, f'm-{variant}-{flavour}.cfg'), flavour, mode, variant, 4, view=view),
                expect_ok=False, workers=1, coverage=False)))
        for job in asis:
            job.result()
        for name, job in refuted:
            chk.selftest(name, job.result().violated == 'Refines')

    # ---- 2. spec -> code: every transition of the bounded state graph, replayed on every flavour
    # (has train, MaxV, Depth = calls after the initial build, Rich, Data)
    if chk.quick:
        plans = [('TRUE', 1, 3, 'FALSE', (1, 2)), ('TRUE', 1, 5, 'FALSE', (1,)), ('FALSE', 1, 5, 'FALSE', (1,))]
    else:
        plans = [('TRUE', 1, 5, 'FALSE', (1, 2)), ('TRUE', 1, 6, 'FALSE', (1,)), ('TRUE', 2, 3, 'TRUE', (1,)),
                 ('FALSE', 1, 5, 'TRUE', (1,)), ('FALSE', 2, 3, 'TRUE', (1,))]
    total, all_failures, dumps, counts = 0, [], [], {}
    leaky_caught, sticky, facts = 0, None, set()
    for n, (ht, maxv, depth, rich, data) in enumerate(plans):
        res = chk.tlc('Actor', cfg_actor(os.path.join(tmp, f'a{n}.cfg'), ht, maxv, depth, rich, data), workers=1,
                      require=(STATEFUL_ACTIONS if ht == 'TRUE' else STATELESS_ACTIONS) + (['Reset'] if rich == 'TRUE' else []))
        lines = [p for p in res.printed if p.startswith('[[[')]
        if len(lines) < res.distinct - 16:
            raise tlc.MachineryError(f'Actor.tla exported {len(lines)} behaviours for {res.distinct} states')
        res.printed, res.stdout = [], ''
        names = [f for f in CHECKED if FLAVOURS[f].stateful == (ht == 'TRUE')]
        done, failures, dd, cc, lastops = replay_all(lines, names, list(data), procs, want_dumps=997 if chk.quick else 4999)
        if not NOOPS <= lastops:
            raise tlc.MachineryError(f'exported behaviours never end in {NOOPS - lastops}: TLC no longer evaluates the Export '
                                     'invariant on already seen states')
        facts |= lastops & CARRIER_FACTS
        total += done
        all_failures += failures
        dumps += dd
        for k, v in cc.items():
            counts['/'.join(k)] = counts.get('/'.join(k), 0) + v
        chk.extra.setdefault('behaviours_exported', []).append(
            {'has_train': ht, 'MaxV': maxv, 'calls': depth + 1, 'Rich': rich, 'Data': list(data), 'behaviours': len(lines),
             'flavours/modes': [f'{f}/{m}' for f in names for m in FLAVOURS[f].modes]})
        for line in lines[len(lines) // 2::max(1, len(lines) // 5)][:2]:
            beh = json.loads(line)
            chk.sample({'calls': show(beh[0]), 'expected [built, params, model] per instance': beh[1],
                        'every flavour agreed': [f for f in names if f not in ('class-plain', 'class-needy')]})
        if ht == 'TRUE' and n == 0:
            # binding self-test: a contract-breaking actor pushed through the same pipeline must be flagged
            _, _, _, leaks, _ = replay_all(lines, ['leaky'], list(data), procs)
            leaky_caught = sum(leaks.values())
            # ... and so must a functor that keeps its actor between executions, in exactly the behaviours that execute
            # one functor object for several instances / rebuilds (nowhere else is it observable)
            fine, flagged, _, kept, _ = replay_all(lines, ['sticky'], list(data), procs)
            sticky = (fine, sum(kept.values()), all(reuses(f['h']) for f in flagged))
        del lines
    chk.selftest('params_leaking_actor_flagged_by_replay', leaky_caught > 0)
    chk.selftest('functor_keeping_its_actor_flagged_by_replay', sticky[1] > 0)
    if not all_failures and not (sticky[0] and sticky[2]):
        # (judged only on a tree that conforms otherwise: a broken flow.Functor may make this flavour fail anywhere)
        raise tlc.MachineryError('the functor that keeps its actor is flagged in behaviours that never execute a functor object '
                                 'twice: the functor replay itself leaks between functor objects')
    if facts != CARRIER_FACTS:
        raise tlc.MachineryError(f'the exported behaviours never exercise {sorted(CARRIER_FACTS - facts)}')
    chk.extra['leaky_actor_behaviours_flagged'] = leaky_caught
    chk.extra['actor_keeping_functor_behaviours_flagged'] = sticky[1]
    chk.extra['functor_reuse_exercised'] = sorted(facts)
    chk.extra['nonconforming_replays_by_flavour/mode/call'] = counts
    report(chk, all_failures)
    chk.validated(total)

    # ---- 3. trained actors and builders in a FRESH process
    fresh_check(chk, dumps)

    # ---- 4. code -> spec: random call sequences over larger constants validated by TraceActor.tla
    trace_validation(chk)
    chk.assume('set_state(b"") is read as a no-op on EVERY actor (contract of flow.Actor.set_state), not only on untrained ones')
    chk.assume('a state exported by an untrained actor is never given to a trained one (flavours legitimately differ there)')
    chk.assume('symbolic actors take keyword hyper-parameters a, b with constructor default 0 and report all of them from '
               'get_params (actors reporting only a subset are outside the precedence clause)')
    chk.assume('the apply of an untrained decorated pair refuses with RuntimeError; that is projected as "model = []"')
    chk.assume('flow.Functor.execute acts on an actor rebuilt from the functor\'s builder on EVERY execution (a functor object '
               'may be executed many times, with different presets, and pickled in between)')


# ------------------------------------------------------------------------------------------------------------------
def fresh_check(chk, dumps):
    """cloudpickle of (builder, trained instances) loaded by another interpreter must show the same observation."""
    if not dumps:
        raise tlc.MachineryError('no pickles collected for the fresh-process check')
    path = os.path.join(os.getcwd(), 'fresh.pkl')
    with open(path, 'wb') as fh:
        pickle.dump([(name, blob) for name, _, blob in dumps], fh)
    proc = subprocess.run([sys.executable, '-W', 'ignore', '-m', 'harness.drivers.C13', '--fresh', path], capture_output=True,
                          text=True, timeout=600)
    if proc.returncode != 0:
        raise tlc.MachineryError(f'fresh process failed: {proc.stderr[-2000:]}')
    with open(path + '.json') as fh:
        results = json.load(fh)
    if len(results) != len(dumps):
        raise tlc.MachineryError('fresh process returned a different number of observations')
    ok = 0
    for (name, beh, _), got in zip(dumps, results):
        want = {'inst': expected_inst(FLAVOURS[name], beh), 'bld': beh[2], 'stateful': FLAVOURS[name].stateful}
        if got != want:
            chk.fail(f'{name}: (builder, instances) after {show(beh[0])} unpickled in a fresh interpreter show {got}, '
                     f'the contract demands {want}', {'kind': 'fresh', 'flavour': name, 'mode': 'direct', 'behaviour': beh})
        else:
            ok += 1
    # binding self-test of this comparison
    name, beh, _ = dumps[0]
    chk.selftest('fresh_process_comparison_detects_a_changed_param',
                 {'inst': [[b, [p[0] + 1] + p[1:], m] for b, p, m in expected_inst(FLAVOURS[name], beh)], 'bld': beh[2],
                  'stateful': FLAVOURS[name].stateful} != results[0])
    chk.validated(ok)
    chk.extra['fresh_process_unpickled'] = ok


def fresh_main(path):
    with open(path, 'rb') as fh:
        items = pickle.load(fh)
    out = []
    for _, blob in items:
        try:
            obj = cloudpickle.loads(blob)
            insts = [UNBUILT if a is None else observe_actor(a.get_params, a.apply, (1, 2)) for a in obj['inst']]
            rebuilt = obj['builder']()
            flags = {a.is_stateful() for a in obj['inst'] if a is not None} | {rebuilt.is_stateful()}
            out.append({'inst': insts, 'bld': partial(dict(obj['builder'].kwargs)),
                        'stateful': flags.pop() if len(flags) == 1 else sorted(flags)})
        except Exception as exc:  # pylint: disable=broad-except
            out.append({'error': f'{type(exc).__name__}: {exc}'})
    with open(path + '.json', 'w') as fh:
        json.dump(out, fh)


# ------------------------------------------------------------------------------------------------------------------
TRACE_NI = 3
NOOUT = {'p': [0, 0], 'm': [], 'x': 0, 'tally': 0}
NOP = [ABSENT] * len(KEYS)


def _tally(model):
    """tally flavour: what an instance shows of its model -> (trained, sum); anything else is made unequal to every expectation"""
    if model == []:
        return False, 0
    if isinstance(model, list) and len(model) == 2 and model[0] == 'sum' and isinstance(model[1], int) and abs(model[1]) < 10 ** 6:
        return True, model[1]
    return True, -1


def _events(model):
    if model[:1] == ['sum']:
        return []  # tally flavour: judged by (trained, tally), see TraceActor.tla
    ok = all(isinstance(e, list) and len(e) == 2 and isinstance(e[0], list) and isinstance(e[1], int) for e in model)
    return [{'p': e[0], 'd': e[1]} for e in model] if ok else [{'p': [-1, -1], 'd': -1}]


def record_trace(flav, mode, rnd, length, script=None, p0=None, codec=None):
    """Drive the real flavour with random enabled calls (or a fixed script); log every call with the projection of
    the real objects after it."""
    vals = (0, 1, 2, 3)
    codec = rnd.randrange(len(REPS)) if codec is None else codec
    set_codec(codec)

    def rnd_partial(allow_empty=False):
        while True:
            p = [rnd.choice(vals) if rnd.random() < 0.5 else ABSENT for _ in KEYS]
            if allow_empty or kw(p):
                return p

    if p0 is None:
        p0 = rnd_partial(True)
        if flav.needs_a:
            p0[0] = rnd.choice(vals)
    machine = MODES[mode](flav, p0, TRACE_NI)
    built, trained, snapt = [False] * TRACE_NI, [False] * TRACE_NI, [None] * TRACE_NI
    events = []
    data = (1, 2, 3)
    for step in range(length if script is None else len(script)):
        if script is not None:
            op, i, j, d, p = script[step]
        else:
            i, j, d, p = rnd.randint(1, TRACE_NI), 0, 0, NOP
            ops = ['update', 'update', 'reset', 'pickleb', 'build']
            src = []
            if built[i - 1]:
                ops += ['getstate', 'setempty', 'setparams', 'setparams', 'pickle']
                if flav.stateful:
                    ops += ['train'] * 3
                if trained[i - 1] or not flav.stateful:
                    ops += ['apply'] * 2  # what the apply of an untrained stateful actor does is outside the property
                # silent region of the property excluded: the state of an untrained twin given to a trained actor
                src = [k + 1 for k in range(TRACE_NI) if snapt[k] is not None and (snapt[k] or not trained[i - 1])]
                if src:
                    ops += ['setstate'] * 3
            op = rnd.choice(ops)
            if op in ('update', 'setparams'):
                p = rnd_partial()
            elif op == 'reset':
                p = rnd_partial(True)
                if flav.needs_a:
                    p[0] = rnd.choice(vals)
            elif op == 'build':
                p = rnd_partial(True) if rnd.random() < 0.4 else p
                if mode == 'functor':
                    # the functor object executing the instance from here on: a live one holding the same builder (every
                    # other time there is one) or a new one, named like Actor.tla names it (position of the call in hist)
                    old = machine.offers()
                    j, p = rnd.choice(old) if old and rnd.random() < 0.6 else (step + 2, p)
            elif op in ('train', 'apply'):
                d = rnd.choice(data)
            elif op == 'setstate':
                j = rnd.choice(src)
            if op in ('update', 'reset', 'pickleb'):
                i = 0
        ev = {'op': op, 'i': i, 'j': j, 'd': d, 'p': list(p), 'res': 'ok', 'out': NOOUT, 'empty': False}
        try:
            got = machine.call(op, i, j, d, p)
            if op == 'apply':
                ev['out'] = ({'p': got[0], 'm': _events(got[1]), 'x': got[2], 'tally': _tally(got[1])[1]} if got[0] != 'malformed'
                             else {'p': [-1, -1], 'm': [], 'x': 0, 'tally': -1})
            elif op == 'getstate':
                ev['empty'] = bool(got)
            obs = machine.observe(data)
            flags = machine.stateful()
            ev['bld'] = machine.kwargs()
            ev['inst'] = [{'built': o[0], 'params': o[1], 'model': _events(o[2]), 'trained': _tally(o[2])[0], 'tally': _tally(o[2])[1],
                           'stateful': (int(f[0]) if f[0] == f[1] else -1) if f else 0} for o, f in zip(obs, flags)]
        except tlc.MachineryError:
            raise
        except Exception as exc:  # pylint: disable=broad-except
            ev.update(res=type(exc).__name__, bld=NOP, what=str(exc)[:120],
                      inst=[{'built': False, 'params': [0, 0], 'model': [], 'stateful': 0, 'trained': False, 'tally': 0}] * TRACE_NI)
            events.append(ev)
            break
        events.append(ev)
        if op == 'build':
            built[i - 1], trained[i - 1] = True, False
        elif op == 'train':
            trained[i - 1] = True
        elif op == 'getstate':
            snapt[i - 1] = trained[i - 1]
        elif op == 'setstate':
            trained[i - 1] = snapt[j - 1]
    return {'ht': flav.stateful, 'bld': list(p0), 'ev': events, 'codec': codec, 'tally': flav.tally}


LEAK_SCRIPT = [('build', 1, 0, 0, NOP), ('train', 1, 0, 1, NOP), ('getstate', 1, 0, 0, NOP), ('update', 0, 0, 0, [2, ABSENT]),
               ('build', 2, 0, 0, NOP), ('setstate', 2, 1, 0, NOP), ('apply', 2, 0, 2, NOP)]


def reference_trace():
    """The conforming trace of LEAK_SCRIPT from builder(a=1), written by hand (no forml code involved)."""
    ev1 = {'p': [1, 0], 'd': 1}
    none = {'built': False, 'params': [0, 0], 'model': [], 'stateful': 0, 'trained': False, 'tally': 0}

    def inst(params, model):  # (trained, tally: read for the tally flavour only)
        return {'built': True, 'params': params, 'model': model, 'stateful': 1, 'trained': bool(model), 'tally': 0}

    after = [([1, ABSENT], [inst([1, 0], []), none, none]),
             ([1, ABSENT], [inst([1, 0], [ev1]), none, none]),
             ([1, ABSENT], [inst([1, 0], [ev1]), none, none]),
             ([2, ABSENT], [inst([1, 0], [ev1]), none, none]),
             ([2, ABSENT], [inst([1, 0], [ev1]), inst([2, 0], []), none]),
             ([2, ABSENT], [inst([1, 0], [ev1]), inst([2, 0], [ev1]), none]),
             ([2, ABSENT], [inst([1, 0], [ev1]), inst([2, 0], [ev1]), none])]
    events = []
    for (op, i, j, d, p), (bld, insts) in zip(LEAK_SCRIPT, after):
        events.append({'op': op, 'i': i, 'j': j, 'd': d, 'p': list(p), 'res': 'ok', 'empty': False, 'bld': bld, 'inst': insts,
                       'out': {'p': [2, 0], 'm': [ev1], 'x': 2, 'tally': 0} if op == 'apply' else NOOUT})
    return {'ht': True, 'bld': [1, ABSENT], 'ev': events, 'codec': 0, 'tally': False}


def trace_validation(chk):
    rnd = random.Random(chk.seed + 13)
    per, length = (12, 14) if chk.quick else (150, 18)
    traces, meta = [], []
    for name in CHECKED:
        flav = FLAVOURS[name]
        if name == 'class-plain':
            continue  # every call sequence ends at the first is_stateful(): covered by the replays
        for mode in flav.modes:
            for _ in range(per):
                traces.append(record_trace(flav, mode, rnd, length))
                meta.append((name, mode))
    # binding self-tests: (a) the contract-breaking actor recorded by the same recorder, (b) one corrupted field
    traces.append(record_trace(FLAVOURS['leaky'], 'direct', rnd, 0, script=LEAK_SCRIPT, p0=[1, ABSENT]))
    good = reference_trace()
    traces.append(good)
    bad = json.loads(json.dumps(good))
    bad['ev'][5]['inst'][1]['model'] = []  # "the transferred state was not installed"
    traces.append(bad)
    path = common.write_json({'traces': traces}, 'c13-traces.json')
    res = chk.tlc('TraceActor', 'TraceActor.cfg', workers=1, env={'TRACE_FILE': path}, coverage=False)
    verdicts = {v[0]: v for v in res.tuples('VERDICT')}
    if len(verdicts) != len(traces):
        raise tlc.MachineryError(f'expected {len(traces)} verdicts, got {len(verdicts)}')
    n = len(meta)
    if not verdicts[n + 2][1] == verdicts[n + 2][2] == 7:
        raise tlc.MachineryError(f'the hand-written reference trace was not accepted: {verdicts[n + 2]}')
    chk.selftest('trace_of_params_leaking_actor_rejected', verdicts[n + 1][1] < verdicts[n + 1][2])
    chk.selftest('trace_with_corrupted_model_rejected', verdicts[n + 3][1] == 5)
    events = 0
    for k, (name, mode) in enumerate(meta, start=1):
        _, matched, length_ = verdicts[k]
        tr = traces[k - 1]
        if matched < length_:
            ev = tr['ev'][matched]
            what = (f'{name}/{mode}: call {matched + 1} {ev["op"]}(i={ev["i"]}, j={ev["j"]}, d={ev["d"]}, p={kw(ev["p"])}) '
                    + (f'raised {ev["res"]}: {ev.get("what", "")}' if ev['res'] != 'ok' else
                       f'left builder={ev["bld"]} instances={[(o["params"], (o["trained"], o["tally"]) if tr["tally"] else o["model"]) for o in ev["inst"]]} out={ev["out"]}, '
                       'which no action of Actor.tla allows'))
            chk.fail(what, {'kind': 'trace', 'flavour': name, 'mode': mode,
                            'trace': {'ht': tr['ht'], 'bld': tr['bld'], 'ev': tr['ev'][:matched + 1], 'codec': tr['codec'], 'tally': tr['tally']}},
                     finding=known_finding(FLAVOURS[name], mode, None, matched, ev['op']))
        else:
            chk.validated()
            events += length_
    chk.extra['recorded_traces'] = {'traces': n, 'calls_validated': events, 'instances': TRACE_NI, 'values': '0..3',
                                    'per_flavour_mode': per}


# ------------------------------------------------------------------------------------------------------------------
def replay(chk, path):
    """Re-run the recorded failing input on the current code: exit 1 while it still fails."""
    with open(path) as fh:
        rep = json.load(fh)['replay']
    flav = FLAVOURS[rep['flavour']]
    print(f'flavour={rep["flavour"]} mode={rep["mode"]} kind={rep["kind"]}')
    if rep['kind'] in ('behaviour', 'fresh'):
        beh = rep['behaviour']
        print('calls:', show(beh[0]))
        print('expected [built, params, model] per instance:', beh[1], 'builder:', beh[2])
        fail = replay_one(flav, rep['mode'], beh, [1, 2])
        if rep['kind'] == 'fresh' and fail is None:
            machine = Direct(flav, beh[0][0][4], len(beh[1]))
            for op, i, j, d, p in beh[0][1:]:
                machine.call(op, i, j, d, p)
            item = os.path.join(os.getcwd(), 'one.pkl')
            with open(item, 'wb') as fh:
                pickle.dump([(rep['flavour'], machine.dump())], fh)
            subprocess.run([sys.executable, '-W', 'ignore', '-m', 'harness.drivers.C13', '--fresh', item], check=True)
            with open(item + '.json') as fh:
                got = json.load(fh)[0]
            want = {'inst': expected_inst(flav, beh), 'bld': beh[2], 'stateful': flav.stateful}
            fail = None if got == want else {'what': f'fresh interpreter shows {got}'}
        print('now:', fail['what'] if fail else 'conforms')
        return 1 if fail else 0
    trace = rep['trace']
    script = [(e['op'], e['i'], e['j'], e['d'], e['p']) for e in trace['ev']]
    now = record_trace(flav, rep['mode'], random.Random(0), 0, script=script, p0=trace['bld'], codec=trace.get('codec', 0))
    print('calls:', [(e['op'], e['i'], e['j'], e['d'], kw(e['p'])) for e in trace['ev']])
    print('recorded last call:', json.dumps(trace['ev'][-1]))
    print('now               :', json.dumps(now['ev'][-1]))
    return 1 if now['ev'][-1] == trace['ev'][-1] else 0


if __name__ == '__main__':
    if len(sys.argv) == 3 and sys.argv[1] == '--fresh':
        fresh_main(sys.argv[2])
