"""C12 - cross-validated evaluation and stacking never leak held-out data.

model:        specs/Composition.tla (fold parts Xtr/Xte/Ytr/Yte of a symbolic splitter, equations of CrossVal / HoldOut /
              FullStack) + specs/CompositionEvalMC.tla (universe, leak-freedom lemmas EvalLeakFree / StackLeakFree)
spec -> code: every evaluated pipeline is composed with the real evaluation.TrainTestScore(Function metric, CrossVal |
              HoldOut) and every stacked ensemble with the real ensemble.FullStack over symbolic actors (symbolic splitter:
              port 2i = train part, 2i+1 = test part of fold i), compiled, interpreted, and the (true, predicted) provenance
              reaching the metric / the stacked train set / the reduced apply output compared with TLC's terms.
"""
import json
import os
import random

from harness import common, pipelines, symbolic, tlc


def cfg(maxk, rich, path, chunks=32):
    with open(path, 'w') as fh:
        fh.write(f'SPECIFICATION Spec\nCONSTANTS MaxK = {maxk}\n NChunks = {chunks}\n Rich = {"TRUE" if rich else "FALSE"}\n'
                 'INVARIANT Check\nCHECK_DEADLOCK FALSE\n')
    return path


def observe(rec, tmp):
    e = rec['e']
    if rec['kind'] == 'eval':
        ev = e['kids'][1]
        target = 127 if (ev['op'] == 'crossval' and ev['k'] > 1) else 126   # reducer of the fold scores / single metric
        train, _, extra = pipelines.run_closed(e, tmp, probe=False, target=target)
        return train, None, symbolic.nonces(extra['raw_train'], 125)
    train, apply, extra = pipelines.run_closed(e, tmp)
    pos = 1 if e['op'] == 'stack' else 12
    return train, apply, symbolic.nonces(extra['raw_train'], 10 * pos + 5)


def judge(rec, train, apply):
    if train != [rec['train']]:
        return ('the provenance of the (true, predicted) data reaching the metric / of the stacked train set differs from the '
                f'leak-free denotation (observed {json.dumps(train)[:400]} expected {json.dumps(rec["train"])[:400]})')
    if rec['kind'] == 'stack' and apply != [rec['apply']]:
        return ('apply mode: the ensemble does not combine all fold models of each base learner on the same input '
                f'(observed {json.dumps(apply)[:400]} expected {json.dumps(rec["apply"])[:400]})')
    return None


def swap_fold_ports(term):
    """Corruption used by the self-test: exchange train/test parts (out index 2i+1 <-> 2i+2) everywhere."""
    if isinstance(term, dict):
        t = {k: swap_fold_ports(v) for k, v in term.items()}
        if t.get('tag') == 'out':
            t['id'] = t['id'] + 1 if t['id'] % 2 == 1 else t['id'] - 1
        return t
    if isinstance(term, list):
        return [swap_fold_ports(x) for x in term]
    return term


def main(chk):
    import logging
    logging.disable(logging.ERROR)
    rnd = random.Random(chk.seed)
    tmp = os.getcwd()
    maxk, rich = (3, True) if chk.quick else (5, True)
    res = chk.tlc('CompositionEvalMC', cfg(maxk, rich, os.path.join(tmp, 'ce.cfg')), require=['Pick'], workers=16, timeout=3000)
    recs = res.json_prints()
    if len(recs) < 100:
        raise tlc.MachineryError(f'CompositionEvalMC exported only {len(recs)} expressions')
    rnd.shuffle(recs)
    ok = {'eval': 0, 'stack': 0}
    for k, rec in enumerate(recs):
        try:
            train, apply, splitters = observe(rec, tmp)
            problem = judge(rec, train, apply)
            if not problem and len(splitters) != 1:
                problem = (f'features and labels are not split by one trained splitter: {len(splitters)} separately trained '
                           'splitter instances reach the scored / stacked data')
        except Exception as exc:  # pylint: disable=broad-except
            problem = f'composition / compilation failed: {type(exc).__name__}: {exc}'
        if problem:
            chk.fail(f'C12 {rec["kind"]} {json.dumps(rec["e"])}: {problem}', {'e': rec['e'], 'kind': rec['kind']})
        else:
            ok[rec['kind']] += 1
            if k % 97 == 0:
                chk.sample({'kind': rec['kind'], 'expression': rec['e'], 'expected_train_value': json.dumps(rec['train'])[:400] + ' ...'})
    chk.validated(sum(ok.values()))
    chk.extra['expressions'] = {'folds': f'2..{maxk}', 'generated': len(recs), 'conforming': ok}
    splitter_actor(chk, rnd, tmp)
    reducer_function(chk, rnd, tmp)
    # binding self-test (independent of the code under test): an internally consistent but leaky wiring - train and test
    # parts exchanged everywhere - is rejected by the comparison
    rec = next(r for r in recs if r['kind'] == 'eval')
    leaky = swap_fold_ports(rec['train'])
    chk.selftest('exchanged_fold_parts_rejected', judge(rec, [leaky], None) is not None and judge(rec, [rec['train']], None) is None)
    chk.assume('the splitter is symbolic: its 2k outputs are uninterpreted fold parts (port 2i train, 2i+1 test), so any splitter '
               'decision is covered; features and labels are split by forks of one trained splitter')
    chk.assume('metric and reducer are uninterpreted callables wrapped by the real evaluation.Function')


class FakeCV:
    """Cross-validator handing out the fold indices TLC chose (any index sequences)."""

    def __init__(self, pairs):
        self.pairs = pairs

    def split(self, features, labels=None, groups=None):
        import numpy
        for pair in self.pairs:
            yield numpy.array(pair['train'], dtype=int), numpy.array(pair['test'], dtype=int)

    def get_n_splits(self, features=None, labels=None, groups=None):
        return len(self.pairs)


def splitter_actor(chk, rnd, tmp):
    """Splitter.tla replayed on the real payload.PandasCVFolds (the default splitter of CrossVal, HoldOut, FullStack)."""
    import pandas
    from forml.pipeline import payload
    nrows, k = (3, 2) if chk.quick else (4, 2)
    cfg_path = os.path.join(tmp, 'sp.cfg')
    with open(cfg_path, 'w') as fh:
        fh.write(f'SPECIFICATION Spec\nCONSTANTS NRows = {nrows}\n K = {k}\nINVARIANT Synced\nINVARIANT Export\nCHECK_DEADLOCK FALSE\n')
    res = chk.tlc('Splitter', cfg_path, require=['AddFold', 'Train'], workers=8, timeout=3000)
    recs = res.json_prints()
    if not recs:
        raise tlc.MachineryError('Splitter.tla exported nothing')
    rnd.shuffle(recs)
    recs = recs[:(3000 if chk.quick else 40000)]
    features = pandas.DataFrame({'f': [100 + r for r in range(nrows)], 'g': [0] * nrows})
    labels = pandas.Series([200 + r for r in range(nrows)], name='y')
    ok = 0
    for rec in recs:
        try:
            actor = payload.PandasCVFolds.builder(crossvalidator=FakeCV(rec['cv']))()
            actor.train(features, labels)
            fparts = [list(part['f']) for part in actor.apply(features)]
            lparts = [list(part.iloc[:, 0]) if hasattr(part, 'columns') else list(part) for part in actor.apply(labels)]
            problem = None
            if fparts != rec['features']:
                problem = f'feature parts {fparts} instead of {rec["features"]}'
            elif lparts != rec['labels']:
                problem = f'label parts {lparts} instead of {rec["labels"]}'
        except Exception as exc:  # pylint: disable=broad-except
            problem = f'raised {type(exc).__name__}: {exc}'
        if problem:
            chk.fail(f'C12 PandasCVFolds with fold indices {rec["cv"]}: {problem} (port 2i must hold exactly the train part, 2i+1 the '
                     'test part of fold i, for features and labels alike)', {'kind': 'splitter', 'cv': rec['cv'], 'nrows': nrows})
        else:
            ok += 1
    chk.validated(ok)
    chk.extra['splitter_actor'] = {'rows': nrows, 'folds': k, 'cross_validators_replayed': len(recs), 'conforming': ok}


def reducer_function(chk, rnd, tmp):
    """Reducer.tla replayed on the real default reducer of the stacked ensemble (ensemble.FullStack(reducer=pandas_mean)):
    every fold model's prediction for a record is combined with the other folds' predictions for THAT record."""
    import inspect

    import pandas
    from forml.pipeline import ensemble
    reducer = inspect.signature(ensemble.FullStack.__init__).parameters['reducer'].default
    nrows, nfolds = (3, 2) if chk.quick else (3, 3)
    cfg_path = os.path.join(tmp, 'rd.cfg')
    with open(cfg_path, 'w') as fh:
        fh.write(f'SPECIFICATION Spec\nCONSTANTS NRows = {nrows}\n NFolds = {nfolds}\n Values = {{1, 4}}\nINVARIANT Combined\n'
                 'INVARIANT Export\nCHECK_DEADLOCK FALSE\n')
    res = chk.tlc('Reducer', cfg_path, require=['AddRow'], workers=4, timeout=3000)
    recs = res.json_prints()
    if not recs:
        raise tlc.MachineryError('Reducer.tla exported nothing')
    ok = 0
    for rec in recs:
        want = [s / nfolds for s in rec['sums']]
        try:
            folds = [pandas.Series(p, index=rec['labels'], name='prediction', dtype=float) for p in rec['preds']]
            out = reducer(*folds)
            got = [float(x) for x in (out.iloc[:, 0] if hasattr(out, 'columns') else out)]
            idx = [int(x) for x in out.index]
            problem = None
            if got != want:
                problem = f'reduced to {got} instead of {want}'
            elif idx != rec['labels']:
                problem = f'output records labelled {idx} instead of {rec["labels"]}'
        except Exception as exc:  # pylint: disable=broad-except
            problem = f'raised {type(exc).__name__}: {exc}'
        if problem:
            chk.fail(f'C12 default stacking reducer on fold predictions {rec["preds"]} of records labelled {rec["labels"]}: {problem} '
                     '(row i must be the mean of all fold models for record i)', {'kind': 'reducer', 'rec': rec})
        else:
            ok += 1
    chk.validated(ok)
    chk.extra['reducer_function'] = {'rows': nrows, 'folds': nfolds, 'inputs_replayed': len(recs), 'conforming': ok}
    # the same law for the scores of a cross-validated evaluation: the default reducer of evaluation.Function combines the
    # scores of ALL folds, each exactly once - also a fold that scored 0
    from forml import evaluation
    score_reducer = inspect.signature(evaluation.Function.__init__).parameters['reducer'].default
    scored = 0
    for folds in (2, 3, 4):
        with open(cfg_path, 'w') as fh:
            fh.write(f'SPECIFICATION Spec\nCONSTANTS NRows = 1\n NFolds = {folds}\n Values = {{0, 1, 4}}\nINVARIANT Combined\n'
                     'INVARIANT Export\nCHECK_DEADLOCK FALSE\n')
        for rec in chk.tlc('Reducer', cfg_path, require=['AddRow'], workers=2, timeout=3000).json_prints():
            scores = [p[0] for p in rec['preds']]
            want = rec['sums'][0] / folds
            try:
                got = float(score_reducer(*[float(x) for x in scores]))
                problem = None if abs(got - want) < 1e-9 else f'reduced to {got} instead of {want}'
            except Exception as exc:  # pylint: disable=broad-except
                problem = f'raised {type(exc).__name__}: {exc}'
            if problem:
                chk.fail(f'C12 default metric reducer on fold scores {scores}: {problem} (every fold contributes exactly once)',
                         {'kind': 'reducer', 'rec': rec})
            else:
                scored += 1
    chk.validated(scored)
    chk.extra['reducer_function']['fold_score_vectors'] = scored


def replay(chk, path):
    with open(path) as fh:
        rep = json.load(fh)['replay']
    if rep.get('kind') in ('splitter', 'reducer'):
        print(json.dumps(rep))
        return 1
    train, apply, _ = observe({'e': rep['e'], 'kind': rep['kind']}, os.getcwd())
    print(json.dumps({'train': train, 'apply': apply}, indent=1))
    return 1
