"""C05 - registry history is append-only, gap-free and crash-consistent.

model:        specs/RegistryImpl.tla (the posix protocol step by step, crash between any two file-system operations and
              inside a metadata write; invariants Consistent, ViewIsHistory, AppendOnly, OneAtATime) for the protocol of
              the code ("atomic") and, as a self-test, the in-place protocol which TLC must refute;
              specs/RegistryOps.tla (generator of histories with one crashed operation)
code -> spec: every generated history is replayed on the real posix.Registry / asset.Directory with a crash injected at
              EVERY file-system event of the marked operation (audit hook) and inside every metadata write (io.open
              wrapper); after each operation and each crash a fresh reader's view is recorded; specs/TraceRegistry.tla
              decides whether each view is the committed history (old or complete new item, nothing unreadable).
"""
import datetime
import hashlib
import json
import os
import pathlib
import random
import shutil
import tempfile

from harness import common, fsfault, tlc

PROJECT = 'prj'
SHM = '/dev/shm' if os.path.isdir('/dev/shm') and os.access('/dev/shm', os.W_OK) else None


def cfg_impl(nr, maxgen, maxstates, maxops, protocol, path):
    with open(path, 'w') as fh:
        fh.write(f'SPECIFICATION Spec\nCONSTANTS NR = {nr}\n MaxGen = {maxgen}\n MaxStates = {maxstates}\n MaxOps = {maxops}\n'
                 f' Protocol = "{protocol}"\nINVARIANT Consistent\nINVARIANT ViewIsHistory\nPROPERTY AppendOnly\nPROPERTY OneAtATime\n'
                 'CHECK_DEADLOCK FALSE\n')
    return path


def cfg_ops(nr, maxgen, maxstates, length, path):
    with open(path, 'w') as fh:
        fh.write(f'SPECIFICATION Spec\nCONSTANTS NR = {nr}\n MaxGen = {maxgen}\n MaxStates = {maxstates}\n Len0 = {length}\n'
                 'CONSTRAINT Bound\nINVARIANT Export\nCHECK_DEADLOCK FALSE\n')
    return path


# ------------------------------------------------------------------------------------------------ packages
MANIFEST = "NAME = '{name}'\nVERSION = '{version}'\nPACKAGE = 'app'\nMODULES = {{}}\n"
SOURCE_PY = '''from forml import project
from forml.io import dsl
class T(dsl.Schema):
    x = dsl.Field(dsl.Integer())
project.setup(project.Source.query(T))
'''
PIPELINE_PY = '''from forml import flow, project
class Op(flow.Operator):
    def compose(self, scope):
        return scope.expand()
project.setup(Op())
'''


# abstract release v (1..NR, the order the model talks about) -> concrete PEP 440 version: every chain is strictly increasing in
# the order release keys are documented to have; histories are spread over the chains (integers, dev/pre/post releases of
# one final version, numeric versus lexicographic components)
CHAINS = (('1', '2', '3'), ('0.3.dev1', '0.3', '0.3.post1'), ('1.0a1', '1.0rc1', '1.0'), ('2.0.dev1', '2.0.dev2', '2.0'),
          ('1.2', '1.10', '2.0.dev3'))
CHAIN = [0]


def ver(v):
    return CHAINS[CHAIN[0]][v - 1]


def abstract_release(key):
    """Listed release key -> abstract release number (0 = a release nobody published)."""
    text = str(key)
    return CHAINS[CHAIN[0]].index(text) + 1 if text in CHAINS[CHAIN[0]] else 0


class Packages:
    """One directory package and one file (.4ml) package per release version and chain, built once."""

    def __init__(self, base, nr):
        from forml import project
        self.items = {}
        for c, chain in enumerate(CHAINS):
            for n in range(1, nr + 1):
                self._build(base, project, c, n, chain[n - 1])

    def _build(self, base, project, c, n, v):
        if True:
            src = pathlib.Path(base) / f'src{c}-{n}'
            (src / 'app').mkdir(parents=True)
            (src / 'app' / '__init__.py').write_text('')
            (src / 'app' / 'source.py').write_text(SOURCE_PY)
            (src / 'app' / 'pipeline.py').write_text(PIPELINE_PY)
            (src / '__4ml__.py').write_text(MANIFEST.format(name=PROJECT, version=v))
            directory = project.Package(src)
            archive = project.Package.create(src, project.Manifest(PROJECT, str(v), 'app'), pathlib.Path(base) / f'pkg{c}-{n}.4ml')
            self.items[(c, n)] = (directory, archive)

    def get(self, v, form):
        return self.items[(CHAIN[0], v)][form % 2]


# ------------------------------------------------------------------------------------------------ real operations
def fresh(root):
    from forml.io import asset
    from forml.io.asset._directory.level import major, minor
    from forml.provider.registry.filesystem import posix
    for cache in (minor.TAGS, minor.STATES, major.ARTIFACTS):
        cache.clear()
    return asset.Directory(posix.Registry(root))


class Ids:
    """Opaque content identifiers (small ints) by first appearance."""

    def __init__(self):
        self.ids = {}

    def __call__(self, data):
        key = hashlib.sha1(data).hexdigest()
        return self.ids.setdefault(key, len(self.ids) + 1)


def view(root, nr, ids):
    """What a fresh reader sees, through the public asset API (+ the raw tag bytes for byte-identity)."""
    from forml import project as prj
    directory = fresh(root)
    rels, pkgok, gens = [], [], [[] for _ in range(nr)]
    try:
        projects = [str(p) for p in directory.list()]
    except Exception:  # pylint: disable=broad-except
        projects = []
    if PROJECT not in projects:
        listed = []
        # a project is listed iff it has a valid release; still look below for half-written content
    project = directory.get(PROJECT)
    try:
        listed = sorted(abstract_release(r) for r in project.list())
    except Exception:  # pylint: disable=broad-except
        listed = []
    for r in listed:
        rels.append(r)
        if r == 0:          # a release that was never published is listed: no package, no generations to look at
            pkgok.append(False)
            continue
        try:
            package = directory.registry.pull(PROJECT, project.get(ver(r)).key)
            ok = str(package.manifest.version) == ver(r) and package.manifest.name == PROJECT
        except Exception:  # pylint: disable=broad-except
            ok = False
        pkgok.append(ok)
        release = project.get(ver(r))
        try:
            numbers = [int(g) for g in release.list()]
        except Exception:  # pylint: disable=broad-except
            numbers = [-1]
        for n in numbers:
            entry = {'n': n, 'ok': False, 'states': [], 'tag': 0}
            try:
                generation = release.get(n)
                tag = generation.tag
                entry['tag'] = ids((pathlib.Path(root) / PROJECT / ver(r) / str(n) / 'tag.toml').read_bytes())
                states = []
                for i in range(len(tag.states)):
                    data = generation.get(i)
                    states.append(ids(data) if data else -1)
                entry['states'] = states
                entry['ok'] = bool(tag.training)
            except Exception:  # pylint: disable=broad-except
                entry['ok'] = False
            gens[r - 1].append(entry)
    return {'rels': rels, 'pkgok': pkgok, 'gens': gens}


HANDLES = {}


def handle(root, index):
    """Long-lived registry handles (client objects that stay around between operations, as in a service or a notebook)."""
    from forml.io import asset
    from forml.provider.registry.filesystem import posix
    key = (root, index)
    if key not in HANDLES:
        directory = asset.Directory(posix.Registry(root))
        HANDLES[key] = {'dir': directory, 'levels': {}}
    return HANDLES[key]


def do_op(root, ev, packages, counter, ids, form, held=None):
    """Execute one operation through the public asset API. Returns (result class, written state ids).
    held = index of a long-lived handle to go through (level objects are kept and re-used), None = fresh objects."""
    from forml.io import asset
    if held is None:
        directory = fresh(root)
        get_release = lambda v: directory.get(PROJECT).get(ver(v))
    else:
        box = handle(root, held)
        directory = box['dir']

        def get_release(v):
            if v not in box['levels']:
                box['levels'][v] = directory.get(PROJECT).get(ver(v))
            release = box['levels'][v]
            try:
                list(release.list())      # a client looking at what is there before it acts
            except Exception:  # pylint: disable=broad-except
                pass
            return release
    written = []
    if ev['op'] == 'publish':
        try:
            directory.get(PROJECT).put(packages.get(ev['v'], form))
        except asset.Level.Invalid:
            return 'rejected', written
        return 'ok', written
    release = get_release(ev['v'])
    try:
        release.key
    except asset.Level.Invalid:      # the release does not exist (its publication was refused or crashed)
        return 'rejected', written
    sids = []
    for _ in range(ev['n']):
        counter[0] += 1
        data = f'state-{counter[0]}'.encode()
        written.append(ids(data))
        sids.append(release.dump(data))
    counter[1] += 1  # every training run has its own timestamp / ordinal, so every tag is distinguishable
    tag = asset.Tag(training=asset.Tag.Training(datetime.datetime(2024, 1, 1) + datetime.timedelta(seconds=counter[1]), counter[1]),
                    states=sids)
    release.put(tag)
    if held is not None:
        try:
            list(release.list())          # ... and looking at the result afterwards
        except Exception:  # pylint: disable=broad-except
            pass
    return 'ok', written


def replay_history(hist, nr, packages, base, crash_event=None, crash_write=None, form=0, handles=0, chain=0):
    """Replay one history; the operation marked `crash` dies at the given event / write. Returns (trace, #events, #writes)."""
    root = tempfile.mkdtemp(prefix='reg-', dir=base)
    CHAIN[0] = chain
    ids, counter, trace = Ids(), [0, 0], []
    nev = nwr = 0
    try:
        for ev in hist:
            written = []
            if ev['crash']:
                fsfault.arm(root, crash_event, crash_write)
                try:
                    res, written = do_op(root, ev, packages, counter, ids, form)
                    if crash_event is not None or crash_write is not None:
                        res = 'crash-missed'
                except Exception as exc:  # pylint: disable=broad-except
                    res = f'error-{type(exc).__name__}'    # an operation failing for another reason: no step of the spec
                except fsfault.Crash:
                    res = 'crash'
                    written = [ids(f'state-{i}'.encode()) for i in range(counter[0] - ev['n'] + 1, counter[0] + 1)] if ev['op'] == 'train' else []
                finally:
                    events, nwr = fsfault.disarm()
                    nev = len(events)
            else:
                try:
                    held = None if not handles else len(trace) % handles      # A, B, A, B ...
                    res, written = do_op(root, ev, packages, counter, ids, form, held)
                except Exception as exc:  # pylint: disable=broad-except
                    res = f'error-{type(exc).__name__}'
            trace.append({'op': ev['op'], 'v': ev['v'], 'r': ev['v'], 'n': ev['n'], 'res': res if res != 'crash-missed' else 'ok',
                          'written': written, 'view': view(root, nr, ids)})
    finally:
        shutil.rmtree(root, ignore_errors=True)
        for key in [k for k in HANDLES if k[0] == root]:
            del HANDLES[key]
    return trace, nev, nwr


def main(chk):
    import logging
    logging.disable(logging.ERROR)
    rnd = random.Random(chk.seed)
    tmp = os.getcwd()
    base = tempfile.mkdtemp(prefix='c05-', dir=SHM or tmp)
    try:
        run(chk, rnd, tmp, base)
    finally:
        shutil.rmtree(base, ignore_errors=True)


def run(chk, rnd, tmp, base):
    nr, maxgen, maxstates = (2, 2, 2) if chk.quick else (3, 3, 2)
    # ---- 1. model level: the protocol of the code survives every crash point; the in-place protocol does not
    chk.tlc('RegistryImpl', cfg_impl(nr, maxgen, maxstates, 4 if chk.quick else 5, 'atomic', os.path.join(tmp, 'ri.cfg')),
            require=['PubCreate', 'PubWrite', 'PubRename', 'StageCreate', 'StageWrite', 'Put', 'Move', 'TagCreate', 'TagWrite',
                     'TagRename', 'Crash'], workers=16, timeout=3000)
    res = chk.tlc('RegistryImpl', cfg_impl(2, 2, 1, 2, 'inplace', os.path.join(tmp, 'ri0.cfg')), expect_ok=False, workers=4)
    chk.selftest('model_refutes_in_place_writes', res.violated == 'Consistent')
    # extension beyond the listed property (reported, never a verdict): two concurrent trainers lose a commit
    ext = chk.tlc('RegistryConcurrent', 'RegistryConcurrent.cfg', expect_ok=False, workers=4)
    chk.extra['extension_two_concurrent_trainers'] = {'violated': ext.violated, 'states': ext.distinct,
                                                        'meaning': 'design-level race of Release.put (list, then close): not part of C05'}
    # ---- 2. histories
    length = 4 if chk.quick else 5
    res = chk.tlc('RegistryOps', cfg_ops(nr, maxgen, maxstates, length, os.path.join(tmp, 'ro.cfg')), require=['Publish', 'Train'], workers=4)
    histories = res.json_prints()
    if not histories:
        raise tlc.MachineryError('RegistryOps exported nothing')
    rnd.shuffle(histories)
    histories = histories[:(150 if chk.quick else 1500)]
    packages = Packages(base, nr)
    traces, meta = [], []
    for h, hist in enumerate(histories):
        form = h % 2
        chain = (h // 2) % len(CHAINS)
        dry, nev, nwr = replay_history(hist, nr, packages, base, None, None, form, chain=chain)
        traces.append(dry)
        meta.append({'hist': hist, 'crash': None, 'form': form, 'chain': chain})
        for handles in (1, 2):        # the same history through one / two long-lived client handles
            tr, _, _ = replay_history(hist, nr, packages, base, None, None, form, handles=handles, chain=chain)
            traces.append(tr)
            meta.append({'hist': hist, 'crash': None, 'form': form, 'handles': handles, 'chain': chain})
        for k in range(1, nev + 1):
            tr, _, _ = replay_history(hist, nr, packages, base, k, None, form, chain=chain)
            traces.append(tr)
            meta.append({'hist': hist, 'crash': ['event', k], 'form': form, 'chain': chain})
        for k in range(1, nwr + 1):
            tr, _, _ = replay_history(hist, nr, packages, base, None, k, form, chain=chain)
            traces.append(tr)
            meta.append({'hist': hist, 'crash': ['write', k], 'form': form, 'chain': chain})
    # binding self-test: a generation whose tag lists a state that is gone must be rejected by the trace spec
    bad = json.loads(json.dumps(next(t for t in traces if any(e['op'] == 'train' and e['res'] == 'ok' and e['n'] > 0 for e in t))))
    for e in bad:
        for gens in e['view']['gens']:
            for g in gens:
                if g['states']:
                    g['states'][0] = -1
    traces.append(bad)
    path = common.write_json({'nr': nr, 'traces': traces}, 'c05-traces.json')
    res = chk.tlc('TraceRegistry', 'TraceRegistry.cfg', workers=1, env={'TRACE_FILE': path}, coverage=False, timeout=3000)
    verdicts = {v[0]: v for v in res.tuples('VERDICT')}
    if len(verdicts) != len(traces):
        raise tlc.MachineryError(f'TraceRegistry: {len(verdicts)} verdicts for {len(traces)} traces')
    chk.selftest('missing_state_rejected', verdicts[len(traces)][1] < verdicts[len(traces)][2])
    ok = crashes = 0
    for i, m in enumerate(meta, start=1):
        _, matched, total = verdicts[i]
        if matched < total:
            ev = traces[i - 1][matched]
            chk.fail(f'C05 history {[(e["op"], e["v"], e["n"], e["crash"]) for e in m["hist"]]} crash={m["crash"]} package form={m["form"]} versions={list(CHAINS[m["chain"]])}: '
                     f'after step {matched + 1} ({ev["op"]} -> {ev["res"]}) a fresh reader sees {json.dumps(ev["view"])[:400]} - neither '
                     'the previous content nor the complete new item', {'hist': m['hist'], 'crash': m['crash'], 'form': m['form'], 'handles': m.get('handles', 0), 'chain': m['chain']})
        else:
            ok += 1
            crashes += 1 if m['crash'] else 0
            if i % 211 == 1:
                chk.sample({'history': [(e['op'], e['v'], e['n'], e['crash']) for e in m['hist']], 'crash_point': m['crash'],
                            'final_view': traces[i - 1][-1]['view']})
    chk.validated(ok)
    chk.extra['replays'] = {'histories': len(histories), 'replays': len(meta), 'with_crash': sum(1 for m in meta if m['crash']),
                            'accepted': ok, 'accepted_with_crash': crashes}
    chk.assume('a crash is a BaseException raised before the k-th mutating file-system call (audit hook) or at the first write() of '
               'the k-th file opened for writing; the registry is then read by a fresh Directory with forml\'s asset caches cleared')
    chk.assume('single writer; concurrent writers are outside the listed property')


def replay_cmd(chk, path):
    rep = json.load(open(path))['replay']
    base = tempfile.mkdtemp(prefix='c05-', dir=SHM or os.getcwd())
    nr = max([e['v'] for e in rep['hist']] + [2])
    packages = Packages(base, nr)
    ce = rep['crash'][1] if rep['crash'] and rep['crash'][0] == 'event' else None
    cw = rep['crash'][1] if rep['crash'] and rep['crash'][0] == 'write' else None
    tr, nev, nwr = replay_history(rep['hist'], nr, packages, base, ce, cw, rep['form'], handles=rep.get('handles', 0), chain=rep.get('chain', 0))
    for e in tr:
        print(e['op'], e['v'], e['n'], e['res'], json.dumps(e['view']))
    shutil.rmtree(base, ignore_errors=True)
    return 1


def replay(chk, path):
    return replay_cmd(chk, path)
