"""C20 - configuration layering (Config.update/merge/read, section resolution) and provider Bank registration/lookup.

model:        specs/Config.tla (+ConfigOps.tla): every stack of sources inside the constants, one invariant per clause,
              as-is recursive merge == requirement-level denotation; specs/Bank.tla (requirement machine) and
              specs/BankImpl.tla (as-is per-interface banks in lock step): every hierarchy inside the constants, every
              registration / import order, lazy discovery.
spec -> code: every complete stack exported by Config.tla replayed on the real forml.setup Config (update / kwargs /
              TOML files / read); every behaviour exported by Bank.tla replayed on real provider classes created under
              a fresh abstract root per scenario (direct class creation incl. collisions; modules materialised on a
              temp sys.path for import orders and lazy discovery) and the whole lookup table compared - including
              the references nobody provides in every shape Bank!URefs lists (module path absent at the leaf / at a
              parent package / at the top, or installed without such a provider; plain and dotted aliases), concretised
              against a small installed module tree, with and without an uninstalled search path on the interface;
              every abstract class is abstract in one of the ways of Bank!AbsWays (own abstract method / inherited
              one left unimplemented / abstract inner class), drawn per class.
code -> spec: randomised deeper stacks and section resolutions validated by specs/TraceConfig.tla, randomised larger
              hierarchies with interleaved lookups validated by specs/TraceBank.tla.
"""
import abc
import collections.abc
import importlib
import itertools
import json
import multiprocessing
import os
import pathlib
import random
import shutil
import sys
import tempfile

from harness import common, tlc

MOD = __name__  # module name given to directly created provider classes (importable, so lazy imports are no-ops)
FINDING = 'bank-partial-registration'

# ---------------------------------------------------------------------------------------------------------------------
# abstract <-> concrete values (configuration)
SC = {1: 1, 2: 'two', 3: 2.5, 4: True, 5: ''}  # scalar codes
EL = {11: 'x', 12: 'y', 13: 'z', 14: 7, 15: 'two', 16: 2.5}  # list element codes (no bool: True == 1 in python)
SC_R = {(type(v).__name__, v): k for k, v in SC.items()}
EL_R = {(type(v).__name__, v): k for k, v in EL.items()}


def nest(entries, sc=None, el=None):
    """flat prefix-free table -> nested python mapping (concretisation)"""
    sc, el = sc or SC, el or EL
    out = {}
    for e in entries:
        cur = out
        for key in e['p'][:-1]:
            cur = cur.setdefault(key, {})
        v = e['v']
        cur[e['p'][-1]] = sc[v['s']] if v['k'] == 's' else [el[x] for x in v['l']] if v['k'] == 'l' else {}
    return out


def flat(mapping, sc_r=None, el_r=None, prefix=()):
    """nested mapping (public Mapping / sequence protocol only) -> canonical flat table (projection)"""
    sc_r, el_r = sc_r or SC_R, el_r or EL_R
    out = []
    for key, val in mapping.items():
        path = (*prefix, key)
        if isinstance(val, collections.abc.Mapping):
            sub = flat(val, sc_r, el_r, path)
            out += sub or [{'p': list(path), 'v': {'k': 'e', 's': 0, 'l': []}}]
        elif isinstance(val, (list, tuple)):
            out.append({'p': list(path), 'v': {'k': 'l', 's': 0, 'l': [_code(el_r, x) for x in val]}})
        else:
            out.append({'p': list(path), 'v': {'k': 's', 's': _code(sc_r, val), 'l': []}})
    return sorted(out, key=lambda e: e['p'])


def _code(table, val):
    """dictionary code of a python value; 99999 for a value no source ever contained"""
    try:
        return table.get((type(val).__name__, val), 99999)
    except TypeError:  # unhashable
        return 99999


def canon(entries):
    return sorted(({'p': list(e['p']), 'v': {'k': e['v']['k'], 's': e['v']['s'], 'l': list(e['v']['l'])}} for e in entries),
                  key=lambda e: e['p'])


def toml_inline(val):
    if isinstance(val, bool):
        return 'true' if val else 'false'
    if isinstance(val, (int, float)):
        return repr(val)
    if isinstance(val, str):
        return json.dumps(val)
    if isinstance(val, (list, tuple)):
        return '[' + ', '.join(toml_inline(v) for v in val) + ']'
    return '{' + ', '.join(f'{k} = {toml_inline(v)}' for k, v in val.items()) + '}'


def toml_text(mapping, style):
    """two spellings of the same document: inline tables, or [header] tables"""
    if style == 0:
        return ''.join(f'{k} = {toml_inline(v)}\n' for k, v in mapping.items())
    lines = []

    def emit(path, table):
        scalars = [(k, v) for k, v in table.items() if not isinstance(v, dict)]
        subs = [(k, v) for k, v in table.items() if isinstance(v, dict)]
        if path and (scalars or not subs):
            lines.append('[' + '.'.join(path) + ']')
        lines.extend(f'{k} = {toml_inline(v)}' for k, v in scalars)
        for k, v in subs:
            emit((*path, k), v)

    emit((), mapping)
    return '\n'.join(lines) + '\n'


# ---------------------------------------------------------------------------------------------------------------------
# configuration layering
def config_cfg(path, paths, leaves, assign, depth, export):
    with open(path, 'w') as fh:
        fh.write(f'SPECIFICATION Spec\nCONSTANTS Paths <- {paths}\n Leaves <- {leaves}\n MaxAssign = {assign}\n'
                 f' MaxStack = {depth}\n DoExport = {"TRUE" if export else "FALSE"}\n'
                 'INVARIANT WellFormed\nINVARIANT LaterOverrides\nINVARIANT UnrelatedSurvive\nINVARIANT ListsNewFirst\n'
                 'INVARIANT NothingInvented\nINVARIANT Denotation\nINVARIANT Lemmas\nINVARIANT Export\n'
                 'CHECK_DEADLOCK FALSE\n')
    return path


MODES = ('update', 'kwargs', 'files', 'read', 'pairs')
AUX = {'sources_mismatch': 0}


def run_stack(stack, mode, tmp, style=0):
    """Apply the sources of `stack` (nested mappings) to a fresh real Config in the given manner; return
    [(number of sources applied, projected content)] after every observable step."""
    from forml.setup import _conf  # the anchored module; forml.setup exports only the CONFIG instance
    trail = []
    if mode == 'update':
        cfg = _conf.Config(stack[0])
        trail.append((1, flat(cfg)))
        for i, src in enumerate(stack[1:], start=2):
            cfg.update(src)
            trail.append((i, flat(cfg)))
    elif mode == 'kwargs':
        cfg = _conf.Config({})
        for i, src in enumerate(stack, start=1):
            cfg.update(**src)
            trail.append((i, flat(cfg)))
    elif mode == 'pairs':  # update(other, **kwargs): kwargs are the later source
        cfg = _conf.Config({})
        i = 0
        while i < len(stack):
            if i + 1 < len(stack):
                cfg.update(stack[i], **stack[i + 1])
                i += 2
            else:
                cfg.update(stack[i])
                i += 1
            trail.append((i, flat(cfg)))
    else:
        files = []
        for i, src in enumerate(stack):
            path = pathlib.Path(tmp) / f'l{i}.toml'
            path.write_text(toml_text(src, (style + i) % 2))
            files.append(path)
        if mode == 'files':  # constructor: defaults, then the files in order
            cfg = _conf.Config(stack[0], *files[1:])
            trail.append((len(stack), flat(cfg)))
        else:  # read(): a missing file is skipped and changes nothing
            cfg = _conf.Config({})
            missing = pathlib.Path(tmp) / 'absent.toml'
            for i, path in enumerate(files, start=1):
                cfg.read(path)
                cfg.read(missing)
                trail.append((i, flat(cfg)))
            if tuple(cfg.sources) != tuple(files):
                AUX['sources_mismatch'] += 1  # auxiliary observation (the property does not mention `sources`)
    return trail


def config_worker(args):
    _, items, sdir = args
    out = []
    for n, vec, modes in items:
        stack = [canon(x) for x in vec['stack']]
        want = [canon(t) for t in vec['trail']]
        nested = [nest(x) for x in stack]
        if any(flat(nst) != src for nst, src in zip(nested, stack)):
            raise tlc.MachineryError(f'translator round trip failed on {stack}')
        res = []
        for mode in modes:
            try:
                trail = run_stack(nested, mode, sdir, style=n)
            except Exception as exc:  # pylint: disable=broad-except
                res.append((mode, 'raised', f'{type(exc).__name__}: {exc}'))
                continue
            if all(got == want[i - 1] for i, got in trail):
                res.append((mode, 'ok', trail[-1][1] if n % 4999 == 0 else None))
            else:
                res.append((mode, 'obs', {'kind': 'merge', 'stack': stack, 'steps': [i for i, _ in trail],
                                          'trail': [t for _, t in trail]}))
        out.append(res)
    return out


def random_table(rnd, depth, keys):
    out = {}
    for key in rnd.sample(keys, rnd.randint(1, len(keys))):
        kind = rnd.choice('ssllt' if depth > 1 else 'ssll') if rnd.random() < 0.93 else 'e'
        if kind == 's':
            out[key] = SC[rnd.choice(list(SC))]
        elif kind == 'l':
            out[key] = [EL[c] for c in rnd.sample(list(EL), rnd.randint(0, 3))]  # duplicate-free (see ConfigOps!WF)
        elif kind == 't':
            out[key] = random_table(rnd, depth - 1, keys)
        else:
            out[key] = {}
    return out


def config_part(chk, rnd, tmp):
    # ---- model: every clause for every stack inside the constants
    if chk.quick:
        runs = [('P4', 'L7', 1, 3, True), ('P6', 'L4', 2, 2, True)]
    else:
        runs = [('P6', 'L7', 1, 3, True), ('P6', 'L7', 2, 2, True), ('P4', 'L4', 1, 4, False)]
    vectors = []
    for n, (paths, leaves, assign, depth, export) in enumerate(runs):
        res = chk.tlc('Config', config_cfg(os.path.join(tmp, f'cfg{n}.cfg'), paths, leaves, assign, depth, export),
                      require=['Update'], workers=4 if chk.quick else 8)
        got = res.json_prints()
        if export and not got:
            raise tlc.MachineryError('Config.tla exported no stack')
        vectors += got
    chk.extra['config_model'] = {'runs': [dict(zip(('paths', 'leaves', 'assignments_per_source', 'sources', 'exported'), r))
                                          for r in runs], 'exported_stacks': len(vectors)}

    # ---- spec -> code: replay every exported stack, results after every step against TLC's values
    batch, meta = [], []
    items = []
    for n, vec in enumerate(vectors):
        if chk.quick:  # one manner per stack; the file-based ones (slow) for every tenth stack
            modes = (('files', 'read')[n // 10 % 2],) if n % 10 == 0 else (('update', 'kwargs', 'pairs')[n % 3],)
        else:  # every manner for every twentieth stack, one for the others
            modes = MODES if n % 20 == 0 else (MODES[n % len(MODES)],)
        items.append((n, vec, modes))
    procs = 1 if chk.quick else 4
    sdirs = [tempfile.mkdtemp(prefix='cfgfiles-', dir=tmp) for _ in range(procs)]
    replayed = 0
    for (n, vec, modes), outcomes in zip(items, fan_out(config_worker, 'c', items, procs, dirs=sdirs)):
        for mode, kind, payload in outcomes:
            if kind == 'ok':
                chk.validated()
                replayed += 1
                if n % 4999 == 0:
                    chk.sample({'config_stack': [nest(canon(x)) for x in vec['stack']], 'mode': mode, 'result': nest(payload)})
            elif kind == 'raised':
                chk.fail(f'Config ({mode}) raised {payload} on a valid stack',
                         {'kind': 'merge', 'stack': [canon(x) for x in vec['stack']], 'mode': mode})
            else:  # not literally TLC's value: the requirement-level relation decides
                batch.append(payload)
                meta.append({'kind': 'merge', 'stack': payload['stack'], 'mode': mode, 'exported': True})
    chk.extra['config_exported_replays'] = replayed
    sdir = sdirs[0]

    # ---- code -> spec: deeper / wider random stacks
    count = 1500 if chk.quick else 20000
    keys = ['a', 'b', 'c']
    for n in range(count):
        nested = [random_table(rnd, rnd.randint(1, 3 if chk.quick else 4), keys) for _ in range(rnd.randint(1, 4))]
        mode = MODES[n % len(MODES)]
        stack = [flat(s) for s in nested]
        try:
            trail = run_stack(nested, mode, sdir, style=n)
        except Exception as exc:  # pylint: disable=broad-except
            chk.fail(f'Config ({mode}) raised {type(exc).__name__}: {exc} on a valid stack',
                     {'kind': 'merge', 'stack': stack, 'mode': mode})
            continue
        batch.append({'kind': 'merge', 'stack': stack, 'steps': [i for i, _ in trail], 'trail': [t for _, t in trail]})
        meta.append({'kind': 'merge', 'stack': stack, 'mode': mode, 'exported': False})
    for path in sdirs:
        shutil.rmtree(path, ignore_errors=True)

    # ---- section resolution observations
    sec_batch, sec_meta = section_observations(chk, rnd)
    batch += sec_batch
    meta += sec_meta

    # ---- binding self-tests: corrupted observations must be rejected by the specification
    x, y, z = EL[11], EL[12], EL[13]
    base = [flat({'a': {'b': [x, y], 'c': 1}, 'b': 1}), flat({'a': {'b': [y, z], 'c': 'two'}})]
    good = flat({'a': {'b': [y, z, x], 'c': 'two'}, 'b': 1})
    corrupt = {
        'left_wins': flat({'a': {'b': [y, z, x], 'c': 1}, 'b': 1}),
        'old_first_list': flat({'a': {'b': [x, y, z], 'c': 'two'}, 'b': 1}),
        'unrelated_key_lost': flat({'a': {'b': [y, z, x], 'c': 'two'}}),
        'duplicate_kept': flat({'a': {'b': [y, z, x, y], 'c': 'two'}, 'b': 1}),
    }
    first = len(batch)
    batch.append({'kind': 'merge', 'stack': base, 'steps': [2], 'trail': [good]})
    for bad in corrupt.values():
        batch.append({'kind': 'merge', 'stack': base, 'steps': [2], 'trail': [bad]})
    sec_good, sec_bad = section_selftest()
    batch += [sec_good, sec_bad]

    verdicts = []
    size = 4000
    for lo in range(0, len(batch), size):
        path = common.write_json({'obs': batch[lo:lo + size]}, f'c20-config-{lo}.json')
        res = chk.tlc('TraceConfig', 'TraceConfig.cfg', workers=1, env={'TRACE_FILE': path}, coverage=False,
                      timeout=1200)
        got = {v[0]: v for v in res.tuples('VERDICT')}
        if len(got) != len(batch[lo:lo + size]):
            raise tlc.MachineryError(f'TraceConfig: expected {len(batch[lo:lo + size])} verdicts, got {len(got)}')
        verdicts += [got[i + 1] for i in range(len(got))]
    ok = lambda v: v[1] == v[2]  # noqa: E731
    if not ok(verdicts[first]) or not ok(verdicts[first + len(corrupt) + 1]):
        raise tlc.MachineryError('TraceConfig rejected a correct control observation')
    for k, name in enumerate(corrupt, start=1):
        chk.selftest(f'config_{name}_rejected', not ok(verdicts[first + k]))
    chk.selftest('section_wrong_provider_rejected', not ok(verdicts[first + len(corrupt) + 2]))

    drift = 0
    for m, v, obs in zip(meta, verdicts, batch):
        if ok(v):
            chk.validated()
            drift += v[3]
            if m['kind'] == 'resolve' and v[0] % 97 == 0:
                chk.sample({'section': m['what'], 'outcome': m['outcome']})
            continue
        if m['kind'] == 'merge':
            step = obs['steps'][v[1]]
            chk.fail(f'Config ({m["mode"]}) after {step} source(s): content {nest(obs["trail"][v[1]])} is not the layering '
                     f'of {[nest(s) for s in m["stack"][:step]]}', {'kind': 'merge', 'stack': m['stack'], 'mode': m['mode']})
        else:
            chk.fail(f'section resolution {m["what"]} gave {m["outcome"]}', {'kind': 'resolve', **m['replay']})
    chk.extra['impl_model_drift'] = {'config_results_not_canonical_denotation': drift}
    chk.extra['config_random_observations'] = count
    chk.extra['auxiliary'] = dict(AUX)
    chk.extra['section_observations'] = len(sec_batch)


# ---------------------------------------------------------------------------------------------------------------------
# section resolution
def enc_table(mapping, codes, prefix=()):
    out = []
    for key, val in mapping.items():
        path = (*prefix, key)
        if isinstance(val, collections.abc.Mapping):
            sub = enc_table(val, codes, path)
            out += sub or [{'p': list(path), 'v': {'k': 'e', 's': 0, 'l': []}}]
        elif isinstance(val, (list, tuple)):
            out.append({'p': list(path), 'v': {'k': 'l', 's': 0, 'l': [codes(x) for x in val]}})
        else:
            out.append({'p': list(path), 'v': {'k': 's', 's': codes(val), 'l': []}})
    return sorted(out, key=lambda e: e['p'])


def coder(strings):
    """small ints stand for themselves, strings are numbered in lexicographic order (order preserving)"""
    rank = {s: 100 + i for i, s in enumerate(sorted(set(strings)))}

    def codes(val):
        if isinstance(val, str):
            return rank.get(val, 99999)  # a string that occurs nowhere in the scenario: no code of the dictionary
        if isinstance(val, float) and val.is_integer():
            val = int(val)
        if isinstance(val, int) and not isinstance(val, bool) and 0 <= val < 100:
            return val
        return 99998

    return codes


def strings_of(obj):
    if isinstance(obj, str):
        yield obj
    elif isinstance(obj, collections.abc.Mapping):
        for k, v in obj.items():
            yield from strings_of(v)
    elif isinstance(obj, (list, tuple)):
        for v in obj:
            yield from strings_of(v)


def observe_resolve(section, arg):
    import forml
    try:
        got = section.resolve(arg) if arg is not None else section.default
    except forml.MissingError:
        return {'status': 'missing', 'items': []}
    except Exception as exc:  # pylint: disable=broad-except
        return {'status': f'error:{type(exc).__name__}', 'items': []}
    items = got if isinstance(got, tuple) and got and isinstance(got[0], tuple) else [got]
    return {'status': 'ok', 'items': [{'provider': i.reference, 'priority': getattr(i, 'priority', 0), 'params': dict(i.params)}
                                      for i in items]}


def section_scenario(rnd, gid):
    group = f'C20G{gid}'
    refs = [f'r{i}' for i in rnd.sample(range(1, 7), rnd.randint(1, 4))]
    body = {}
    for ref in refs:
        sec = {}
        if rnd.random() < 0.6:
            sec['provider'] = rnd.choice(['pa', 'pb', 'mod.x:Cls', ref, 'r9'])
        if rnd.random() < 0.6:
            sec['priority'] = rnd.randint(0, 3)
        generic = rnd.sample(['x', 'y', 'z'], rnd.randint(0, 2))
        for key in generic:
            sec[key] = rnd.choice([1, 2, 'v', [1, 2], {'q': 1}])
        if rnd.random() < 0.4:
            # nested params table; keys disjoint from the generic ones (precedence between the two spellings of one
            # parameter is not stated anywhere - excluded)
            sec['params'] = {k: rnd.choice([3, 'w', 'provider']) for k in rnd.sample(['u', 'w', 'provider', 'priority'], rnd.randint(0, 2))}
        body[ref] = sec
    choice = rnd.random()
    if choice < 0.3:
        pass  # no default selector
    elif choice < 0.6:
        body['default'] = rnd.choice(refs + ['r8'])
    else:
        body['default'] = rnd.sample(refs + ['r8'], rnd.randint(0, min(3, len(refs))))
    return group, refs, body


def section_observations(chk, rnd):
    from forml import setup
    count = 300 if chk.quick else 3000
    scenarios = [section_scenario(rnd, g) for g in range(count)]
    setup.CONFIG.update({group: body for group, _, body in scenarios})  # one layer with all groups (public API)
    batch, meta = [], []
    for group, refs, body in scenarios:
        single = type(setup.Provider)('Single', (setup.Provider,), {'INDEX': group, 'GROUP': group})
        multi = type(setup.Feed)('Multi', (setup.Feed,), {'INDEX': group, 'GROUP': group})
        strings = set(strings_of(body)) | set(body) | {'r7', 'r8'}
        codes = coder(strings)
        keys = [{'key': k, 'code': codes(k)} for k in sorted(set(refs) | {'r7', 'r8'})]
        cfg = enc_table({group: body}, codes)
        queries = [(single, False, [rnd.choice(refs)]), (single, False, ['r7']), (multi, True, rnd.sample(refs, rnd.randint(1, len(refs)))),
                   (multi, True, [refs[0], 'r7']), (multi, True, None)]
        if not isinstance(body.get('default'), list):
            queries.append((single, False, None))
        for section, feed, arg in queries:
            call = arg if arg is None or feed else arg[0]
            if feed and arg is not None and len(arg) == 1 and rnd.random() < 0.5:
                call = arg[0]  # Multi accepts a bare string as well
            out = observe_resolve(section, call)
            enc_out = {'status': out['status'] if out['status'] in ('ok', 'missing') else 'error',
                       'items': [{'provider': codes(i['provider']), 'priority': codes(i['priority']),
                                  'params': enc_table(i['params'], codes)} for i in out['items']]}
            batch.append({'kind': 'resolve', 'cfg': cfg, 'group': group, 'index': group, 'feed': feed, 'multi': feed,
                          'refs': [{'key': r, 'code': codes(r)} for r in (arg or [])], 'keys': keys, 'out': enc_out})
            meta.append({'kind': 'resolve', 'what': f'{"Feed" if feed else "Provider"}[{group}].resolve({call!r}) over {body}',
                         'outcome': out, 'replay': {'group': group, 'body': body, 'feed': feed, 'arg': call}})
    return batch, meta


def section_selftest():
    body = {'r1': {'provider': 'pa', 'x': 1}}
    codes = coder(set(strings_of(body)) | set(body))
    obs = {'kind': 'resolve', 'cfg': enc_table({'G': body}, codes), 'group': 'G', 'index': 'G', 'feed': False, 'multi': False,
           'refs': [{'key': 'r1', 'code': codes('r1')}], 'keys': [{'key': 'r1', 'code': codes('r1')}]}
    good = dict(obs, out={'status': 'ok', 'items': [{'provider': codes('pa'), 'priority': 0, 'params': enc_table({'x': 1}, codes)}]})
    bad = dict(obs, out={'status': 'ok', 'items': [{'provider': codes('r1'), 'priority': 0, 'params': enc_table({'x': 1}, codes)}]})
    return good, bad


# ---------------------------------------------------------------------------------------------------------------------
# provider bank: shared vocabulary
def bank_cfg(path, n, a, m, modules, gets, export, impl=None, invariants=True, steptables=True):
    inv = ['SingleClass', 'AbstractNeverReturned', 'UnknownMissing', 'CollisionsRejected', 'OrderIndependent', 'LazySound']
    if impl is not None:
        inv += ['ImplOutcome', 'ImplRefines', 'ImplWithin', 'ImplOrderFree', 'ImplUnknown']
    with open(path, 'w') as fh:
        fh.write(f'SPECIFICATION {"ISpec" if impl is not None else "Spec"}\nCONSTANTS N = {n}\n A = {a}\n M = {m}\n'
                 f' UseModules = {"TRUE" if modules else "FALSE"}\n MaxGets = {gets}\n DoExport = {"TRUE" if export else "FALSE"}\n'
                 f' StepTables = {"TRUE" if export and steptables else "FALSE"}\n')
        if impl is not None:
            fh.write(f' Atomic = {"TRUE" if impl == "atomic" else "FALSE"}\n')
        for i in (inv if invariants else []):
            fh.write(f'INVARIANT {i}\n')
        if export:
            fh.write('INVARIANT Export\n')
        fh.write('CHECK_DEADLOCK FALSE\n')
    return path


KINDS = {1: 'alias', 2: 'qualified name of class', 3: 'unknown qualified name of shape/class 100s+10e+k',
         4: 'unknown alias of shape 10s+e'}


def chain(cls, c):
    """c, parent(c), ..., 0 (the MRO restricted to provider interfaces)"""
    out = [c]
    while c:
        c = cls[c - 1]['par']
        out.append(c)
    return out


def known_partial(cls, order_acc, rejected, via, t, n):
    """Input-class predicate of the known finding: the lookup goes through an interface `via` lying strictly between
    a class c - whose registration was rejected for an alias collision with the accepted class d - and the lowest
    interface shared by c and d (where the collision is detected), and asks for a reference of c.
    Returns c (what the as-is model predicts to be answered) or 0."""
    for c in rejected:
        al = cls[c - 1]['al']
        if cls[c - 1]['abs'] or not al:
            continue
        if not ((t == 1 and n == al) or (t == 2 and n == c)):
            continue
        holder = next((d for d in order_acc if cls[d - 1]['al'] == al), None)
        if holder is None:
            continue
        shared = set(chain(cls, holder))
        below = list(itertools.takewhile(lambda b: b not in shared, chain(cls, c)))  # c and interfaces under the shared one
        if via in below[1:]:
            return c
    return 0


GHOSTS = ((0, 0), (1, 0), (2, 0), (2, 1), (3, 0), (3, 1), (3, 2))  # Bank!GhostsAll (TraceBank!TInit refuses anything else)
# unknown-shaped references looked up per interface and table (None = all of them) in direct / materialised hierarchies
PROBES = {'direct': None, 'modules': None, 'seed': 0}


WAYS = (1, 2, 3)  # Bank!AbsWays (TraceBank!TInit refuses anything else)


def draw_ways(cls, rnd):
    """One way of being abstract per class (0 for a concrete one), uniformly among those Bank!WaysOK admits: way 2
    (nothing declared, an inherited abstract method left unimplemented) needs a parent that still has one."""
    ways = []
    for d in cls:
        open_parent = d['par'] == 0 or ways[d['par'] - 1] in (1, 2)
        ways.append(rnd.choice([w for w in WAYS if w != 2 or open_parent]) if d['abs'] else 0)
    return ways


def default_ways(cls):
    return [1 if d['abs'] else 0 for d in cls]


def _abstract_inner():
    """a new abstract (inner) class"""
    return abc.ABCMeta('Inner', (), {'__module__': MOD, 'x': abc.abstractmethod(_fresh())})


def full_table(sparse, vias, a, n, urefs=(), tag='', kind='direct'):
    """Every (interface, reference) pair of the domain with its expectation; pairs TLC did not list are
    'missing, and nothing may be returned' (Bank!Table is exported sparsely).  `urefs` = Bank!URefs as exported by
    TLC (references nobody provides, by shape): all of them, or a seeded sample per interface in the quick tier."""
    listed = {(r['via'], r['t'], r['n']): r for r in sparse}
    out = []
    rnd = random.Random(f'{PROBES["seed"]}/{tag}')
    for via in sorted(vias):
        for t, top in ((1, a + 1), (2, n + 1)):
            for num in range(1, top + 1):
                out.append(listed.get((via, t, num)) or {'via': via, 't': t, 'n': num, 'must': 0, 'may': 0})
        probes = urefs if PROBES[kind] is None or len(urefs) <= PROBES[kind] else rnd.sample(urefs, PROBES[kind])
        for t, num in probes:
            if (via, t, num) in listed:
                raise tlc.MachineryError(f'Bank!Table lists the unknown reference {(t, num)}')
            out.append({'via': via, 't': t, 'n': num, 'must': 0, 'may': 0})
    return out


def take_urefs(vectors, rnd):
    """Split what Bank.tla printed: the behaviours, and the constant sets printed once - Bank!URefs (attached to every
    behaviour) and Bank!GhostsAll, the search path configurations under each of which every behaviour is required:
    one is drawn per behaviour (none / an uninstalled one, half and half) - and Bank!AbsWays, the ways of being
    abstract: one is drawn per abstract class of every behaviour."""
    consts = [v for v in vectors if 'urefs' in v]
    if len(consts) != 1:
        raise tlc.MachineryError(f'Bank.tla did not export its unknown-reference domain once: {consts}')
    urefs = sorted(tuple(r) for r in consts[0]['urefs'])
    ghosts = sorted(tuple(g) for g in consts[0]['ghosts'])
    if {t for t, _ in urefs} != {3, 4} or set(ghosts) != set(GHOSTS) or sorted(consts[0]['ways']) != list(WAYS):
        raise tlc.MachineryError(f'Bank.tla exported unexpected domains: {consts}')
    vectors = [v for v in vectors if 'urefs' not in v]
    for vec in vectors:
        vec['urefs'] = urefs
        vec['ghost'] = rnd.choice(ghosts[1:]) if rnd.random() < 0.5 else ghosts[0]
        vec['ways'] = draw_ways(vec['cls'], rnd)
    return vectors, urefs


class Namespace:
    """The installed module tree the shapes of Bank!Shapes are concretised against: package <pkg> (the search package
    of the root interface) holding the package <pkg>.sub holding the module <pkg>.sub.mod - none of them defines a
    provider.  Names starting with <prefix>_ghost and the segments `nope` / `x` exist nowhere."""

    CHAIN = ('sub', 'mod')

    def __init__(self, pkg, prefix):
        self.pkg, self.prefix = pkg, prefix

    @classmethod
    def install(cls, base, pkg):
        """create the tree below `base` (a sys.path entry); <pkg>/__init__.py may exist already; <pkg>/sub is a link to
        one directory shared by all the packages below `base` (a package is created per replayed behaviour)"""
        shared = os.path.join(base, '_c20ns_sub')
        if not os.path.isdir(shared):
            os.makedirs(shared)
            for name in ('__init__.py', 'mod.py'):
                with open(os.path.join(shared, name), 'w') as fh:
                    fh.write('')
        os.makedirs(os.path.join(base, pkg), exist_ok=True)
        init = os.path.join(base, pkg, '__init__.py')
        if not os.path.exists(init):
            with open(init, 'w') as fh:
                fh.write('')
        if not os.path.lexists(os.path.join(base, pkg, 'sub')):
            os.symlink(shared, os.path.join(base, pkg, 'sub'))
        importlib.invalidate_caches()

    @staticmethod
    def _path(s, e, installed, fresh):
        """s segments: the first e are the installed ones, segment e + 1 (if any) is `fresh`, the rest `x`"""
        if e > len(installed) or e > s:
            raise tlc.MachineryError(f'shape <<{s}, {e}>> cannot be concretised over {installed}')
        return '.'.join([*installed[:e], *([fresh] + ['x'] * (s - e - 1) if e < s else [])])

    def qualified(self, code, clsname):
        s, e, k = code // 100, code // 10 % 10, code % 10
        module = self._path(s, e, (self.pkg, *self.CHAIN), f'{self.prefix}_ghost' if e == 0 else 'nope')
        return f'{module}:{clsname(k) if k else "Nope"}'

    def alias(self, code):
        s, e = code // 10, code % 10
        return self._path(s, e, self.CHAIN, 'nope')

    def ghost(self, shape):
        """the uninstalled search path of that shape ([] when the universe has none)"""
        s, e = shape
        if s == 0:
            return []
        return [self._path(s, e, (self.pkg, self.CHAIN[0]), f'{self.prefix}_ghostsp' if e == 0 else 'ghostsp')]


class Hierarchy:
    """Real provider classes for one universe, created under a fresh abstract root (fresh name -> fresh BANK entries)."""

    NSPKG = 'c20ns'  # the installed tree of direct hierarchies (created once per run in the sandbox, see direct_namespace)

    def __init__(self, sid, cls, ghost=(0, 0), ways=None):
        from forml import provider as provmod
        self.provmod = provmod
        self.sid = sid
        self.cls = cls
        self.ways = ways or default_ways(cls)
        self.ns = Namespace(self.NSPKG, 'c20ns')
        self.obj = {0: provmod.Meta(f'S{sid}Root', (provmod.Service,),
                                    {'__module__': MOD, '__qualname__': f'S{sid}Root', 'm0': abc.abstractmethod(_fresh())},
                                    path=[self.NSPKG, *self.ns.ghost(ghost)])}

    def register(self, c):
        import forml
        desc = self.cls[c - 1]
        space = {'__module__': MOD, '__qualname__': f'S{self.sid}C{c}'}
        way = self.ways[c - 1]
        if way == 1:  # an abstract method of its own
            space[f'm{c}'] = abc.abstractmethod(_fresh())
        elif way != 2:  # (way 2: nothing declared, an inherited abstract method stays unimplemented)
            # concrete, or abstract through an inner class only: everything abstract that is inherited is overridden
            for b in chain(self.cls, c)[1 if way else 0:]:
                if b == 0 or self.cls[b - 1]['abs']:
                    space[f'm{b}'] = _fresh()
                if b and self.ways[b - 1] == 3:
                    space[f'I{b}'] = type('Inner', (), {'__module__': MOD})
            if way == 3:
                space[f'I{c}'] = _abstract_inner()
        kwargs = {'alias': f'al{desc["al"]}'} if desc['al'] else {}
        try:
            self.obj[c] = self.provmod.Meta(space['__qualname__'], (self.obj[desc['par']],), space, **kwargs)
        except forml.UnexpectedError:
            return 'rejected'
        except Exception as exc:  # pylint: disable=broad-except
            return f'error:{type(exc).__name__}'
        return 'ok'

    def ref(self, t, n):
        if t == 3:
            return self.ns.qualified(n, lambda k: f'S{self.sid}C{k}')
        if t == 4:
            return self.ns.alias(n)
        return f'al{n}' if t == 1 else f'{MOD}:S{self.sid}C{n}'

    def get(self, via, t, n, pad=None):
        """via[ref]; with `pad` (a resolved setup.Provider section naming the alias) the way the runtime does it:
        forml.runtime._pad.ensure_instance(section, interface) -> class of the instance"""
        import forml
        try:
            if pad is not None:
                from forml.runtime import _pad
                got = type(_pad.ensure_instance(pad, self.obj[via]))
            else:
                got = self.obj[via][self.ref(t, n)]
        except forml.MissingError:
            return 0
        except Exception as exc:  # pylint: disable=broad-except
            return f'error:{type(exc).__name__}'
        name = getattr(got, '__qualname__', '')
        prefix = f'S{self.sid}C'
        return int(name[len(prefix):]) if name.startswith(prefix) and name[len(prefix):].isdigit() else f'foreign:{name}'


def _fresh():
    """a new function object every time (abc.abstractmethod marks the very object it is given)"""
    return lambda self: None


def direct_namespace(tmp):
    """install the module tree of the direct hierarchies once (before any worker is forked)"""
    base = os.path.join(tmp, 'c20-namespace')
    if base not in sys.path:
        os.makedirs(base, exist_ok=True)
        Namespace.install(base, Hierarchy.NSPKG)
        sys.path.insert(0, base)


def replay_direct(vec, sid):
    """Replay one exported registration history; returns list of problems (dicts)."""
    cls, alias_count = vec['cls'], vec['A']
    h = Hierarchy(sid, cls, vec['ghost'], vec.get('ways'))
    problems = []
    accepted, rejected = [], []
    for step, ev in enumerate(vec['hist']):
        c = ev['a']
        out = h.register(c)
        want = 'ok' if ev['out'] == 'ok' else 'rejected'
        (accepted if ev['out'] == 'ok' else rejected).append(c)
        if out != want:
            problems.append({'what': f'class statement of class {c} ({cls[c - 1]}) after {(accepted + rejected)[:-1]}: {out}, '
                                     f'required {ev["out"]}', 'step': step, 'known': 0})
            break
        last = step == len(vec['hist']) - 1
        if not (vec['steptables'] or last):
            continue
        sparse = ev['table'] if vec['steptables'] else vec['table']
        for row in full_table(sparse, [0] + accepted, alias_count, len(cls), vec.get('urefs', ()), f'{sid}/{step}'):
            got = h.get(row['via'], row['t'], row['n'])
            if got != row['must']:
                pred = known_partial(cls, accepted, rejected, row['via'], row['t'], row['n'])
                problems.append({'what': f'interface {row["via"]}[{h.ref(row["t"], row["n"])}] answered {got or "missing"}, '
                                         f'required {row["must"] or "missing"} (registered {accepted}, rejected {rejected})',
                                 'step': step, 'known': pred if pred and got == pred else 0})
    return problems


def direct_worker(args):
    tag, vectors, _ = args
    return [replay_direct(vec, f'{tag}x{k}') for k, vec in enumerate(vectors)]


def fan_out(worker, tag, items, procs, dirs=None):
    """Run worker over items in `procs` forked processes (round robin), results in item order."""
    if procs <= 1:
        return worker((tag, items, dirs[0] if dirs else None))
    chunks = [items[i::procs] for i in range(procs)]
    with multiprocessing.get_context('fork').Pool(procs) as pool:
        parts = pool.map(worker, [(f'{tag}{i}', ch, dirs[i] if dirs else None) for i, ch in enumerate(chunks)])
    results = [None] * len(items)
    for i, part in enumerate(parts):
        results[i::procs] = part
    return results


def describe(cls):
    return [{'id': i + 1, **d} for i, d in enumerate(cls)]


def bank_direct_part(chk, rnd, tmp):
    # ---- model: requirement machine + as-is banks in lock step, every registration order
    sizes = [(3, 2)] if chk.quick else [(3, 2), (4, 2)]
    for n, a in sizes:
        chk.tlc('BankImpl', bank_cfg(os.path.join(tmp, f'bi{n}.cfg'), n, a, 1, False, 0, False, impl='atomic'),
                require=['IRegister'], workers=4 if chk.quick else 8)
    # the code as it stands (bindings made below the colliding bank are kept) is refuted by the same model
    res = chk.tlc('BankImpl', bank_cfg(os.path.join(tmp, 'bi-asis.cfg'), 3, 2, 1, False, 0, False, impl='asis'),
                  expect_ok=False, workers=2, coverage=False)
    chk.selftest('model_refutes_partial_registration', res.violated == 'ImplRefines')
    chk.extra['impl_model'] = {'BankImpl.Atomic=TRUE': 'refines Bank.tla', 'BankImpl.Atomic=FALSE (code as it stands)':
                               f'violates {res.violated}: the known finding {FINDING}'}
    # ---- spec -> code
    vectors = []
    for n, a, steptables in ([(3, 2, True)] if chk.quick else [(3, 2, True), (4, 2, False)]):
        res = chk.tlc('Bank', bank_cfg(os.path.join(tmp, f'bx{n}.cfg'), n, a, 1, False, 0, True, invariants=False,
                                       steptables=steptables), require=['Register'], workers=4 if chk.quick else 8)
        got, urefs = take_urefs(res.json_prints(), rnd)
        for vec in got:
            vec['A'], vec['steptables'] = a, steptables
        vectors += got
        del res
    if not vectors:
        raise tlc.MachineryError('Bank.tla exported no behaviour')
    direct_namespace(tmp)
    results = fan_out(direct_worker, 'd', vectors, 1 if chk.quick else 4)
    lookups = 0
    for k, (vec, problems) in enumerate(zip(vectors, results)):
        lookups += len(full_table([], range(len(vec['acc']) + 1), vec['A'], len(vec['cls']), vec['urefs'])) * (len(vec['hist']) if vec['steptables'] else 1)
        order = [ev['a'] for ev in vec['hist']]
        replay = {'kind': 'direct', 'cls': vec['cls'], 'order': order, 'ghost': vec['ghost'], 'ways': vec['ways']}
        if not problems:
            chk.validated()
            if k % 1499 == 0:
                chk.sample({'hierarchy': describe(vec['cls']), 'registration_order': order,
                            'outcomes': [ev['out'] for ev in vec['hist']]})
        for p in problems:
            chk.fail(f'{p["what"]} in hierarchy {describe(vec["cls"])} order {order}', dict(replay, step=p['step']),
                     finding=FINDING if p['known'] else None)
    # binding self-test: a corrupted expectation is noticed by the comparison used above
    vec = json.loads(json.dumps(next(v for v in vectors if v['steptables'] and any(r['must'] for r in v['hist'][-1]['table']))))
    next(r for r in vec['hist'][-1]['table'] if r['must'])['must'] = 99  # a class that does not exist
    chk.selftest('bank_direct_corrupted_expectation_noticed', bool(replay_direct(vec, 'selftest')))
    chk.extra['bank_direct'] = {'behaviours_replayed': len(vectors), 'lookups_compared': lookups,
                                'replayed_with_uninstalled_search_path': sum(tuple(v['ghost']) != GHOSTS[0] for v in vectors),
                                'unknown_reference_shapes': len(urefs), 'shapes_probed_per_interface_and_table': PROBES['direct'] or len(urefs),
                                'abstract_classes_replayed_by_way': {str(w): sum(v['ways'].count(w) for v in vectors) for w in WAYS}}


# ---------------------------------------------------------------------------------------------------------------------
# provider bank: modules, import orders, lazy discovery
class Materialised:
    """One universe written as python modules: <p>_root (the abstract root interface, search path = package <p>_pkg),
    <p>_pkg/al<k>.py for modules named after alias k (auto-discovered), <p>_ext<m>.py for the others."""

    def __init__(self, base, sid, vec):
        self.cls, self.names = vec['cls'], vec['name']
        ways = vec.get('ways') or default_ways(self.cls)
        self.p = f'c20s{sid}'
        self.dir = base
        self.ns = Namespace(f'{self.p}_pkg', self.p)
        self.modname = {m: (f'{self.p}_pkg.al{k}' if k else f'{self.p}_ext{m}') for m, k in enumerate(self.names, start=1)}
        self.files = []
        pkg = os.path.join(base, f'{self.p}_pkg')
        os.mkdir(pkg)
        self._write(os.path.join(pkg, '__init__.py'), '')
        Namespace.install(base, f'{self.p}_pkg')  # (removed with the package in close())
        self._write(os.path.join(base, f'{self.p}_root.py'),
                    'import abc\nfrom forml import provider as provmod\n\n\n'
                    f'class Root(provmod.Service, path={[self.p + "_pkg", *self.ns.ghost(vec.get("ghost", (0, 0)))]!r}):\n'
                    '    @abc.abstractmethod\n    def m0(self):\n        """abstract"""\n')
        for m, name in self.modname.items():
            mine = [c for c in range(1, len(self.cls) + 1) if self.cls[c - 1]['mod'] == m]
            deps = sorted({self.cls[self.cls[c - 1]['par'] - 1]['mod'] for c in mine if self.cls[c - 1]['par']} - {m})
            src = ['import abc', f'import {self.p}_root'] + [f'import {self.modname[d]}' for d in deps] + ['', '']
            for c in mine:
                d = self.cls[c - 1]
                par = d['par']
                base_expr = (f'{self.p}_root.Root' if par == 0 else
                             f'C{par}' if self.cls[par - 1]['mod'] == m else f'{self.modname[self.cls[par - 1]["mod"]]}.C{par}')
                alias = f', alias={"al" + str(d["al"])!r}' if d['al'] else ''
                src.append(f'class C{c}({base_expr}{alias}):')
                way = ways[c - 1]  # (as Hierarchy.register)
                if way == 1:
                    src += ['    @abc.abstractmethod', f'    def m{c}(self):', '        """abstract"""']
                elif way == 2:
                    src += ['    """declares nothing"""']
                else:
                    for b in chain(self.cls, c)[1 if way else 0:]:
                        if b == 0 or self.cls[b - 1]['abs']:
                            src += [f'    def m{b}(self):', '        return None']
                        if b and ways[b - 1] == 3:
                            src += [f'    class I{b}:', '        """concrete"""']
                    if way == 3:
                        src += [f'    class I{c}(abc.ABC):', '        @abc.abstractmethod', '        def x(self):',
                                '            """abstract"""']
                src += ['', '']
            path = os.path.join(base, *name.split('.')) + '.py'
            self._write(path, '\n'.join(src))
        importlib.invalidate_caches()
        self.root = importlib.import_module(f'{self.p}_root').Root

    def _write(self, path, text):
        with open(path, 'w') as fh:
            fh.write(text)
        self.files.append(path)

    def via(self, v):
        if v == 0:
            return self.root
        return getattr(sys.modules[self.modname[self.cls[v - 1]['mod']]], f'C{v}')

    def ref(self, t, n):
        if t == 3:
            return self.ns.qualified(n, lambda k: f'C{k}')
        if t == 4:
            return self.ns.alias(n)
        if t == 1:
            return f'al{n}'
        if n > len(self.cls):
            return f'{self.p}_nowhere:C{n}'
        return f'{self.modname[self.cls[n - 1]["mod"]]}:C{n}'

    def get(self, v, t, n):
        import forml
        try:
            got = self.via(v)[self.ref(t, n)]
        except forml.MissingError:
            return 0
        except Exception as exc:  # pylint: disable=broad-except
            return f'error:{type(exc).__name__}:{exc}'
        name = getattr(got, '__qualname__', '')
        if got.__module__ in self.modname.values() and name[:1] == 'C' and name[1:].isdigit():
            return int(name[1:])
        return f'foreign:{got.__module__}:{name}'

    def close(self):
        for name in [n for n in sys.modules if n.startswith(self.p + '_')]:
            del sys.modules[name]
        for path in self.files:
            os.unlink(path)
        shutil.rmtree(os.path.join(self.dir, f'{self.p}_pkg'), ignore_errors=True)


def replay_modules(vec, sid, base):
    mat = Materialised(base, sid, vec)
    problems = []
    try:
        for step, ev in enumerate(vec['hist']):
            if ev['op'] == 'imp':
                importlib.import_module(mat.modname[ev['a']])
            else:
                got = mat.get(ev['a'], ev['t'], ev['n'])
                allowed = [ev['must']] if ev['must'] else [0, ev['may']]
                if got not in allowed:
                    problems.append({'what': f'interface {ev["a"]}[{mat.ref(ev["t"], ev["n"])}] answered {got or "missing"}, '
                                             f'allowed {allowed} (0 = missing)', 'step': step})
                    return problems
        for row in full_table(vec['table'], [0] + list(vec['acc']), vec['A'], len(vec['cls']), vec.get('urefs', ()), str(sid), 'modules'):
            got = mat.get(row['via'], row['t'], row['n'])
            allowed = [row['must']] if row['must'] else [0, row['may']]
            if got not in allowed:
                problems.append({'what': f'after {[(e["op"], e["a"], e["t"], e["n"]) for e in vec["hist"]]}: interface '
                                         f'{row["via"]}[{mat.ref(row["t"], row["n"])}] answered {got or "missing"}, allowed '
                                         f'{allowed} (0 = missing)', 'step': len(vec['hist'])})
        if not problems:
            problems += late_module(mat)
    finally:
        mat.close()
    return problems


def late_module(mat):
    """A provider module that becomes importable only AFTER its qualified name was looked up (and missed) once: the miss must
    not stick - the same reference resolves as soon as the module can be imported (whatever the lookup/import order)."""
    import forml
    name = f'{mat.p}_late'
    ref = f'{name}:Late'

    def lookup():
        try:
            got = mat.root[ref]
        except forml.MissingError:
            return 'missing'
        except Exception as exc:  # pylint: disable=broad-except
            return f'error:{type(exc).__name__}'
        return f'{got.__module__}:{got.__qualname__}'

    first = lookup()
    mat._write(os.path.join(mat.dir, f'{name}.py'),
               f'import {mat.p}_root\n\n\nclass Late({mat.p}_root.Root):\n    def m0(self):\n        return None\n')
    importlib.invalidate_caches()
    second = lookup()
    if first != 'missing':
        return [{'what': f'lookup of {ref} before its module exists answered {first}', 'step': -1}]
    if second != ref:
        return [{'what': f'lookup of {ref} answered {second} although the module became importable after an earlier miss', 'step': -1}]
    return []


def modules_worker(args):
    tag, vectors, base = args
    sys.path.insert(0, base)
    try:
        return [replay_modules(vec, f'{tag}x{k}', base) for k, vec in enumerate(vectors)]
    finally:
        sys.path.remove(base)


def bank_modules_part(chk, rnd, tmp):
    n, a, m, gets = (3, 1, 2, 1) if chk.quick else (3, 2, 2, 1)
    chk.tlc('BankImpl', bank_cfg(os.path.join(tmp, 'bm.cfg'), n, a, m, True, gets, False, impl='asis'),
            require=['IImport', 'ILookup'], workers=4 if chk.quick else 8)
    if not chk.quick:
        chk.tlc('BankImpl', bank_cfg(os.path.join(tmp, 'bm4.cfg'), 4, 1, 2, True, 1, False, impl='asis'),
                require=['IImport', 'ILookup'], workers=8)
    res = chk.tlc('Bank', bank_cfg(os.path.join(tmp, 'bmx.cfg'), n, a, m, True, gets, True, invariants=False),
                  require=['Import', 'Lookup'], workers=4 if chk.quick else 8)
    vectors, urefs = take_urefs(res.json_prints(), rnd)
    del res
    if not vectors:
        raise tlc.MachineryError('Bank.tla (modules) exported no behaviour')
    total = len(vectors)
    cap = 2500 if chk.quick else 30000
    if total > cap:  # seeded sample of the exported behaviours (all of them are model-checked above)
        vectors = rnd.sample(vectors, cap)
    for vec in vectors:
        vec['A'] = a
    base = tempfile.mkdtemp(prefix='mods-', dir=tmp)
    procs = 2 if chk.quick else 4
    results = fan_out(modules_worker, 'm', vectors, procs, dirs=[_subdir(base, i) for i in range(procs)])
    for k, (vec, problems) in enumerate(zip(vectors, results)):
        events = [(e['op'], e['a'], e['t'], e['n']) for e in vec['hist']]
        if not problems:
            chk.validated()
            if k % 997 == 0:
                chk.sample({'hierarchy': describe(vec['cls']), 'module_names': vec['name'], 'events': events})
        for p in problems:
            chk.fail(f'{p["what"]} in hierarchy {describe(vec["cls"])} modules {vec["name"]}',
                     {'kind': 'modules', 'cls': vec['cls'], 'name': vec['name'], 'ghost': vec['ghost'], 'ways': vec['ways'], 'acc': vec['acc'],
                      'A': vec['A'], 'hist': vec['hist'], 'table': vec['table'], 'urefs': vec['urefs']})
    # binding self-test
    sys.path.insert(0, base)
    vec = json.loads(json.dumps(next(v for v in vectors if any(r['must'] for r in v['table']))))
    next(r for r in vec['table'] if r['must'])['must'] = 99  # a class that does not exist
    chk.selftest('bank_modules_corrupted_expectation_noticed', bool(replay_modules(vec, 'selftest', base)))
    sys.path.remove(base)
    shutil.rmtree(base, ignore_errors=True)
    chk.extra['bank_modules'] = {'behaviours_exported': total, 'behaviours_replayed': len(vectors),
                                 'replayed_with_uninstalled_search_path': sum(tuple(v['ghost']) != GHOSTS[0] for v in vectors),
                                 'unknown_reference_shapes': len(urefs),
                                 'shapes_probed_per_interface_and_table': PROBES['modules'] or len(urefs),
                                 'abstract_classes_replayed_by_way': {str(w): sum(v['ways'].count(w) for v in vectors) for w in WAYS}}


def _subdir(base, i):
    path = os.path.join(base, f'w{i}')
    os.mkdir(path)
    return path


# ---------------------------------------------------------------------------------------------------------------------
# provider bank: randomised larger hierarchies, code -> spec
def random_universe(rnd, n, a):
    cls = []
    for c in range(1, n + 1):
        par = rnd.randint(0, c - 1) if rnd.random() < 0.8 else 0
        abstract = rnd.random() < 0.35
        alias = rnd.randint(1, a) if rnd.random() < (0.15 if abstract else 0.6) else 0
        cls.append({'par': par, 'abs': abstract, 'al': alias, 'mod': 1})
    return cls


def bank_trace_part(chk, rnd):
    from forml import setup
    count = 400 if chk.quick else 6000
    traces, meta = [], []
    # provider sections whose `provider` option is the alias: a share of the alias lookups goes the way the runtime
    # goes (section -> forml.runtime._pad.ensure_instance -> instance of the class found in the bank)
    setup.CONFIG.update({'C20PAD': {f'al{k}': {'provider': f'al{k}'} for k in range(1, 7)}})
    pad_section = type(setup.Provider)('Pad', (setup.Provider,), {'INDEX': 'C20PAD', 'GROUP': 'C20PAD'})
    padded = shaped = 0
    direct_namespace(os.getcwd())
    for k in range(count):
        n, a = rnd.randint(3, 8), rnd.randint(1, 4)
        cls = random_universe(rnd, n, a)
        # half of the root interfaces are configured with a search path that is not installed (Bank!GhostsAll)
        ghost = rnd.choice(GHOSTS[1:]) if rnd.random() < 0.5 else GHOSTS[0]
        ways = draw_ways(cls, rnd)  # (Bank!AbsWays)
        h = Hierarchy(f't{k}', cls, ghost, ways)
        events, accepted, rejected, pending = [], [], [], set(range(1, n + 1))
        known_at = None
        while pending:
            ready = [c for c in pending if cls[c - 1]['par'] == 0 or cls[c - 1]['par'] in accepted]
            if not ready:
                break
            c = rnd.choice(ready)
            pending.discard(c)
            out = h.register(c)
            (accepted if out == 'ok' else rejected).append(c)
            events.append({'op': 'reg', 'c': c, 'out': out, 'via': 0, 't': 0, 'n': 0, 'res': 0})
            for _ in range(rnd.randint(0, 4)):
                via = rnd.choice([0] + accepted)
                t = rnd.randint(1, 2)
                num = rnd.randint(1, a + 1) if t == 1 else rnd.randint(1, n + 1)
                if rnd.random() < 0.5 and (accepted or rejected):  # bias towards references of existing classes
                    target = rnd.choice(accepted + rejected)
                    t, num = (1, cls[target - 1]['al']) if cls[target - 1]['al'] and rnd.random() < 0.5 else (2, target)
                    if rnd.random() < 0.6:
                        via = rnd.choice(chain(cls, target)[1:])
                        if via and via not in accepted:
                            via = 0
                if rnd.random() < 0.25:  # a reference nobody provides, any shape of Bank!URefsOf (any class name)
                    t = rnd.choice((3, 4))
                    s = rnd.randint(1, 3 if t == 3 else 2)
                    e = rnd.randint(0, s)
                    num = 100 * s + 10 * e + rnd.randint(0, n) if t == 3 else 10 * s + e
                    shaped += 1
                pad = pad_section.resolve(f'al{num}') if t == 1 and rnd.random() < 0.3 else None
                padded += pad is not None
                got = h.get(via, t, num, pad=pad)
                if known_at is None and known_partial(cls, accepted, rejected, via, t, num):
                    known_at = len(events)
                events.append({'op': 'get', 'c': 0, 'out': '', 'via': via, 't': t, 'n': num,
                               'res': got if isinstance(got, int) else -1})
        traces.append({'cls': cls, 'ghost': list(ghost), 'ways': ways, 'events': events})
        meta.append({'known_at': known_at})
    # binding self-test: a trace whose last answered lookup is replaced by another answer
    src = next(t for t in traces if any(e['op'] == 'get' for e in t['events']))
    bad = json.loads(json.dumps(src))
    last = max(i for i, e in enumerate(bad['events']) if e['op'] == 'get')
    bad['events'] = bad['events'][:last + 1]
    bad['events'][last]['res'] = 99  # a class that does not exist
    traces.append(bad)
    # ... and synthetic ones: an unknown-shaped reference answered by the missing-provider error (control), by another
    # exception, by some class
    shape_cls = [{'par': 0, 'abs': False, 'al': 1, 'mod': 1}]
    shape_ev = lambda t, num, res: [{'op': 'reg', 'c': 1, 'out': 'ok', 'via': 0, 't': 0, 'n': 0, 'res': 0},  # noqa: E731
                                    {'op': 'get', 'c': 0, 'out': '', 'via': 0, 't': t, 'n': num, 'res': res}]
    synthetic = [(3, 311, 0), (3, 311, -1), (3, 311, 1), (4, 20, 0), (4, 20, -1), (4, 20, 1)]
    for t, num, res in synthetic:
        traces.append({'cls': shape_cls, 'ghost': [2, 0], 'ways': [0], 'events': shape_ev(t, num, res)})
    verdicts = {}
    size = 2000
    for lo in range(0, len(traces), size):
        path = common.write_json({'traces': traces[lo:lo + size]}, f'c20-bank-{lo}.json')
        res = chk.tlc('TraceBank', 'TraceBank.cfg', workers=1, env={'TRACE_FILE': path}, coverage=False, timeout=1200)
        got = res.tuples('VERDICT')
        if len(got) != len(traces[lo:lo + size]):
            raise tlc.MachineryError(f'TraceBank: expected {len(traces[lo:lo + size])} verdicts, got {len(got)}')
        for v in got:
            verdicts[lo + v[0] - 1] = v
    first = len(traces) - len(synthetic)
    chk.selftest('bank_trace_wrong_answer_rejected', verdicts[first - 1][1] < verdicts[first - 1][2])
    for i, (t, num, res) in enumerate(synthetic, start=first):
        if res == 0 and verdicts[i][1] != verdicts[i][2]:
            raise tlc.MachineryError('TraceBank rejected a correct control observation (unknown-shaped reference)')
        if res != 0:
            chk.selftest(f'bank_trace_unknown_shape_kind{t}_answered_{"error" if res < 0 else "class"}_rejected',
                         verdicts[i][1] < verdicts[i][2])
    events = 0
    for k, m in enumerate(meta):
        _, matched, length = verdicts[k]
        if matched < 0:
            raise tlc.MachineryError(f'TraceBank!TInit refused trace {k} (search path {traces[k]["ghost"]}, ways {traces[k]["ways"]})')
        events += matched
        tr = traces[k]
        if matched == length:
            chk.validated()
            if k % 199 == 0:
                chk.sample({'hierarchy': describe(tr['cls']), 'events': [(e['op'], e['c'] or (e['via'], e['t'], e['n']), e['out'] or e['res'])
                                                                         for e in tr['events'][:10]]})
            continue
        ev = tr['events'][matched]
        what = (f'class statement of class {ev["c"]} gave {ev["out"]}' if ev['op'] == 'reg' else
                f'interface {ev["via"]}[{KINDS[ev["t"]]} {ev["n"]}] answered '
                f'{"another exception than the missing-provider error" if ev["res"] < 0 else ev["res"] or "missing"}') + f' at event {matched} of hierarchy {describe(tr["cls"])}, events {tr["events"][:matched]}'
        chk.fail(what, {'kind': 'trace', 'cls': tr['cls'], 'ghost': tr['ghost'], 'ways': tr['ways'], 'events': tr['events'][:matched + 1]},
                 finding=FINDING if m['known_at'] == matched else None)
    chk.extra['bank_traces'] = {'traces': count, 'events_validated': events, 'lookups_via_runtime_pad': padded,
                                'lookups_of_unknown_shaped_references': shaped,
                                'abstract_classes_by_way': {str(w): sum(t['ways'].count(w) for t in traces[:count]) for w in WAYS}}


# ---------------------------------------------------------------------------------------------------------------------
def main(chk):
    import logging
    logging.disable(logging.INFO)
    rnd = random.Random(chk.seed)
    tmp = os.getcwd()
    # (a seeded sample of Bank!URefs per interface and table - 10^4..10^5 tables per run - twice as many in thorough)
    PROBES.update(direct=3 if chk.quick else 6, modules=5 if chk.quick else 10, seed=chk.seed)
    import time
    phases = {}
    for name, part in (('config', lambda: config_part(chk, rnd, tmp)), ('bank_direct', lambda: bank_direct_part(chk, rnd, tmp)),
                       ('bank_modules', lambda: bank_modules_part(chk, rnd, tmp)), ('bank_traces', lambda: bank_trace_part(chk, rnd))):
        t0 = time.time()
        part()
        phases[name] = round(time.time() - t0, 1)
    chk.extra['phase_wall_s'] = phases
    chk.assume('source lists carry no duplicate inside one source (the property speaks about duplicates created by merging)')
    chk.assume('order of list elements coming from the same source is not prescribed (differences counted as drift)')
    chk.assume('two distinct classes never share module:qualname (re-definition is treated by the library as re-registration)')
    chk.assume('hierarchies with colliding aliases are exercised by direct class creation; import orders / lazy discovery '
               'on collision-free hierarchies (a failed module import leaves the interpreter in a state the property is silent about)')
    chk.assume('a lookup that must discover a module may answer missing or the unique matching class when neither '
               'registration nor discovery is guaranteed (Bank!Must / Whole)')


def replay(chk, path):
    with open(path) as fh:
        rep = json.load(fh)['replay']
    print(json.dumps(rep, indent=1)[:4000])
    if rep['kind'] == 'merge':
        nested = [nest(s) for s in rep['stack']]
        trail = run_stack(nested, rep['mode'], os.getcwd())
        print('observed now:', [(i, nest(t)) for i, t in trail])
        batch = [{'kind': 'merge', 'stack': rep['stack'], 'steps': [i for i, _ in trail], 'trail': [t for _, t in trail]}]
        res = chk.tlc('TraceConfig', 'TraceConfig.cfg', workers=1, env={'TRACE_FILE': common.write_json({'obs': batch}, 'r.json')},
                      coverage=False)
        v = res.tuples('VERDICT')[0]
        print('verdict:', v)
        return 0 if v[1] == v[2] else 1
    if rep['kind'] == 'direct':
        direct_namespace(os.getcwd())
        h = Hierarchy('replay', rep['cls'], rep.get('ghost', (0, 0)), rep.get('ways'))
        for c in rep['order']:
            print('register', c, rep['cls'][c - 1], '->', h.register(c))
        n = len(rep['cls'])
        shaped = ([(3, 100 * s + 10 * e + k) for s in (1, 2, 3) for e in range(s + 1) for k in (0, 1)]
                  + [(4, 10 * s + e) for s in (1, 2) for e in range(s + 1)])  # Bank!URefs
        for via in [0] + [c for c in rep['order'] if c in h.obj]:
            print('via', via, {h.ref(t, k): h.get(via, t, k) for t, k in [(1, 1), (1, 2), (1, 3)] + [(2, k) for k in range(1, n + 1)]})
            print('   unknown-shaped references not answered "missing":', {h.ref(t, k): h.get(via, t, k) for t, k in shaped if h.get(via, t, k) != 0})
        return 1
    if rep['kind'] == 'modules':
        base = tempfile.mkdtemp(prefix='mods-', dir=os.getcwd())
        sys.path.insert(0, base)
        problems = replay_modules(rep, 'replay', base)
        print(problems)
        return 1 if problems else 0
    return 1
