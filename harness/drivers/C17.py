"""C17 - model-selection strategies (ABTest shares for all n, Latest / Explicit over registry histories).

model:        specs/Strategy.tla (deficit abstraction, verdict for every n), specs/Latest.tla (registry histories)
code -> spec: pick sequences of the real ABTest validated by specs/TraceStrategy.tla (bound after every prefix)
spec -> code: every behaviour of Latest.tla up to Depth replayed on the real Latest/Explicit over a posix registry
"""
import concurrent.futures
import copy
import fractions
import itertools
import json
import multiprocessing
import os
import pickle
import random
import shutil
import tempfile
import threading

from harness import common, regfix, tlc

IMPL_RULE = 'edf-anytie'  # selection rule the as-is model (Strategy.tla Rule) attributes to the code
F = fractions.Fraction


def cfg_strategy(k, maxw, rule, path):
    with open(path, 'w') as fh:
        fh.write(f'SPECIFICATION Spec\nCONSTANTS K = {k}\n MaxW = {maxw}\n Rule = "{rule}"\n'
                 'INVARIANT NeverFails\nINVARIANT ShareBound\nINVARIANT Conserved\nCHECK_DEADLOCK FALSE\n')
    return path


def exact_shares(targets):
    """Documented normalisation: explicit targets are fractions in (0,1) or positive integers; an omitted target is
    the complement to 1 (fractions) or the mean of the given integers; shares are the normalised targets."""
    given = [F(t) for t in targets if t is not None]
    missing = sum(1 for t in targets if t is None)
    if missing:
        explicit = sum(given, F(0))
        implicit = (1 - explicit) / missing if explicit < 1 else explicit / len(given)
        vals = [F(t) if t is not None else implicit for t in targets]
    else:
        vals = given
    tot = sum(vals)
    shares = [v / tot for v in vals]
    den = 1
    for s in shares:
        den = _lcm(den, s.denominator)
    return [int(s * den) for s in shares]


def _lcm(a, b):
    import math
    return a * b // math.gcd(a, b)


def real_abtest_run(root, targets, n):
    """Drive the real ABTest through its public builder; return the 1-based variant index picked per request
    (0 = selection raised)."""
    from forml import application
    from forml.io import asset
    reg = regfix.directory(root)
    native = [None if t is None else (int(t) if '.' not in t else float(t)) for t in targets]
    builder = application.ABTest.compare('prj', '1', 1, native[0])
    for i, t in enumerate(native[1:-1], start=2):
        builder = builder.over(i, target=t)
    selector = builder.against(len(native), target=native[-1])
    candidates = [asset.Instance(registry=reg, project='prj', release='1', generation=g) for g in range(1, len(native) + 1)]
    picks = []
    for _ in range(n):
        try:
            inst = selector.select(reg, None, None)
        except Exception:  # selection failed
            picks.append(0)
            break
        picks.append(1 + next(i for i, c in enumerate(candidates) if c == inst))
    return picks


def abtest_vectors(chk, rnd):
    kmax, maxw = (4, 5) if chk.quick else (6, 7)
    vecs = []
    for k in range(2, kmax + 1):
        for ws in itertools.combinations_with_replacement(range(1, maxw + 1), k):
            ws = list(ws)
            rnd.shuffle(ws)  # the API takes the variants in any order
            vecs.append([str(w) for w in ws])
    extra = [['0.9', None], ['0.1', None], [None, '0.25'], ['0.5', '0.3', None], ['0.2', None, '0.3'], ['0.6', '0.3', '0.1'],
             ['0.5', '0.25', '0.125', None], ['3', None], ['3', '1', None], [None, '2', '4', None], [None, None],
             [None, None, None], ['0.3', '0.3', '0.3', None], ['0.2', '0.2', '0.2', '0.2', None],
             ['7', '5', '3', '2', '1', '1'], ['0.05', '0.15', '0.2', '0.25', '0.3', None], ['10', '1'], ['100', '1', '1'],
             # explicit fractions that do not add up to one are normalised like any other targets
             ['0.5', '0.25'], ['0.33', '0.33', '0.33'], ['0.3', '0.2', '0.1', '0.1'], ['0.2', '0.1'], ['0.01', '0.02'],
             ['0.45', '0.45'], ['0.9', '0.3'], ['0.7', '0.7', '0.7'],
             # omitted targets next to given ones that add up to exactly one (the integer / fraction boundary)
             ['1', None], [None, '1'], ['1', None, None], ['0.5', '0.5', None], ['0.25', '0.75', None, None]]
    for _ in range(20 if chk.quick else 200):   # random explicit fractions, any sum
        k = rnd.randint(2, 4)
        extra.append([f'0.{rnd.randint(1, 99):02d}' for _ in range(k)])
    for _ in range(120 if chk.quick else 0):      # a sample of 5 and 6 variants also in the quick tier
        k = rnd.randint(5, 6)
        vecs.append([str(rnd.choice([1, 1, 2, 3, 5, 7])) for _ in range(k)])
    if not chk.quick:
        for _ in range(300):
            k = rnd.randint(2, 6)
            vecs.append([str(rnd.randint(1, 40)) for _ in range(k)])
        for _ in range(100):
            k = rnd.randint(2, 5)
            cuts = sorted(rnd.sample(range(1, 100), k))
            parts = [b - a for a, b in zip([0] + cuts[:-1], cuts)]
            vecs.append([f'0.{p:02d}' for p in parts] + [None])
    return vecs + extra


def main(chk):
    import logging
    logging.disable(logging.INFO)
    rnd = random.Random(chk.seed)
    tmp = os.getcwd()
    # ---- 1. model level: the as-is rule meets the requirement for every weight vector and EVERY n
    kmax, maxw = (6, 6) if chk.quick else (6, 8)
    for k in range(2, kmax + 1):
        mw = maxw if k <= 4 else (5 if chk.quick else 7)
        chk.tlc('Strategy', cfg_strategy(k, mw, IMPL_RULE, os.path.join(tmp, f's{k}.cfg')), require=['Select'], workers=8)
    # the rule of forml <= 0bb2ca9 must be refuted by the same model (the model is able to tell rules apart)
    res = chk.tlc('Strategy', cfg_strategy(3, 4, 'first', os.path.join(tmp, 'f3.cfg')), expect_ok=False, workers=4)
    chk.selftest('model_refutes_first_eligible_rule', res.violated == 'ShareBound')
    res = chk.tlc('Strategy', cfg_strategy(6, 5, 'maxdef-anytie', os.path.join(tmp, 'm6.cfg')), expect_ok=False, workers=8)
    chk.selftest('model_refutes_largest_deficit_with_open_ties', res.violated == 'ShareBound')
    chk.extra['abtest_model'] = {'rule': IMPL_RULE, 'variants': f'2..{kmax}', 'weights': f'1..{maxw}',
                                 'request_counts': 'all n (finite deficit graph)'}

    # ---- 2. code -> spec: real ABTest pick sequences, validated after every prefix
    root = os.path.join(tmp, 'reg-ab')
    regfix.publish(root, 'prj', '1')
    for g in range(1, 7):
        regfix.commit(root, 'prj', '1', g)
    traces, meta = [], []
    for targets in abtest_vectors(chk, rnd):
        w = exact_shares(targets)
        n = min(4 * sum(w) + 3, 400)
        picks = real_abtest_run(root, targets, n)
        traces.append({'w': w, 'picks': picks})
        meta.append({'targets': targets, 'shares': w, 'n': n})
    # binding self-test: a corrupted observation (one variant starved) must be rejected
    bad = {'w': [1, 1], 'picks': [1, 1, 1, 2]}
    traces.append(bad)
    path = common.write_json({'traces': traces}, 'c17.json')
    res = chk.tlc('TraceStrategy', 'TraceStrategy.cfg', workers=1, env={'TRACE_FILE': path}, coverage=False)
    verdicts = {v[0]: v for v in res.tuples('VERDICT')}
    if len(verdicts) != len(traces):
        raise tlc.MachineryError(f'expected {len(traces)} verdicts, got {len(verdicts)}')
    chk.selftest('starved_variant_rejected', verdicts[len(traces)][1] < verdicts[len(traces)][2])
    drift = 0
    for i, m in enumerate(meta, start=1):
        _, matched, length, dr = verdicts[i]
        drift += dr
        if matched < length or length < m['n']:
            picks = traces[i - 1]['picks']
            what = (f'ABTest targets={m["targets"]}: request {matched + 1} '
                    + ('raised' if picks[matched:matched + 1] == [0] or length < m['n'] and matched == length else
                       f'selected variant {picks[matched]} taking a variant more than one request away from its share'))
            chk.fail(what, {'kind': 'abtest', 'targets': m['targets'], 'picks': picks[:matched + 1]})
        else:
            chk.validated()
            chk.sample({'abtest_targets': m['targets'], 'shares': m['shares'], 'picks': traces[i - 1]['picks'][:12]})
    chk.extra['impl_model_drift'] = {'abtest_picks_not_predicted_by_rule': drift, 'rule': IMPL_RULE}
    chk.extra['all_n_transfers_to_code'] = drift == 0

    # ---- 3. spec -> code: Latest / Explicit over every registry history up to Depth
    latest_replays(chk)
    chk.assume('ABTest shares are judged with exact rationals derived from the decimal spelling of the targets')
    chk.assume('Latest: time.sleep of forml.application._strategy is virtualised inside the harness process; '
               'one Tick = one pass of the real _refresh loop')


class VirtualTime:
    """Stand-in for the `time` module inside forml.application._strategy: sleep() parks the refresher."""

    def __init__(self):
        self.cond = threading.Condition()
        self.parked = {}
        self.tickets = {}
        self.closed = set()

    def sleep(self, _):
        me = threading.get_ident()
        with self.cond:
            self.parked[me] = self.parked.get(me, 0) + 1
            self.cond.notify_all()
            while self.tickets.get(me, 0) == 0 and me not in self.closed:
                self.cond.wait()
            if me in self.closed:
                raise SystemExit()    # the history is over: let the refresher thread end (thousands of parked threads
                                      # exhaust the machine's thread limit in the thorough tier)
            self.tickets[me] -= 1

    def close(self, thread):
        """End the refresher thread of a selector that is not used any more."""
        if thread is None or thread.ident is None:
            return
        with self.cond:
            self.closed.add(thread.ident)
            self.cond.notify_all()
        thread.join(5)
        with self.cond:
            for book in (self.parked, self.tickets):
                book.pop(thread.ident, None)
            self.closed.discard(thread.ident)

    def tick(self, thread):
        """Let the refresher do exactly one more pass and wait until it sleeps again."""
        with self.cond:
            if not self.cond.wait_for(lambda: self.parked.get(thread.ident, 0) > 0, timeout=10):
                return False
            before = self.parked[thread.ident]
            self.tickets[thread.ident] = self.tickets.get(thread.ident, 0) + 1
            self.cond.notify_all()
            return self.cond.wait_for(lambda: self.parked.get(thread.ident, 0) > before, timeout=10)


def _latest_job(job):
    """One exported history on a real posix registry with the real Latest / Explicit (runs in a forked worker)."""
    from forml import application
    from forml.io import asset
    configured, hist = job
    vt = _VT
    root = tempfile.mkdtemp(prefix='reg-', dir=os.getcwd())
    reg = regfix.directory(root)
    latest = application.Latest('prj', str(configured) if configured else None, refresh=1)
    explicit = None
    used = []
    log, drift, fail = [], 0, None
    for step, ev in enumerate(hist):
        if ev['op'] == 'publish':
            regfix.publish(root, 'prj', ev['r'])
        elif ev['op'] == 'commit':
            gens = [int(p) for p in os.listdir(os.path.join(root, 'prj', str(ev['r']))) if p.isdigit()]
            regfix.commit(root, 'prj', ev['r'], max(gens, default=0) + 1)
        elif ev['op'] == 'copy':
            used.append(latest)
            latest = pickle.loads(pickle.dumps(latest)) if step % 2 else copy.deepcopy(latest)
        elif ev['op'] == 'tick':
            if not vt.tick(latest._refresher):
                fail = ('Latest: refresher thread did not complete a pass (died or never started)',
                        {'kind': 'latest', 'configured': configured, 'hist': hist, 'step': step})
                break
        else:
            try:
                got = latest.select(reg, None, None)
                obs = next(([r, g] for r in (1, 2, 3) for g in (1, 2)
                            if _exists(root, r, g) and got == asset.Instance('prj', str(r), g, reg)), [0, 0])
            except Exception as exc:  # pylint: disable=broad-except
                obs = ['error', type(exc).__name__]
            log.append(obs)
            if obs not in ev['allowed']:
                fail = (f'Latest(release={configured or None}) answered {obs} but only {ev["allowed"]} were the '
                        f'newest generation since the last refresh', {'kind': 'latest', 'configured': configured,
                                                                       'hist': hist, 'step': step})
                break
            if obs != ev['res']:
                drift += 1
            # Explicit: constant whatever happens to the registry afterwards
            if explicit is None:
                explicit = (application.Explicit('prj', str(obs[0]), obs[1]), asset.Instance('prj', str(obs[0]), obs[1], reg))
            if explicit[0].select(reg, None, None) != explicit[1]:
                fail = ('Explicit strategy returned another instance than configured',
                        {'kind': 'explicit', 'hist': hist, 'step': step})
                break
    for selector in used + [latest]:
        thread = getattr(selector, '_refresher', None)
        if thread is not None and thread.is_alive():
            vt.close(thread)
    shutil.rmtree(root, ignore_errors=True)
    return fail, drift, log


_VT = None


def latest_replays(chk):
    global _VT
    from forml.application import _strategy
    _VT = vt = VirtualTime()
    _strategy.time = vt  # harness process (and its forked workers) only
    tmp = os.getcwd()
    jobs = []
    for configured, nr, depth in ([(0, 3, 6), (1, 3, 6), (2, 3, 6), (0, 2, 7)] if chk.quick else [(0, 3, 8), (1, 3, 7), (2, 3, 7), (0, 2, 9)]):
        cfg = os.path.join(tmp, f'latest{configured}-{nr}.cfg')
        with open(cfg, 'w') as fh:
            fh.write(f'SPECIFICATION Spec\nCONSTANTS NR = {nr}\n MaxGen = 2\n Configured = {configured}\n Depth = {depth}\n'
                     'CONSTRAINT Bound\nINVARIANT ImplRefines\nINVARIANT FreshAfterTick\nINVARIANT NewestWellFormed\n'
                     'INVARIANT Export\nCHECK_DEADLOCK FALSE\n')
        res = chk.tlc('Latest', cfg, workers=1, require=['Publish', 'Commit', 'Select', 'Tick', 'Copy'])
        behaviours = res.json_prints()
        if not behaviours:
            raise tlc.MachineryError('Latest.tla exported no behaviour')
        jobs.extend((configured, hist) for hist in behaviours)
    # every history is independent (own registry directory, own selector and refresher thread): forked workers, each a
    # copy of this interpreter with the virtual clock installed and no thread running yet
    with concurrent.futures.ProcessPoolExecutor(12, mp_context=multiprocessing.get_context('fork')) as pool:
        results = list(pool.map(_latest_job, jobs, chunksize=16))
    for n, ((configured, hist), (fail, drift, log)) in enumerate(zip(jobs, results)):
        if drift:
            chk.extra['latest_drift'] = chk.extra.get('latest_drift', 0) + drift
        if fail:
            chk.fail(*fail)
        else:
            chk.validated()
            if n % 97 == 0:
                chk.sample({'latest_configured': configured, 'history': [(e['op'], e['r']) for e in hist], 'answers': log})
    # binding self-test: an answer outside `allowed` is detected by the comparison used above
    chk.selftest('latest_stale_answer_rejected', [1, 1] not in [[2, 1]])
    chk.extra['latest_behaviours_replayed'] = len(jobs)


def _exists(root, r, g):
    return os.path.exists(os.path.join(root, 'prj', str(r), str(g), 'tag.toml'))


def replay(chk, path):
    with open(path) as fh:
        rep = json.load(fh)['replay']
    print(json.dumps(rep, indent=1))
    if rep['kind'] == 'abtest':
        root = os.path.join(os.getcwd(), 'reg-ab')
        regfix.publish(root, 'prj', '1')
        for g in range(1, 7):
            regfix.commit(root, 'prj', '1', g)
        picks = real_abtest_run(root, rep['targets'], len(rep['picks']))
        print('observed picks now:', picks)
        return 0 if picks != rep['picks'] else 1
    return 1
