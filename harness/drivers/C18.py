"""C18 - persisted metadata and keys read back exactly as written.

model:        specs/Keys.tla      PEP 440 order transcribed from the prose of the PEP (hierarchical) + the sort-key shaped
                                  formulation, generation keys = naturals from 1, level listings sorted / duplicate-free /
                                  invalid names rejected / latest = max, a commit = a new key that is the new maximum
              specs/TagCodec.tla  tag value domain, trigger / replace / dump / load life cycle, Load(Dump(t)) = t
              specs/Packages.tla  manifest write/read, zip + directory packages, install (over earlier installs), components
                                  under every module reference style (conventional, relative, relative with a name that begins
                                  with the package name, absolute) next to top-level namesakes of the relative names
spec -> code: every level state of Keys.tla is rendered as a real posix registry tree and listed through asset.Directory on a
              registry provider that reports the entries in the form of the state (constructed keys = the bundled posix
              provider; plain names / plain numbers = a thin provider of the same storage, as asset.Registry.releases /
              generations allow); a report holding a name that is no key may be refused as a whole (Keys.tla MayReject);
              every Commit step of Keys.tla (Release.put out of every generation level state: gaps, foreign names, empty) is
              replayed with Release.dump / put and read back in the committing process and through a fresh Directory;
              the full comparison matrix is replayed on the real key types in every spelling; every transition and one
              witness history per dumped tag of TagCodec.tla is replayed on the real Tag (constructor, replace, trigger,
              dumps/loads and Release.dump/put + a fresh Directory); every vector of Packages.tla is replayed on real
              source trees / packages / installs
code -> spec: seeded random sessions on the real Tag + posix registry (some continuing from a generation stored under an
              explicit number; the provider form drawn per session) are validated by specs/TraceTagCodec.tla; real listings of
              random release levels (random PEP 440 versions beyond the lattice, one in three reported by plain names) are
              judged by specs/TraceKeys.tla
"""
import collections
import datetime
import decimal
import itertools
import json
import multiprocessing
import os
import pathlib
import random
import shutil
import sys
import tempfile
import traceback
import uuid

from harness import common, regfix, tlc

_SCRATCH = []


def scratch():
    """Directory for the registry / package trees of this run: tmpfs when there is one (rmdir on the disk behind /tmp costs
    ~0.5 ms here), else the sandbox cwd. Removed explicitly at the end of main (the harness leaves through os._exit)."""
    if not _SCRATCH:
        base = '/dev/shm' if os.path.isdir('/dev/shm') and os.access('/dev/shm', os.W_OK) else os.getcwd()
        _SCRATCH.append(tempfile.mkdtemp(prefix='verif-c18-', dir=base))
    return _SCRATCH[0]


_CTX = {}  # read-only context of the item functions below (inherited by the forked pool workers)


def _run_chunk(args):
    fname, chunk = args
    import logging
    logging.disable(logging.WARNING)
    func = globals()[fname]
    out = []
    for item in chunk:
        try:
            out.append(func(item))
        except Exception as exc:  # pylint: disable=broad-except
            frames = traceback.extract_tb(exc.__traceback__)
            if any(f.filename.startswith(common.REPO + os.sep) for f in frames):
                # an exception that came out of forml where the replay expected none: an observation about the code
                out.append({'escaped': f'{type(exc).__name__}: {exc}'})
            else:
                out.append({'crash': f'{type(exc).__name__}: {exc}'})
    return out


def pmap(func, items, nproc):
    """Replay items on the real code in `nproc` forked processes (order preserving). A crash of the replay code itself
    (not of forml, which the item functions catch) is a machinery error."""
    scratch()
    items = list(items)
    n = max(1, min(len(items), nproc * 8))
    chunks = [items[i::n] for i in range(n)]
    with multiprocessing.get_context('fork').Pool(nproc) as pool:
        results = pool.map(_run_chunk, [(func.__name__, c) for c in chunks])
    out = [None] * len(items)
    for i, res in enumerate(results):
        out[i::n] = res
    for r in out:
        if isinstance(r, dict) and 'crash' in r:
            raise tlc.MachineryError(f'{func.__name__}: replay code crashed: {r["crash"]}')
    return out


# ------------------------------------------------------------------------------------------------ keys: concretisation
PHASE = {1: 'a', 2: 'b', 3: 'rc'}
ALPHA = {1: 'abc', 2: 'abd', 3: 'b'}  # dictionary of alphabetic local segments (ordered as in Keys.tla)
INVALID_RELEASE = ['abc', '1.0.x', '1..0', '1.0-', '1_0', '1.0+', '-1', '1.0a1b2', '.stage', '1.0.post1.post2']
INVALID_GENERATION = ['abc', '1.5', '.stage', '1e3', '0x1', '1a', '1.0', 'one']
# spellings of integers that python's int() accepts but nobody writes ('1_0', '+5', ' 3 ', unicode digits) are left
# out: the property speaks of natural numbers, not of their spellings


def render_version(ver, spelling):
    """PEP 440 spelling of an abstract version record: 1 = normalised, 2 / 3 = alternative spellings the PEP declares
    equivalent (v prefix, case, long pre-release names, separators, leading zeros, implicit numbers)."""
    e, rel, pp, pn, post, dev, loc = ver['e'], ver['r'], ver['pp'], ver['pn'], ver['post'], ver['dev'], ver['loc']
    if spelling == 1:
        out = (f'{e}!' if e else '') + '.'.join(str(c) for c in rel)
        if pp:
            out += f'{PHASE[pp]}{pn}'
        if post != -1:
            out += f'.post{post}'
        if dev != -1:
            out += f'.dev{dev}'
        if loc:
            out += '+' + '.'.join(str(s['v']) if s['num'] else ALPHA[s['v']] for s in loc)
        return out
    if spelling == 2:
        out = 'V' + (f'0{e}!' if e else '') + '.'.join(str(c) for c in rel)
        if pp:
            out += '-' + {1: 'ALPHA', 2: 'Beta', 3: 'c'}[pp] + f'.{pn}'
        if post != -1:
            out += f'-rev-{post}'
        if dev != -1:
            out += f'_DEV_{dev}'
        if loc:
            out += '+' + '-'.join(str(s['v']) if s['num'] else ALPHA[s['v']].upper() for s in loc)
        return out
    out = (f'{e}!' if e else '0!') + '.'.join(f'0{c}' for c in rel)
    if pp:
        out += {1: 'alpha', 2: 'b', 3: 'preview'}[pp] + (str(pn) if pn else '')
    if post != -1:
        out += ('post' + (str(post) if post else '')) if (pp or post != 1) else '-1'
    if dev != -1:
        out += 'dev' + (str(dev) if dev else '')
    if loc:
        out += '+' + '_'.join(f'0{s["v"]}' if s['num'] else ALPHA[s['v']] for s in loc)
    return out


def norm_version(ver):
    rel = list(ver['r'])
    while rel and rel[-1] == 0:
        rel.pop()
    return (ver['e'], tuple(rel), (ver['pp'], ver['pn']), ver['post'], ver['dev'],
            tuple((bool(s['num']), s['v'] if s['num'] else ALPHA[s['v']]) for s in ver['loc']))


def number(key):
    """Denotation of a listed generation key (None: what was listed is not a number)."""
    try:
        return int(key)
    except (TypeError, ValueError):
        return None


def project_release_key(key):
    """Denotation of a real Release.Key, from the public attributes of packaging's Version (None: what was listed is no version)."""
    if isinstance(key, str):  # a plain name in a listing denotes the version it spells (judged as such, not by its type)
        import packaging.version
        try:
            key = packaging.version.Version(key)
        except packaging.version.InvalidVersion:
            return None
    if not all(hasattr(key, a) for a in ('epoch', 'release', 'pre', 'post', 'dev', 'local')):
        return None
    rel = list(key.release)
    while rel and rel[-1] == 0:
        rel.pop()
    pre = (0, 0) if key.pre is None else ({'a': 1, 'b': 2, 'rc': 3}[key.pre[0]], key.pre[1])
    loc = () if key.local is None else tuple((p.isdigit(), int(p) if p.isdigit() else p) for p in key.local.split('.'))
    return (key.epoch, tuple(rel), pre, -1 if key.post is None else key.post, -1 if key.dev is None else key.dev, loc)


class Lattice:
    def __init__(self, obj):
        self.mode = obj['mode']
        self.keys = obj['keys']
        self.cmp = obj['cmp']
        self.n = len(self.keys)
        if self.mode == 'release':
            self.by_norm = {}
            for i, k in enumerate(self.keys, start=1):
                self.by_norm.setdefault(norm_version(k['ver']), k['canon'])
        else:
            self.by_norm = {k['gen']: k['canon'] for k in self.keys}

    def name(self, entry, nspell):
        """Directory name / constructor argument of an abstract entry."""
        if entry['v'] == 0:
            return (INVALID_RELEASE if self.mode == 'release' else INVALID_GENERATION)[entry['s'] - 1]
        if self.mode == 'release':
            return render_version(self.keys[entry['v'] - 1]['ver'], entry['s'])
        return str(self.keys[entry['v'] - 1]['gen'])

    def canon_of(self, real):
        """Class representative of a listed real key; None when what was listed denotes no key of the lattice."""
        if self.mode == 'release':
            return self.by_norm.get(project_release_key(real))
        return self.by_norm.get(number(real))


def keys_cfg(path, mode, tier, maxkeys, nspell, ninvalid):
    with open(path, 'w') as fh:
        fh.write(f'SPECIFICATION Spec\nCONSTANTS Mode = "{mode}"\n Tier = "{tier}"\n MaxKeys = {maxkeys}\n NSpell = {nspell}\n'
                 f' NInvalid = {ninvalid}\nINVARIANT ListingSorted\nINVARIANT ListingComplete\nINVARIANT InvalidRejected\n'
                 'INVARIANT LatestIsMax\nINVARIANT GenerationsNatural\nINVARIANT CommitIsNatural\nINVARIANT CommitIsNew\n'
                 'INVARIANT CommitIsLatest\nINVARIANT CommitIsSuccessor\nINVARIANT FormIrrelevant\nINVARIANT Export\nCHECK_DEADLOCK FALSE\n')
    return path


def listing_verdict(lat, expected, observed_keys):
    """observed listing (real keys) against TLC's expected listing (class representatives)."""
    observed = [lat.canon_of(k) for k in observed_keys]
    return observed == list(expected)


class Raised(str):
    """An exception of forml other than the documented 'no such level / empty listing' ones: an observation, not a crash."""


class Rejected(str):
    """Level.Key.Invalid out of listing a level / resolving its latest key: the report of the provider was refused."""


FORMS = ('key', 'str', 'int')  # Keys.tla: the forms in which a registry provider may report the entries of a level
_PROVIDER = {}


def provider(root, form='key'):
    """A registry provider on the posix tree under `root` reporting releases / generations in the given form of Keys.tla:
    'key' = the bundled posix provider (constructed keys); 'str' / 'int' = a provider of the same storage that reports what the
    level holds (documented on-disk layout: <root>/<project>/<release>/package.4ml, .../<generation>/tag.toml) by the plain
    names, resp. by plain numbers where the name is one - asset.Registry.releases / generations allow either."""
    from forml.provider.registry.filesystem import posix
    if form == 'key':
        return posix.Registry(root)
    if 'cls' not in _PROVIDER:
        class Reporting(posix.Registry):
            """Thin third-party style provider (everything but the listings is the posix one)."""

            def __init__(self, path, form):
                super().__init__(path)
                self.reported_root, self.reported_form = pathlib.Path(path).resolve(), form

            def _report(self, level, content):
                try:
                    names = [p.name for p in level.iterdir() if p.is_dir() and (p / content).exists()]
                except FileNotFoundError:
                    return []
                if self.reported_form == 'int':
                    return [int(n) if n.lstrip('-').isascii() and n.lstrip('-').isdigit() else n for n in names]
                return names

            def releases(self, project):
                return self._report(self.reported_root / str(project), 'package.4ml')

            def generations(self, project, release):
                return self._report(self.reported_root / str(project) / str(release), 'tag.toml')

        _PROVIDER['cls'] = Reporting
    return _PROVIDER['cls'](root, form)


def directory(root, form='key'):
    from forml.io import asset
    return asset.Directory(provider(root, form))


def real_level(lat, names, tmp, form='key'):
    """Materialise a level with the given sub-directory names in a fresh posix registry tree and list it through the public
    asset.Directory API on a provider reporting in the given form. Returns (listing as real keys | None when the level does
    not exist | Rejected | Raised, latest | None | Rejected | Raised)."""
    from forml.io import asset
    root = tempfile.mkdtemp(prefix='lvl-', dir=tmp)
    try:
        if lat.mode == 'release':
            for n in names:
                regfix.publish(root, 'prj', n)
            os.makedirs(os.path.join(root, 'prj'), exist_ok=True)
            level = lambda: directory(root, form).get('prj')
        else:
            regfix.publish(root, 'prj', '1')
            for n in names:
                path = pathlib.Path(root) / 'prj' / '1' / n
                path.mkdir(parents=True, exist_ok=True)
                (path / 'tag.toml').write_bytes(regfix.tag_bytes())
            level = lambda: directory(root, form).get('prj').get('1')
        try:
            listing = list(level().list())
        except asset.Level.Key.Invalid as exc:
            listing = Rejected(f'{type(exc).__name__}: {exc}')
        except (asset.Level.Invalid, asset.Level.Listing.Empty):
            listing = None  # a project without a single valid release is not a project
        except Exception as exc:  # pylint: disable=broad-except
            listing = Raised(f'{type(exc).__name__}: {exc}')
        try:
            latest = level().get(None).key
        except asset.Level.Key.Invalid as exc:
            latest = Rejected(f'{type(exc).__name__}: {exc}')
        except (asset.Level.Invalid, asset.Level.Listing.Empty):
            latest = None
        except Exception as exc:  # pylint: disable=broad-except
            latest = Raised(f'{type(exc).__name__}: {exc}')
        return listing, latest
    finally:
        shutil.rmtree(root, ignore_errors=True)


def _listing_item(st):
    lat, nspell = _CTX['lat'], _CTX['nspell']
    mode = lat.mode
    names = [lat.name(d, nspell) for d in st['dirs']]
    form = st.get('form', 'key')
    listing, latest = real_level(lat, names, scratch(), form)
    replay = {'kind': 'listing', 'mode': mode, 'names': names, 'form': form, 'expected': [lat.name({'v': c, 's': 1}, nspell) for c in st['listing']]}
    mode = mode if form == 'key' else f'{mode} (provider reporting the entries as {form})'
    if not st.get('mayreject'):  # only the report of a name that is no key may be refused as a whole (Keys.tla MayReject)
        listing, latest = (Raised(x) if isinstance(x, Rejected) else x for x in (listing, latest))
    if isinstance(listing, Raised) or isinstance(latest, Raised):
        text = listing if isinstance(listing, Raised) else latest
        replay['observed'] = [[str(text)], None]
        return {'fail': f'{mode} level with sub-directories {names}: listing it / resolving its latest key raised {text}',
                'replay': replay, 'listing': None}
    refused = [isinstance(listing, Rejected), isinstance(latest, Rejected)]  # (each conforms by itself)
    if refused[0]:
        listing = None
    out = {'fail': None, 'replay': replay, 'listing': None if listing is None else [str(k) for k in listing], 'refused': any(refused)}
    replay['observed'] = [['refused'] if refused[0] else out['listing'], None if latest is None else str(latest)]
    if refused[0]:
        listing = None if refused[1] else []
        if refused[1]:
            return out
    elif listing is None:
        if st['listing']:
            out['fail'] = f'{mode} level {names}: not listable although it holds valid keys'
            return out
        listing = []
    if not listing_verdict(lat, st['listing'], listing):
        out['fail'] = (f'{mode} level with sub-directories {names}: listed as {[str(k) for k in listing]}, expected '
                       f'{replay["expected"]} (sorted, duplicate-free, invalid names rejected)')
        return out
    want_latest = st['latest'] or None
    got_latest = None if latest is None else lat.canon_of(latest)
    if got_latest != want_latest and not refused[1]:
        out['fail'] = f'{mode} level {names}: latest is {latest!r}, expected the maximum {replay["expected"][-1:]}'
    return out


def level_tag(n, sids=()):
    """The (distinct) tag stored for generation number n of a level."""
    from forml.io import asset
    return asset.Tag(training=asset.Tag.Training(datetime.datetime(2020, 1, 1) + datetime.timedelta(days=n, seconds=n), n),
                     tuning=asset.Tag.Tuning(datetime.datetime(2020, 6, 1), n / 8), states=sids)


def _commit_item(st):
    """Replay a Commit step of Keys.tla: materialise the level the step starts from (valid generations stored under their
    explicit numbers with the provider API Registry.write / close, each with its own tag and state; foreign names as plain
    sub-directories), commit one more generation the life-cycle way (Release.dump + Release.put) and observe, in the
    committing process and through a fresh Directory, what the level holds afterwards."""
    from forml.io import asset
    from forml.provider.registry.filesystem import posix
    root = tempfile.mkdtemp(prefix='put-', dir=scratch())
    try:
        regfix.publish(root, 'prj', '1')
        project, release = asset.Project.Key('prj'), asset.Release.Key('1')
        written = {}
        for name, n in st['entries']:
            if n is not None:
                sid = uuid.uuid4()
                registry = posix.Registry(root)
                registry.write(project, release, sid, b'state-of-%d' % n)
                registry.close(project, release, asset.Generation.Key(n), level_tag(n, (sid,)))
                written[n] = sid
            else:
                path = pathlib.Path(root) / 'prj' / '1' / name
                path.mkdir(parents=True, exist_ok=True)
                (path / 'tag.toml').write_bytes(regfix.tag_bytes())
        form = st.get('form', 'key')
        try:
            return _commit_observe(root, form, written)
        except asset.Level.Key.Invalid as exc:  # the provider's report of a name that is no key was refused
            return {'refused': f'{type(exc).__name__}: {exc}'}
    finally:
        shutil.rmtree(root, ignore_errors=True)


def _commit_observe(root, form, written):
    from forml.io import asset
    level = open_release(root, '1', form)
    try:
        before = [number(k) for k in level.list()]
    except asset.Level.Listing.Empty:
        before = []
    # what a run does before it commits: it opens the latest generation (if any)
    warm = not before or before[-1] not in written or level.get(None).tag == level_tag(before[-1], (written[before[-1]],))
    sid = level.dump(b'committed-state')
    tag = level_tag(1000, (sid,))
    gen = level.put(tag)
    obs = {'before': before, 'before_ok': warm and sorted(written) == before, 'returned': number(gen.key),
           'returned_tag_ok': gen.tag == tag}
    fresh = open_release(root, '1', form)
    obs['after'] = [number(k) for k in fresh.list()]
    latest = fresh.get(None)
    obs['latest'] = number(latest.key)
    obs['latest_tag_ok'] = latest.tag == tag
    obs['latest_state_ok'] = latest.get(0) == b'committed-state' and latest.get(sid) == b'committed-state'
    kept = {}
    for n, old in written.items():
        try:
            kept[str(n)] = fresh.get(n).tag == level_tag(n, (old,))
        except Exception as exc:  # pylint: disable=broad-except
            if not through_forml(exc):
                raise
            kept[str(n)] = False
    obs['kept'] = kept
    return obs


def commit_verdict(st, obs):
    """The observed commit against what Keys.tla exported for the step (`put` = number of the committed generation, `after` =
    listing afterwards as numbers). None when it conforms, else what differs."""
    if 'refused' in obs:  # Keys.tla MayReject: only the report of a name that is no key may be refused as a whole
        return None if st.get('mayreject') else f'listing the level / committing a generation on top of it raised {obs["refused"]}'
    if not obs['before_ok']:
        return f'generations stored under the numbers {st["after"][:-1]} are listed as {obs["before"]} / do not read back as written'
    if obs['returned'] != st['put']:
        return (f'the generation committed on top of {obs["before"]} got the number {obs["returned"]}, expected {st["put"]} '
                f'(the successor of the latest one)')
    if not obs['returned_tag_ok']:
        return f'Release.put(tag) on top of {obs["before"]} returned generation {obs["returned"]} whose tag is not the tag just committed'
    if obs['after'] != st['after']:
        return f'after committing a generation on top of {obs["before"]} the level lists {obs["after"]}, expected {st["after"]}'
    if obs['latest'] != st['put'] or not obs['latest_tag_ok'] or not obs['latest_state_ok']:
        return (f'after committing a generation on top of {obs["before"]} a fresh Directory resolves the latest generation to '
                f'{obs["latest"]} (tag as committed: {obs["latest_tag_ok"]}, state as committed: {obs["latest_state_ok"]}), '
                f'expected generation {st["put"]} with the committed tag and state')
    lost = sorted(int(n) for n, ok in obs['kept'].items() if not ok)
    if lost:
        return f'committing a generation on top of {obs["before"]} changed the tag of the existing generation(s) {lost}'
    return None


def random_version(rnd):
    def seg():
        return {'num': True, 'v': rnd.choice([0, 1, 10])} if rnd.random() < 0.5 else {'num': False, 'v': rnd.choice(list(ALPHA))}

    pp = rnd.choice([0, 0, 1, 2, 3])
    return {'e': rnd.choice([0, 0, 0, 1, 2]), 'r': [rnd.choice([0, 1, 2, 9, 10, 11]) for _ in range(rnd.randint(1, 4))], 'pp': pp,
            'pn': rnd.choice([0, 1, 2, 10]) if pp else 0, 'post': rnd.choice([-1, -1, 0, 1, 2, 10]), 'dev': rnd.choice([-1, -1, 0, 1, 3, 11]),
            'loc': [] if rnd.random() < 0.7 else [seg() for _ in range(rnd.randint(1, 2))]}


def _random_level_item(item):
    """List a level of randomly drawn versions (random spellings, some equal keys, some invalid names) with the real code."""
    vers, names, form = item
    lat = collections.namedtuple('L', 'mode')('release')
    listing, latest = real_level(lat, names, scratch(), form)
    if isinstance(listing, (Raised, Rejected)) or isinstance(latest, (Raised, Rejected)):
        text = str(listing if isinstance(listing, (Raised, Rejected)) else latest)
        return {'listing': [0], 'latest': 0, 'text': text, 'latest_text': None}
    norms = [norm_version(v) for v in vers]

    def index(key):
        proj = project_release_key(key)
        return next((i for i, n in enumerate(norms, start=1) if n == proj), 0)

    return {'listing': [index(k) for k in listing or []], 'latest': 0 if latest is None else index(latest),
            'text': None if listing is None else [str(k) for k in listing], 'latest_text': None if latest is None else str(latest)}


def random_levels(chk, rnd):
    """code -> spec: real listings of random release levels judged by TraceKeys.tla (Less / Eq of Keys.tla)."""
    n = 400 if chk.quick else 5000
    items = []
    for _ in range(n):
        vers = [random_version(rnd) for _ in range(rnd.randint(0, 7))]
        for v in list(vers):
            if rnd.random() < 0.25:  # an equal key under another name: more / fewer trailing zeros
                twin = dict(v, r=v['r'] + [0] if rnd.random() < 0.5 or v['r'][-1] != 0 or len(v['r']) == 1 else v['r'][:-1])
                vers.append(twin)
        names, kept = [], []
        for v in vers:
            name = render_version(v, rnd.randint(1, 3))
            if name not in names:
                names.append(name)
                kept.append(v)
        extra = [x for x in INVALID_RELEASE if rnd.random() < 0.1]
        # one level in three is reported by a provider that hands over the plain names (with invalid names among them the
        # report may be refused as a whole, which TraceKeys.tla does not model: those levels stay with the posix provider)
        items.append((kept, names + extra, 'str' if not extra and rnd.random() < 0.34 else 'key'))
    outs = [{'listing': [0], 'latest': 0, 'text': o['escaped'], 'latest_text': None} if 'escaped' in o else o
            for o in pmap(_random_level_item, items, chk_procs(chk))]
    obs, reported = [], set()
    for (vers, names, form), out in zip(items, outs):
        if 0 in out['listing'] or (out['latest'] == 0 and vers):
            reported.add(len(obs) + 1)
            chk.fail(f'release level {names}: listed {out["text"]} / latest index {out["latest"]}: raised, or a key that was never written',
                     {'kind': 'listing', 'mode': 'release', 'names': names, 'form': form, 'observed': [out['text'], out['latest_text']]})
            out = dict(out, listing=[], latest=0)  # judged (and rejected) below unless the level is empty
        obs.append({'vers': vers, 'listing': out['listing'], 'latest': out['latest']})
    # binding self-test: a listing in the order of the textual form must be rejected
    obs.append({'vers': [{'e': 0, 'r': [1, 9], 'pp': 0, 'pn': 0, 'post': -1, 'dev': -1, 'loc': []},
                         {'e': 0, 'r': [1, 10], 'pp': 0, 'pn': 0, 'post': -1, 'dev': -1, 'loc': []}], 'listing': [2, 1], 'latest': 1})
    path = common.write_json({'obs': obs}, 'c18-levels.json')
    res = chk.tlc('TraceKeys', 'TraceKeys.cfg', workers=1, env={'TRACE_FILE': path}, coverage=False, timeout=900)
    verdicts = {v[0]: v[1] for v in res.tuples('VERDICT')}
    if len(verdicts) != len(obs) or -1 in verdicts.values():
        raise tlc.MachineryError(f'TraceKeys: expected {len(obs)} verdicts, got {len(verdicts)}')
    if 2 in verdicts.values():
        raise tlc.MachineryError('TraceKeys: the two formulations of the PEP 440 order in Keys.tla disagree on an observed pair')
    chk.selftest('random_level_textual_order_rejected', verdicts[len(obs)] == 0)
    good = 0
    for i, ((vers, names, form), out) in enumerate(zip(items, outs), start=1):
        if verdicts[i] == 1:
            good += 1
        elif i not in reported:
            chk.fail(f'release level with sub-directories {names}: listed as {out["text"]} - not the strictly ascending PEP 440 '
                     f'sequence of the distinct keys / latest not the maximum' + ('' if form == 'key' else f' (provider reporting the entries as {form})'),
                     {'kind': 'listing', 'mode': 'release', 'names': names, 'form': form, 'observed': [out['text'], out['latest_text']]})
    chk.validated(good)
    big = max(range(len(items)), key=lambda i: len(outs[i]['listing']))
    chk.sample({'random_release_level': items[big][1], 'listing': outs[big]['text']})
    chk.extra['keys']['random_levels_validated'] = n
    chk.extra['keys']['random_levels_reported_by_plain_names'] = sum(i[2] == 'str' for i in items)


def commits_part(chk, lat, nspell, commits, label):
    done = gaps = refused = 0
    steps = []
    for st in commits:  # (name, generation number | None for a name that is no generation key) of every sub-directory
        entries = [[lat.name(d, nspell), lat.keys[d['v'] - 1]['gen'] if d['v'] and lat.keys[d['v'] - 1]['valid'] else None] for d in st['dirs']]
        steps.append({'entries': entries, 'put': st['put'], 'after': st['after'], 'form': st['form'], 'mayreject': st['mayreject']})
    commits = steps
    for st, obs in zip(commits, pmap(_commit_item, commits, chk_procs(chk))):
        names = [e[0] for e in st['entries']]
        replay = {'kind': 'commit', 'step': st}
        if 'escaped' in obs:
            chk.fail(f'generation level with sub-directories {names}: committing one more generation / reading the level back: '
                     f'forml raised {obs["escaped"]}', replay)
            continue
        what = commit_verdict(st, obs)
        if what:
            chk.fail(f'generation level with sub-directories {names}: {what}', replay)
            continue
        done += 1
        if 'refused' in obs:  # (allowed: the provider reported a name that is no key)
            refused += 1
            continue
        before = st['after'][:-1]
        if before != list(range(1, len(before) + 1)):
            gaps += 1
            if gaps % 199 == 1:
                chk.sample({'commit_on_top_of': names, 'committed_as': st['put'], 'listing_afterwards': obs['after']})
    chk.validated(done)
    if not gaps and not chk.violations:
        raise tlc.MachineryError('Keys: no Commit step out of a non-contiguous listing was replayed')
    byform = {f: sum(c['form'] == f for c in commits) for f in FORMS}
    if not all(byform.values()):
        raise tlc.MachineryError(f'Keys: Commit steps per provider form: {byform}')
    some = next((c for c in commits if c['form'] != 'key' and not c['mayreject'] and len(c['after']) >= 2), None)
    if some is None:
        raise tlc.MachineryError('Keys: no Commit step on a level reported in a raw form')
    chk.selftest(f'{label}_commit_refused_without_invalid_name_rejected', commit_verdict(some, {'refused': 'Invalid'}) is not None)
    # binding self-test: the observation of a commit that numbers the generation by the count of the listing is rejected
    st = next((c for c in commits if len(c['after']) >= 3 and c['after'][:-1] != list(range(1, len(c['after'])))), None)
    if st is None:
        raise tlc.MachineryError('Keys: no Commit step out of a non-contiguous listing of two generations or more')
    count = len(st['after'])
    forged = {'before': st['after'][:-1], 'before_ok': True, 'returned': count, 'returned_tag_ok': True,
              'after': sorted(set(st['after'][:-1]) | {count}), 'latest': max(st['after'][-2], count), 'latest_tag_ok': True,
              'latest_state_ok': True, 'kept': {}}
    honest = dict(forged, returned=st['put'], after=st['after'], latest=st['put'])
    chk.selftest(f'{label}_commit_numbered_by_count_rejected', commit_verdict(st, forged) is not None and commit_verdict(st, honest) is None)
    chk.extra.setdefault('keys', {}).setdefault('commits', {})[label] = {'commit_steps_replayed': len(commits), 'on_non_contiguous_listings': gaps, 'provider_forms': byform,
                                                                          'reports_of_invalid_names_refused': refused}


def chk_procs(chk):
    return int(os.environ.get('VERIF_PROCS') or (4 if chk.quick else 8))


def sign(a, b):
    lt, eq, gt = a < b, a == b, a > b
    if [lt, eq, gt].count(True) != 1:
        return None
    return -1 if lt else (0 if eq else 1)


def keys_part(chk, rnd):
    from forml.io import asset
    import forml
    tmp = os.getcwd()
    total_states = 0
    # (label, mode, lattice, spellings, invalid names, entries per level)
    if chk.quick:
        plans = [('release', 'release', 'quick', 2, 4, 3), ('generation', 'generation', 'quick', 1, 4, 4)]
    else:  # the large lattice in pairs of every spelling, the small one in levels of up to four entries
        plans = [('release', 'release', 'thorough', 3, 8, 2), ('release-levels', 'release', 'quick', 2, 4, 4),
                 ('generation', 'generation', 'thorough', 1, 7, 5)]
    for label, mode, tier, nspell, ninv, maxkeys in plans:
        cfg = keys_cfg(os.path.join(tmp, f'keys-{label}.cfg'), mode, tier, maxkeys, nspell, ninv)
        res = chk.tlc('Keys', cfg, require=['AddValid', 'AddInvalid'] + (['Commit'] if mode == 'generation' else []), workers=4,
                      timeout=1200)
        prints = res.json_prints()
        lats = [p['lattice'] for p in prints if 'lattice' in p]
        states = [p for p in prints if 'dirs' in p]
        if len(lats) != 1 or len(states) != res.distinct:
            raise tlc.MachineryError(f'Keys/{mode}: expected one lattice and {res.distinct} level states, got {len(lats)}/{len(states)}')
        commits = [p for p in states if p['put']]       # Commit steps: the level they start from + the expected outcome
        states = [p for p in states if not p['put']]
        if mode == 'generation' and len(commits) != len(states):
            raise tlc.MachineryError(f'Keys/{mode}: expected a Commit step out of each of the {len(states)} level states, got {len(commits)}')
        lat = Lattice(lats[0])
        Key = asset.Release.Key if mode == 'release' else asset.Generation.Key
        # ---- constructors: every spelling of every lattice key, every invalid name
        real = {}
        for i, k in enumerate(lat.keys, start=1):
            for s in range(1, nspell + 1):
                text = lat.name({'v': i, 's': s}, nspell)
                args = [text] if mode == 'release' else [text, int(text), f'0{text}' if int(text) >= 0 else text]
                for arg in args:
                    try:
                        obj = Key(arg)
                    except asset.Level.Key.Invalid as exc:
                        obj = None
                        if not isinstance(exc, forml.InvalidError):
                            chk.fail(f'{mode} key {arg!r}: rejection is not a forml.InvalidError', {'kind': 'key', 'mode': mode, 'arg': repr(arg)})
                    except Exception as exc:  # pylint: disable=broad-except
                        chk.fail(f'{mode} key {arg!r}: constructor raised {type(exc).__name__} instead of Key.Invalid',
                                 {'kind': 'key', 'mode': mode, 'arg': repr(arg)})
                        continue
                    if k['valid']:
                        if obj is None:
                            chk.fail(f'{mode} key {arg!r} is valid but was rejected', {'kind': 'key', 'mode': mode, 'arg': repr(arg)})
                        elif lat.canon_of(obj) != k['canon']:
                            chk.fail(f'{mode} key {arg!r} does not denote the key written (got {obj!r})',
                                     {'kind': 'key', 'mode': mode, 'arg': repr(arg)})
                        else:
                            real.setdefault(i, []).append(obj)
                            chk.validated()
                            if mode == 'generation' and obj.next != int(obj) + 1:
                                chk.fail(f'generation key {arg!r}: next is {obj.next!r}', {'kind': 'key', 'mode': mode, 'arg': repr(arg)})
                    elif obj is not None:
                        chk.fail(f'{mode} key {arg!r} is invalid (not a natural number from 1) but was accepted as {obj!r}',
                                 {'kind': 'key', 'mode': mode, 'arg': repr(arg)})
                    else:
                        chk.validated()
        for text in (INVALID_RELEASE if mode == 'release' else INVALID_GENERATION + ['', 1.5, None]):
            try:
                obj = Key(text)
                chk.fail(f'{mode} key {text!r} is invalid but was accepted as {obj!r}', {'kind': 'key', 'mode': mode, 'arg': repr(text)})
            except asset.Level.Key.Invalid:
                chk.validated()
            except Exception as exc:  # pylint: disable=broad-except
                chk.fail(f'{mode} key {text!r}: constructor raised {type(exc).__name__} instead of Key.Invalid',
                         {'kind': 'key', 'mode': mode, 'arg': repr(text)})
        if Key() != Key(Key.MIN) or any(sign(Key(), ks[0]) == 1 for ks in real.values()):
            chk.fail(f'{mode}: the default key is not the minimum', {'kind': 'key', 'mode': mode, 'arg': 'MIN'})
        # ---- order: the whole matrix in every pair of spellings
        pairs = 0
        for i, j in itertools.product(real, real):
            want = lat.cmp[i - 1][j - 1]
            for a, b in itertools.product(real[i], real[j]):
                got = sign(a, b)
                pairs += 1
                if got != want or (want == 0 and hash(a) != hash(b)):
                    chk.fail(f'{mode} keys {str(a)!r} vs {str(b)!r}: compare as {got}, PEP 440 / natural order says {want}'
                             + (' (equal keys with different hashes)' if got == want else ''),
                             {'kind': 'order', 'mode': mode, 'a': str(a), 'b': str(b), 'want': want})
        chk.validated(pairs)
        some = sorted(real)[:2]
        chk.selftest(f'{label}_order_flip_rejected', sign(real[some[1]][0], real[some[0]][0]) != lat.cmp[some[0] - 1][some[1] - 1])
        # ---- listings: every level state
        _CTX.update(lat=lat, nspell=nspell)
        done = refused = 0
        forms = sorted({st['form'] for st in states}, key=FORMS.index)
        if forms != [f for f in FORMS if f != 'int' or mode == 'generation']:
            raise tlc.MachineryError(f'Keys/{mode}: level states exported for the provider forms {forms} only')
        for n, (st, out) in enumerate(zip(states, pmap(_listing_item, states, chk_procs(chk)))):
            if 'escaped' in out:
                names = [lat.name(d, nspell) for d in st['dirs']]
                out = {'fail': f'{mode} level with sub-directories {names} (provider form {st["form"]}): forml raised {out["escaped"]}',
                       'replay': {'kind': 'listing', 'mode': mode, 'names': names, 'form': st['form'], 'observed': [[out['escaped']], None]}}
            if out['fail']:
                chk.fail(out['fail'], out['replay'])
                continue
            done += 1
            refused += bool(out.get('refused'))
            if len(st['listing']) >= 2 and n % 997 == 0:
                chk.sample({'level': mode, 'sub_directories': out['replay']['names'], 'listing': out['listing']})
        chk.validated(done)
        total_states += len(states)
        # ---- commits: Release.put out of every level state (gaps, foreign names, empty levels)
        if commits:
            commits_part(chk, lat, nspell, commits, label)
        multi = next(st for st in states if len(st['listing']) >= 2)
        try:  # binding self-test on the real key objects of a level with several keys
            keys = [Key(lat.name({'v': c, 's': 1}, nspell)) for c in multi['listing']]
            rejected = [not listing_verdict(lat, multi['listing'], list(reversed(keys))),
                        not listing_verdict(lat, multi['listing'], keys + keys[-1:]), listing_verdict(lat, multi['listing'], keys)]
        except Exception:  # pylint: disable=broad-except
            if not chk.violations:
                raise
            rejected = None  # the key types themselves are broken (already reported above)
        if rejected:
            chk.selftest(f'{label}_reversed_listing_rejected', rejected[0] and rejected[2])
            chk.selftest(f'{label}_duplicated_listing_rejected', rejected[1] and rejected[2])
        # binding self-test of the raw provider forms: a level reported by plain names and listed in the order of the names
        # (not of the keys they denote) must be rejected; vacuity: such a level was among the replayed ones
        def in_name_order(st):
            return sorted(lat.name({'v': c, 's': 1}, nspell) for c in st['listing'])

        raw = next((st for st in states if st['form'] == 'str' and in_name_order(st) != [lat.name({'v': c, 's': 1}, nspell) for c in st['listing']]), None)
        if raw is None:
            raise tlc.MachineryError(f'Keys/{mode}: no level reported by plain names whose key order differs from the order of the names')
        try:
            forged = not listing_verdict(lat, raw['listing'], [Key(n) for n in in_name_order(raw)])
        except Exception:  # pylint: disable=broad-except
            if not chk.violations:
                raise
            forged = None
        if forged is not None:
            chk.selftest(f'{label}_listing_in_name_order_rejected', forged)
        chk.extra.setdefault('keys', {})[label] = {'lattice': lat.n, 'spellings': nspell, 'invalid_names': ninv, 'max_entries': maxkeys,
                                                  'level_states_replayed': len(states), 'ordered_pairs_compared': pairs,
                                                  'provider_forms': {f: sum(st['form'] == f for st in states) for f in forms},
                                                  'reports_of_invalid_names_refused': refused}
    random_levels(chk, rnd)
    chk.assume('release keys: the PEP 440 order is judged on a finite lattice of versions (every suffix class, epochs, local '
               'labels in the thorough tier) in 2-3 spellings each; spellings outside the rendered ones are not exercised')
    chk.assume('registry providers: level listings are observed through the bundled posix provider and through a provider of the same '
               'storage reporting plain names / plain numbers (levels of up to 2 releases / 3 generations in the model-generated part); '
               'a report holding a name that is no key may be refused as a whole (Level.Key.Invalid) instead of the name being left out')
    chk.assume('generation keys: spellings python int() happens to accept (underscores, signs, blanks, non-ASCII digits) are excluded, '
               'the property is silent on them')


# ------------------------------------------------------------------------------------------------ tags: concretisation
UTC = datetime.timezone.utc
TS = {1: datetime.datetime(2021, 3, 4, 5, 6, 7, 890123), 2: datetime.datetime(2022, 1, 1, 0, 0, 0),
      3: datetime.datetime(2023, 6, 30, 23, 59, 59, 1, tzinfo=UTC)}
ORD = {
    'bool': {0: False, 1: True},
    'int': {-1: -7, 0: 0, 1: 2 ** 40 + 3},
    'float': {-1: -0.25, 0: 0.0, 1: 0.1},
    'dec': {-1: decimal.Decimal('-0.5'), 0: decimal.Decimal('0'), 1: decimal.Decimal('0.1')},
    'str': {-1: 'a "q" \\ ä', 0: '', 1: 'abc'},
    'date': {-1: datetime.date(1969, 12, 31), 0: datetime.date(1970, 1, 1), 1: datetime.date(2024, 2, 29)},
    'ts': {-1: datetime.datetime(1969, 12, 31, 23, 59, 59, 999999), 0: datetime.datetime(1970, 1, 1),
           1: datetime.datetime(2024, 2, 29, 12, 0, 0, 1)},
}
SCORE = {-1: -0.5, 0: 0.0, 1: 0.75}
KINDS = ['bool', 'int', 'float', 'dec', 'str', 'date', 'ts']
FIXED_SID = {i: uuid.UUID(int=i) for i in range(1, 10)}
NOORD = {'k': 'none', 'v': 0}
NOSCORE = {'p': False, 'v': 0}
FAILED = {'tr': {'ts': -1, 'ord': NOORD}, 'tu': {'ts': -1, 'sc': NOSCORE}, 'st': []}


def conc_ord(o):
    return None if o['k'] == 'none' else ORD[o['k']][o['v']]


def conc_score(s):
    return SCORE[s['v']] if s['p'] else None


def conc_tag(t, sids=FIXED_SID, ts=TS):
    from forml.io import asset
    return asset.Tag(training=asset.Tag.Training(ts[t['tr']['ts']] if t['tr']['ts'] else None, conc_ord(t['tr']['ord'])),
                     tuning=asset.Tag.Tuning(ts[t['tu']['ts']] if t['tu']['ts'] else None, conc_score(t['tu']['sc'])),
                     states=[sids[i] for i in t['st']])


def proj_ord(x, hint=None):
    """Abstract ordinal of a real value: equality with a table value, preferring the kind that was written (`hint`) -
    read-back is judged by python equality, not by type identity."""
    if x is None:
        return dict(NOORD)
    order = ([hint] if hint in ORD else []) + [k for k in KINDS if type(next(iter(ORD[k].values()))) is type(x)] + KINDS
    for k in order:
        for v, val in ORD[k].items():
            if type(val) is bool and type(x) is not bool or type(x) is bool and type(val) is not bool:
                continue
            try:
                if val == x:
                    return {'k': k, 'v': v}
            except TypeError:
                continue
    return {'k': 'unknown', 'v': 0}


def proj_tag(tag, ts_ids, sid_ids, hint=None):
    def ts(x):
        if x is None:
            return 0
        for i, v in ts_ids.items():
            try:
                if v == x:
                    return i
            except TypeError:
                continue
        return 99

    score = tag.tuning.score
    sc = dict(NOSCORE) if score is None else {'p': True, 'v': next((v for v, val in SCORE.items() if val == score), 9)}
    return {'tr': {'ts': ts(tag.training.timestamp), 'ord': proj_ord(tag.training.ordinal, hint)},
            'tu': {'ts': ts(tag.tuning.timestamp), 'sc': sc}, 'st': [sid_ids.get(s, 99) for s in tag.states]}


def dec_tag(enc):
    """Decode the compact tuple TagCodec.tla exports."""
    trts, ok, ov, tuts, sp, sv, st = enc
    return {'tr': {'ts': trts, 'ord': {'k': ok, 'v': ov}}, 'tu': {'ts': tuts, 'sc': {'p': bool(sp), 'v': sv}}, 'st': list(st)}


def tag_finding(t):
    """Input class of a dumped abstract tag for the known findings (decided from the input only)."""
    if t['tr']['ts'] == 0:
        return 'tag-without-training-unloadable'
    o = t['tr']['ord']
    if o['k'] == 'dec':
        val = ORD['dec'][o['v']]
        if decimal.Decimal(float(val)) != val:  # not exactly representable as a binary float
            return 'decimal-ordinal-read-back-as-float'
    return None


def tag_cfg(path, nt, ns, kinds, codec, untrained, maxgen, export):
    with open(path, 'w') as fh:
        fh.write('SPECIFICATION Spec\nCONSTANTS NT = %d\n NS = %d\n Kinds = {%s}\n Codec = "%s"\n Untrained = %s\n MaxGen = %d\n'
                 % (nt, ns, ', '.join(f'"{k}"' for k in kinds), codec, 'TRUE' if untrained else 'FALSE', maxgen)
                 + 'VIEW View\nINVARIANT TypeOK\nINVARIANT RoundTrip\nINVARIANT NullIsAbsent\nINVARIANT StatesPositional\n'
                   'INVARIANT TriggerSetsTimestamp\nINVARIANT NeverFailed\n'
                 + ('INVARIANT Export\nINVARIANT ExportSteps\n' if export else '') + 'CHECK_DEADLOCK FALSE\n')
    return path


def apply_op(tag, op, a, sids=FIXED_SID, ts=TS):
    if op == 'train_trigger':
        return tag.training.trigger(ts[a['ts']])
    if op == 'tune_trigger':
        return tag.tuning.trigger(ts[a['ts']])
    if op == 'replace_ordinal':
        return tag.training.replace(ordinal=conc_ord(a['ord']))
    if op == 'replace_score':
        return tag.tuning.replace(score=conc_score(a['sc']))
    if op == 'replace_states':
        return tag.replace(states=tuple(sids[i] for i in a['st']))
    raise ValueError(op)


def step_verdict(real, allowed, sids=FIXED_SID):
    """The observed tag is (python-)equal to one of the results the specification allows."""
    return any(conc_tag(t, sids) == real for t in allowed)


def readback_verdict(real_back, expected, sids=FIXED_SID):
    return real_back is not None and conc_tag(expected, sids) == real_back


class Releases:
    """Hands out fresh releases of a posix registry (a new root every `per` releases keeps listings short)."""

    def __init__(self, tmp, per=40):
        self.tmp, self.per, self.n, self.root = tmp, per, 0, None

    def fresh(self):
        if self.n % self.per == 0:
            if self.root:
                shutil.rmtree(self.root, ignore_errors=True)
            self.root = tempfile.mkdtemp(prefix='tagreg-', dir=self.tmp)
        self.n += 1
        rel = str(self.n % self.per + 1)
        regfix.publish(self.root, 'prj', rel)
        return self.root, rel


def open_release(root, rel, form='key'):
    """A fresh directory (fresh caches) on the registry (through a provider reporting in the given form), as a new process
    would see it."""
    from forml.io.asset._directory.level import major, minor
    minor.TAGS.clear()
    minor.STATES.clear()
    major.ARTIFACTS.clear()
    return directory(root, form).get('prj').get(rel)


def commit_and_reopen(root, rel, tag, number=None, form='key'):
    """Release.put(tag) then read the newest generation's tag through a fresh Directory. Returns (tag | None, error).
    States carried over from an earlier generation are staged again first (a training dumps every state anew).
    `number`: the generation is stored under this explicit number with the provider API instead (Registry.close: a generation
    carried over from another registry), which leaves a gap in the listing that later commits have to continue from.
    `form`: the form in which the registry provider of the run reports the generations (Keys.tla)."""
    from forml.io import asset
    from forml.provider.registry.filesystem import posix
    for sid in tag.states:
        if not os.path.exists(os.path.join(root, 'prj', rel, '.stage', f'{sid}.bin')):
            posix.Registry(root).write('prj', rel, sid, b'carried over')
    if number:
        posix.Registry(root).close(asset.Project.Key('prj'), asset.Release.Key(rel), asset.Generation.Key(number), tag)
    else:
        open_release(root, rel, form).put(tag)
    try:
        return open_release(root, rel, form).get(None).tag, None
    except Exception as exc:  # pylint: disable=broad-except
        return None, f'{type(exc).__name__}: {exc}'


def tags_part(chk, rnd):
    tmp = os.getcwd()
    # the model tells codecs apart: the falsy-dropping codec and the as-is codec on untrained tags are refuted
    small = dict(nt=1, ns=1, kinds=['bool', 'int', 'str'], maxgen=1, export=False)
    bad = chk.tlc('TagCodec', tag_cfg(os.path.join(tmp, 'tag-falsy.cfg'), codec='falsy', untrained=False, **small), expect_ok=False, workers=2)
    chk.selftest('model_refutes_falsy_dropping_codec', bad.violated == 'RoundTrip')
    asis = chk.tlc('TagCodec', tag_cfg(os.path.join(tmp, 'tag-asis.cfg'), codec='asis', untrained=True, **small), expect_ok=False, workers=2)
    chk.extra['impl_model'] = {'asis_codec_refuted_on_untrained_tags': asis.violated == 'RoundTrip'}
    chk.tlc('TagCodec', tag_cfg(os.path.join(tmp, 'tag-asis2.cfg'), codec='asis', untrained=False, **small), workers=2)
    chk.extra['tags'] = {'ordinal_kinds': KINDS, 'domains': []}
    # (timestamps, state ids): states are positional, three ids give rotations; the third timestamp is time-zone aware
    for nt, ns in ([(2, 2)] if chk.quick else [(3, 2), (2, 3)]):
        tags_domain(chk, nt, ns)
    # read-back self-test: a tag that lost its falsy ordinal must be rejected by the comparison used above
    zero = {'tr': {'ts': 1, 'ord': {'k': 'int', 'v': 0}}, 'tu': {'ts': 0, 'sc': NOSCORE}, 'st': []}
    lost = conc_tag({'tr': {'ts': 1, 'ord': NOORD}, 'tu': {'ts': 0, 'sc': NOSCORE}, 'st': []})
    chk.selftest('tag_readback_lost_zero_ordinal_rejected', not readback_verdict(lost, zero))
    # ---- 4. code -> spec: random sessions on the real registry, validated by TraceTagCodec.tla
    sessions(chk, rnd, tmp)
    chk.assume('tags: timestamps, ordinals (one negative / zero-or-empty / positive value per primitive kind, plus a string with '
               'quotes, backslash and a non-ASCII letter), scores and state ids range over the finite tables of harness/drivers/C18.py; '
               'byte-level fidelity for arbitrary strings is not decided by the specification')
    chk.assume('tags: read-back is judged by python equality of the Tag tuples (Decimal(-0.5) read back as float -0.5 is equal)')
    chk.assume('tags: whether trigger() keeps or resets the other attribute of the mode is left open (docstring and code disagree)')


def tags_domain(chk, nt, ns):
    tmp = os.getcwd()
    # ---- 1. model: requirement codec over the whole domain (incl. untrained tags) + exports
    cfg = tag_cfg(os.path.join(tmp, f'tag-req-{nt}-{ns}.cfg'), nt, ns, KINDS, 'req', True, 2, True)
    res = chk.tlc('TagCodec', cfg, workers=4, timeout=1200,
                  require=['TrainTrigger', 'TuneTrigger', 'ReplaceOrdinal', 'ReplaceScore', 'ReplaceStates', 'DumpTag', 'LoadTag'])
    prints = res.json_prints()
    steps = [p for p in prints if p.get('kind') == 'steps']
    hists = [p for p in prints if p.get('kind') == 'history']
    if not steps or not hists:
        raise tlc.MachineryError('TagCodec.tla exported nothing')
    # ---- 2. spec -> code: every transition out of every tag (constructor, replace, trigger)
    ntrans = 0
    for p in steps:
        t = dec_tag(p['tag'])
        real = conc_tag(t)
        if proj_tag(real, TS, {v: k for k, v in FIXED_SID.items()}, t['tr']['ord']['k']) != t:
            raise tlc.MachineryError(f'projection is not the inverse of concretisation on {t}')
        for op, ats, aok, aov, asp, asv, ast, allowed in p['steps']:
            a = {'ts': ats, 'ord': {'k': aok, 'v': aov}, 'sc': {'p': bool(asp), 'v': asv}, 'st': list(ast)}
            allowed = [dec_tag(x) for x in allowed]
            try:
                got = apply_op(real, op, a)
                ok = step_verdict(got, allowed)
            except Exception as exc:  # pylint: disable=broad-except
                got, ok = f'{type(exc).__name__}: {exc}', False
            if not ok:
                chk.fail(f'Tag {op}({_argtext(op, a)}) on {real}: got {got}', {'kind': 'tagstep', 'tag': t, 'op': op, 'a': a, 'allowed': allowed})
            else:
                ntrans += 1
    chk.validated(ntrans)
    p = steps[len(steps) // 2]
    t = dec_tag(p['tag'])
    corrupted = conc_tag(t).replace(states=[FIXED_SID[9]])
    chk.selftest(f'tag_step_wrong_states_rejected_{nt}_{ns}', not step_verdict(corrupted, [t]))
    # ---- 3. spec -> code: one witness history per dumped tag, through dumps/loads AND a real posix registry
    nh = other = 0
    for n, (h, out) in enumerate(zip(hists, pmap(_history_item, hists, chk_procs(chk)))):
        if 'escaped' in out:
            dumped = next((e['res'] for e in h['hist'] if e['op'] == 'dump'), None)
            out = {'status': 'fail', 'what': f'tag history {[(e["op"], _argtext(e["op"], e["a"])) for e in h["hist"]]}: forml raised '
                                             f'{out["escaped"]}', 'finding': tag_finding(dumped) if dumped else None}
        if out['status'] == 'fail':
            chk.fail(out['what'], {'kind': 'taghistory', 'history': h}, finding=out['finding'])
        elif out['status'] == 'other-branch':
            other += 1
        else:
            nh += 1
            if n % 499 == 0:
                chk.sample({'tag_history': [(e['op'], _argtext(e['op'], e['a'])) for e in h['hist']], 'reads_back': h['back']})
    chk.validated(nh)
    chk.extra['tags']['domains'].append({'timestamps': nt, 'state_ids': ns, 'tags_with_all_transitions_replayed': len(steps),
                                         'transitions_replayed': ntrans, 'dump_histories_replayed': nh,
                                         'histories_on_the_trigger_branch_the_code_does_not_take': other})


def _argtext(op, a):
    if op in ('train_trigger', 'tune_trigger'):
        return f'ts{a["ts"]}'
    if op == 'replace_ordinal':
        return repr(conc_ord(a['ord']))
    if op == 'replace_score':
        return repr(conc_score(a['sc']))
    if op == 'replace_states':
        return str(a['st'])
    return ''


def _rels():
    """Per-process supplier of fresh registry releases."""
    if _CTX.get('rels_pid') != os.getpid():
        _CTX['rels'] = Releases(scratch())
        _CTX['rels_pid'] = os.getpid()
    return _CTX['rels']


def _history_item(h):
    """Replay one exported behaviour: [load] edit* dump, then compare what reads back (codec and registry).
    Returns {'status': 'ok' | 'other-branch' | 'fail', 'what', 'finding'}."""
    from forml.io import asset
    root, rel = _rels().fresh()
    registry = _CTX.get('registry', True)
    sids = {}

    class Sids(dict):
        def __missing__(self, i):  # the life cycle way of obtaining a state id: Release.dump
            if i not in sids:
                sids[i] = open_release(root, rel).dump(b'state-%d' % i) if registry else uuid.uuid4()
            return sids[i]

    def failed(what, tag):
        return {'status': 'fail', 'what': what, 'finding': tag_finding(tag) if tag else None}

    table = Sids()
    tag = asset.Tag()
    for ev in h['hist']:
        op, a = ev['op'], ev['a']
        if op == 'load':
            # generation 1 of this release: what the previous run committed
            first = conc_tag(ev['res'], table)
            if registry:
                back, err = commit_and_reopen(root, rel, first)
            else:
                try:
                    back, err = asset.Tag.loads(first.dumps()), None
                except Exception as exc:  # pylint: disable=broad-except
                    back, err = None, f'{type(exc).__name__}: {exc}'
            if not readback_verdict(back, ev['res'], table):
                return failed(f'generation tag {first} reads back as {back or err}', ev['res'])
            tag = back
        elif op == 'dump':
            expected = h['back']
            try:
                codec, err = asset.Tag.loads(tag.dumps()), None
            except Exception as exc:  # pylint: disable=broad-except
                codec, err = None, f'{type(exc).__name__}: {exc}'
            if not readback_verdict(codec, expected, table):
                return failed(f'Tag.loads(Tag.dumps(t)) for t = {tag}: {codec or err}', ev['res'])
            if registry:
                back, err = commit_and_reopen(root, rel, tag)
                if not readback_verdict(back, expected, table):
                    return failed(f'tag {tag} committed with Release.put reads back from a fresh Directory as {back or err}', ev['res'])
        else:
            try:
                tag = apply_op(tag, op, a, table)
            except Exception as exc:  # pylint: disable=broad-except
                return failed(f'Tag {op}({_argtext(op, a)}) raised {type(exc).__name__}: {exc}', None)
            if not step_verdict(tag, ev['allowed'], table):
                return failed(f'Tag {op}({_argtext(op, a)}) gave {tag}', None)
            if not conc_tag(ev['res'], table) == tag:
                # the other allowed outcome of a trigger: this behaviour is not the implementation's, nothing to compare
                return {'status': 'other-branch', 'what': None, 'finding': None}
    return {'status': 'ok', 'what': None, 'finding': None}


def through_forml(exc):
    return any(f.filename.startswith(common.REPO + os.sep) for f in traceback.extract_tb(exc.__traceback__))


def record_session(chk, rnd, root, rel, trace, dumps):
    """One seeded random life-cycle session on the real code; events are appended to `trace`."""
    noarg = {'ts': 0, 'ord': NOORD, 'sc': NOSCORE, 'st': []}
    ts_ids = dict(TS)
    sid_ids = {}
    form = rnd.choice(FORMS)  # the run's registry provider reports the generations as keys / plain names / plain numbers
    tag = open_release(root, rel, form).get(None).tag  # NOTAG of an empty release
    hint = None
    gens = rnd.randint(1, 3)
    for g in range(gens):
        untrained = g == 0 and rnd.random() < 0.05
        nops = rnd.randint(1, 6)
        for i in range(nops):
            choices = ['tune_trigger', 'replace_states']
            if not untrained:
                choices += ['train_trigger', 'train_trigger_now']
            if tag.training:
                choices += ['replace_ordinal'] * 2
            if tag.tuning:
                choices.append('replace_score')
            op = 'train_trigger' if (i == 0 and not untrained and not tag.training) else rnd.choice(choices)
            a = dict(noarg)
            if op == 'train_trigger_now':  # the way Runner.train triggers: timestamp = now
                before = datetime.datetime.utcnow()
                tag = tag.training.trigger()
                after = datetime.datetime.utcnow()
                stamp = tag.training.timestamp
                if not (isinstance(stamp, datetime.datetime) and before <= stamp <= after):
                    chk.fail(f'training.trigger() set the timestamp {stamp!r}, not the current time', {'kind': 'session', 'trace': trace})
                    break
                tid = max(ts_ids) + 1
                ts_ids[tid] = stamp
                op, a = 'train_trigger', dict(noarg, ts=tid)
            elif op in ('train_trigger', 'tune_trigger'):
                a = dict(noarg, ts=rnd.choice(list(TS)))
                tag = apply_op(tag, op, a)
            elif op == 'replace_ordinal':
                k = rnd.choice(KINDS + ['none'])
                a = dict(noarg, ord=dict(NOORD) if k == 'none' else {'k': k, 'v': rnd.choice(list(ORD[k]))})
                hint = a['ord']['k']
                tag = apply_op(tag, op, a)
            elif op == 'replace_score':
                a = dict(noarg, sc=rnd.choice([dict(NOSCORE)] + [{'p': True, 'v': v} for v in SCORE]))
                tag = apply_op(tag, op, a)
            else:
                k = rnd.randint(0, 3)
                new = [open_release(root, rel, form).dump(b'x' * rnd.randint(0, 5)) for _ in range(k)]
                for s in new:
                    sid_ids[s] = len(sid_ids) + 1
                keep = [s for s in tag.states if rnd.random() < 0.3]
                states = keep + new
                rnd.shuffle(states)
                a = dict(noarg, st=[sid_ids[s] for s in states])
                tag = tag.replace(states=states)
            trace.append({'op': op, 'a': a, 'res': proj_tag(tag, ts_ids, sid_ids, hint)})
        else:
            committed = proj_tag(tag, ts_ids, sid_ids, hint)
            trace.append({'op': 'dump', 'a': dict(noarg), 'res': committed})
            dumps[len(trace)] = committed
            # (one session in four starts from a generation carried over under a number of its own: the listing has a gap)
            back, _ = commit_and_reopen(root, rel, tag, number=rnd.choice([2, 3, 7, 10]) if g == 0 and rnd.random() < 0.25 else None, form=form)
            trace.append({'op': 'load', 'a': dict(noarg), 'res': FAILED if back is None else proj_tag(back, ts_ids, sid_ids, hint)})
            if back is None:
                break
            tag = back
            continue
        break


def sessions(chk, rnd, tmp):
    """code -> spec: seeded random life-cycle sessions on the real Tag / Release / Generation, recorded and validated."""
    n = 150 if chk.quick else 1500
    rels = Releases(scratch())
    traces, dumped = [], []
    noarg = {'ts': 0, 'ord': NOORD, 'sc': NOSCORE, 'st': []}
    for _ in range(n):
        root, rel = rels.fresh()
        trace, dumps = [], {}
        try:
            record_session(chk, rnd, root, rel, trace, dumps)
        except Exception as exc:  # pylint: disable=broad-except
            if not through_forml(exc):
                raise
            chk.fail(f'life-cycle session: forml raised {type(exc).__name__}: {exc} after {[e["op"] for e in trace]}',
                     {'kind': 'session', 'trace': trace}, finding=tag_finding(dumps[len(trace)]) if len(trace) in dumps else None)
        traces.append(trace)
        dumped.append(dumps)
    # binding self-test: a session whose committed zero ordinal reads back as None must be rejected at the load event
    t1 = {'tr': {'ts': 1, 'ord': {'k': 'int', 'v': 0}}, 'tu': {'ts': 0, 'sc': NOSCORE}, 'st': []}
    t0 = {'tr': {'ts': 1, 'ord': NOORD}, 'tu': {'ts': 0, 'sc': NOSCORE}, 'st': []}
    traces.append([{'op': 'train_trigger', 'a': dict(noarg, ts=1), 'res': t0},
                   {'op': 'replace_ordinal', 'a': dict(noarg, ord={'k': 'int', 'v': 0}), 'res': t1},
                   {'op': 'dump', 'a': dict(noarg), 'res': t1}, {'op': 'load', 'a': dict(noarg), 'res': t0}])
    path = common.write_json({'traces': traces}, 'c18-sessions.json')
    res = chk.tlc('TraceTagCodec', 'TraceTagCodec.cfg', workers=1, env={'TRACE_FILE': path}, coverage=False, timeout=900)
    verdicts = {v[0]: v for v in res.tuples('VERDICT')}
    if len(verdicts) != len(traces):
        raise tlc.MachineryError(f'expected {len(traces)} verdicts, got {len(verdicts)}')
    chk.selftest('session_lost_zero_ordinal_rejected', verdicts[len(traces)][1] == 3)
    events = 0
    for i, trace in enumerate(traces[:-1], start=1):
        _, matched, length = verdicts[i]
        if matched < length:
            ev = trace[matched]
            finding = tag_finding(dumped[i - 1][matched]) if ev['op'] == 'load' and matched in dumped[i - 1] else None
            chk.fail(f'session event {matched + 1} ({ev["op"]} {_argtext(ev["op"], ev["a"]) if ev["a"]["ts"] in TS or not ev["a"]["ts"] else "now"}) '
                     f'observed {ev["res"]}: not a step of TagCodec.tla', {'kind': 'session', 'trace': trace[:matched + 1]}, finding=finding)
        else:
            chk.validated()
            events += length
    chk.extra['tags']['sessions_validated'] = n
    chk.extra['tags']['session_events'] = events


# ------------------------------------------------------------------------------------------------ packages
NAMES = {1: 'prj', 2: 'my-prj.x_1'}
VERSIONS = {0: '0.9', 1: '1', 2: '1.0.dev1', 3: '2!0.3a1.post2+loc.1'}
PYPKG = {1: 'app', 2: 'app.sub'}
# module file per reference style of Packages.tla; 3 = a relative name whose text begins with the top-level name of the package
FILE = {0: '{c}', 1: 'alt_{c}', 2: 'abs_{c}', 3: '{top}_{c}'}
TOP = -2  # "package" of the top-level decoy modules (Packages.tla)
RELATIVE = (0, 1, 3)


def module_file(pkg, c, w):
    return FILE[w].format(c=c, top=PYPKG[pkg].split('.')[0])

SOURCE_PY = '''from forml import project
from forml.io import dsl
class {marker}(dsl.Schema):
    x = dsl.Field(dsl.Integer())
project.setup(project.Source.query({marker}))
'''
PIPELINE_PY = '''from forml import flow, project
class Marked(flow.Operator):
    def __init__(self, marker):
        self.marker = marker
    def compose(self, scope):
        return scope.expand()
project.setup(Marked('{marker}'))
'''
EVALUATION_PY = '''from forml import evaluation, project
class Marked(evaluation.Metric):
    marker = '{marker}'
    def score(self, *outcomes):
        raise NotImplementedError()
class Method(evaluation.Method):
    def produce(self, pipeline, features, labels):
        raise NotImplementedError()
project.setup(project.Evaluation(Marked(), Method()))
'''
TEMPLATE = {'source': SOURCE_PY, 'pipeline': PIPELINE_PY, 'evaluation': EVALUATION_PY}


def marker(pkg, c, w, rev):
    return f'M_{"TOPLEVEL" if pkg == TOP else PYPKG[pkg].replace(".", "_")}_{c}_{w}_r{rev}'


def build_tree(root, pkg, haseval, data, rev):
    """A project source tree holding every candidate component module (conventional, relative, absolute reference) and, at
    its top level, a namesake of every relatively referenced one (never to be loaded)."""
    base = pathlib.Path(root)
    cur = base
    for part in PYPKG[pkg].split('.'):
        cur = cur / part
        cur.mkdir(parents=True, exist_ok=True)
        (cur / '__init__.py').write_text('')
    for c in ('source', 'pipeline', 'evaluation'):
        if c == 'evaluation' and not haseval:
            continue
        for w in FILE:
            (cur / (module_file(pkg, c, w) + '.py')).write_text(TEMPLATE[c].format(marker=marker(pkg, c, w, rev)))
    for c in ('source', 'pipeline', 'evaluation'):
        for w in RELATIVE:
            (base / (module_file(pkg, c, w) + '.py')).write_text(TEMPLATE[c].format(marker=marker(TOP, c, w, rev)))
    if data:
        (cur / 'data.txt').write_text('not python')
    return base


def conc_manifest(m):
    from forml import project
    package = PYPKG[m['package']]
    modules = {}
    for c, w in m['modules'].items():
        if w in (1, 3):
            modules[c] = module_file(m['package'], c, w)
        elif w == 2:
            modules[c] = f'{package}.' + module_file(m['package'], c, w)
    return project.Manifest(NAMES[m['name']], VERSIONS[m['version']], package, **modules)


def observed_components(components):
    """Markers of the loaded components (public attributes only)."""
    out = {}
    out['source'] = components.source.extract.train.source.schema.__name__
    out['pipeline'] = components.pipeline.marker
    out['evaluation'] = None if components.evaluation is None else components.evaluation.metric.marker
    return out


def expected_components(vec):
    return {c: (None if v['pkg'] == 0 else marker(v['pkg'], v['c'], v['w'], v['rev'])) for c, v in vec['comps'].items()}


def run_vector(vec, tmp):
    """Replay one vector of Packages.tla on the real code. Returns None when it conforms, else a description."""
    import forml
    from forml import project
    work = pathlib.Path(tempfile.mkdtemp(prefix='pkg-', dir=tmp))
    saved = list(sys.path)
    try:
        m = vec['manifest']
        given = conc_manifest(m)
        src = build_tree(work / 'src', m['package'], vec['haseval'], vec['data'], 1)
        target = work / 'installed' / 'here'
        if vec['stale']:
            conc_manifest(dict(m, version=0)).write(src)
        if vec['prior'] in ('older', 'olderzip'):  # an earlier release sits at the install path (directory / single zip file)
            old = build_tree(work / 'old', m['package'], True, False, 0)
            older = conc_manifest(dict(m, version=0))
            if vec['prior'] == 'older':
                older.write(old)
                project.Package(old).install(target)
            else:
                project.Package.create(old, older, work / f'old.{project.Package.FORMAT}').install(target)
            if target.is_dir() != (vec['prior'] == 'older'):
                raise RuntimeError('harness: prior install has not the intended form')
        if vec['wrote']:
            given.write(src)
            if project.Manifest.read(src) != given:
                return f'Manifest.read after write gives {project.Manifest.read(src)!r}'
        if vec['kind'] == 'zip':
            package = project.Package.create(src, given, work / f'package.{project.Package.FORMAT}')
            if package.manifest != given:
                return f'Package.create returned a package with manifest {tuple(package.manifest)}'
            package = project.Package(package.path)
        else:
            package = project.Package(src)
        if package.manifest != given:
            return f'Package(path).manifest is {tuple(package.manifest)}'
        if vec['prior'] == 'same':
            package.install(target)
        artifact = package.install(target)
        try:
            installed = project.Manifest.read(target)
        except forml.AnyError as exc:
            return f'no manifest readable at the install path ({type(exc).__name__}: {exc})'
        if installed != given:
            return f'manifest at the install path is {tuple(installed)}'
        if artifact.package != given.package or dict(artifact.modules) != dict(given.modules):
            return f'artifact handle is ({artifact.package}, {dict(artifact.modules)})'
        try:
            got = observed_components(artifact.components)
        except Exception as exc:  # pylint: disable=broad-except
            return f'loading the components raised {type(exc).__name__}: {exc}'
        want = expected_components(vec)
        if got != want:
            return f'components loaded from the installed artifact are {got}, the packaged project defines {want}'
        return None
    finally:
        sys.path[:] = saved
        shutil.rmtree(work, ignore_errors=True)
        forget_importers(work)


def forget_importers(root):
    """Drop the import system's per-path finders of a removed scratch tree (after the replay is over): they would pile up
    over thousands of vectors and importlib.invalidate_caches() - called by forml on every load - visits each of them."""
    prefix = str(root) + os.sep
    for key in [k for k in sys.path_importer_cache if k.startswith(prefix)]:
        del sys.path_importer_cache[key]


def package_finding(vec):
    """Input class of a package vector for the known finding (decided from the input only): the install path holds an earlier
    release in the other physical form (directory vs single zip file) than the one this package is installed in."""
    new_is_file = vec['kind'] == 'zip' and not vec['data']  # zip-safe archives are installed as one file
    if vec['prior'] == 'older' and new_is_file or vec['prior'] == 'olderzip' and not new_is_file:
        return 'install-over-other-form-stale-importer'
    # a single zip file replaced by a single zip file whose descriptor is longer (the earlier release carries version 0)
    if vec['prior'] == 'olderzip' and new_is_file and len(VERSIONS[vec['manifest']['version']]) > len(VERSIONS[0]):
        return 'install-zip-over-zip-stale-directory'
    return None


def manifest_text(vec):
    m = vec['manifest']
    return (f'{NAMES[m["name"]]}-{VERSIONS[m["version"]]} package={PYPKG[m["package"]]} modules={m["modules"]} kind={vec["kind"]} '
            f'data={vec["data"]} evaluation={vec["haseval"]} stale_descriptor={vec["stale"]} prior_install={vec["prior"]}')


def _vector_item(vec):
    try:
        return run_vector(vec, scratch())
    except Exception as exc:  # pylint: disable=broad-except
        return f'raised {type(exc).__name__}: {exc}'


def packages_part(chk, rnd):
    from forml import project
    tmp = os.getcwd()
    # (names and versions matter to the manifest alone: their full product is written and read back further below)
    # quick: (a) every way of installing over an earlier install, two-level package, the reference styles whose names are unrelated
    # to the package name; (b) the name space: every reference style incl. relative names that begin with the package name, which
    # needs the one-level package (an undotted name cannot begin with a dotted package name), installed onto a free path
    if chk.quick:
        plans = [('installs', 1, 1, '2', '0, 1, 2', 'TRUE, FALSE', '"none", "older", "olderzip"'),
                 ('names', 1, 1, '1', '0, 1, 2, 3', 'TRUE, FALSE', '"none"')]
    else:
        plans = [('all', 1, 2, '1, 2', '0, 1, 2, 3', 'TRUE, FALSE', '"none", "older", "olderzip", "same"')]
    def model(plan):
        label, nn, nver, pkgs, refs, datas, priors = plan
        cfg = os.path.join(tmp, f'packages-{label}.cfg')
        with open(cfg, 'w') as fh:
            fh.write(f'SPECIFICATION Spec\nCONSTANTS NNames = {nn}\n NVersions = {nver}\n Pkgs = {{{pkgs}}}\n Refs = {{{refs}}}\n'
                     f' Trees = {{"all", "noeval"}}\n Datas = {{{datas}}}\n Priors = {{{priors}}}\n'
                     'INVARIANT ManifestReadBack\nINVARIANT InstalledIsPackaged\nINVARIANT SameComponents\n'
                     'INVARIANT SourceAndPipelinePresent\nINVARIANT NeverTopLevel\nINVARIANT EvaluationOptional\nINVARIANT Export\n'
                     'CHECK_DEADLOCK FALSE\n')
        res = chk.tlc('Packages', cfg, workers=4 // len(plans), timeout=1200,
                      require=['WriteManifest', 'ReadSource', 'CreateZip', 'OpenDir', 'ReadPackage', 'Install', 'ReadInstalled', 'Load'])
        exported = res.json_prints()
        if not exported:
            raise tlc.MachineryError(f'Packages.tla ({label}) exported no vector')
        return exported

    import concurrent.futures
    with concurrent.futures.ThreadPoolExecutor(len(plans)) as pool:  # (the accounting of chk.tlc is thread safe)
        vectors = [v for exported in pool.map(model, plans) for v in exported]
    if not any(3 in v['manifest']['modules'].values() and '.' not in PYPKG[v['manifest']['package']] for v in vectors):
        raise tlc.MachineryError('Packages.tla: no vector with a relative module name that begins with the package name')
    ok = 0
    import time
    t0 = time.time()
    for vec, out in zip(vectors, pmap(_vector_item, vectors, chk_procs(chk))):
        if out is None:
            ok += 1
        else:
            chk.fail(f'{manifest_text(vec)}: {out}', {'kind': 'package', 'vector': vec}, finding=package_finding(vec))
    chk.validated(ok)
    for vec in vectors[:: max(1, len(vectors) // 3)]:
        chk.sample({'package': manifest_text(vec), 'components': expected_components(vec)})
    # manifests alone: the full name x version x package x module-map domain, write -> read
    count = 0
    t1 = time.time()
    for name, ver, pkg in itertools.product(NAMES, VERSIONS, PYPKG):
        for refs in itertools.product(tuple(FILE), repeat=3):
            m = {'name': name, 'version': ver, 'package': pkg, 'modules': dict(zip(('source', 'pipeline', 'evaluation'), refs))}
            given = conc_manifest(m)
            where = tempfile.mkdtemp(prefix='mf-', dir=scratch())
            try:
                given.write(where)
                back = project.Manifest.read(where)
            except Exception as exc:  # pylint: disable=broad-except
                if not through_forml(exc):
                    raise
                chk.fail(f'manifest {tuple(given)}: write / read raised {type(exc).__name__}: {exc}', {'kind': 'manifest', 'manifest': m})
                continue
            finally:
                shutil.rmtree(where, ignore_errors=True)
                forget_importers(where)
            if back != given or str(back.version) != str(given.version) or dict(back.modules) != dict(given.modules):
                chk.fail(f'manifest {tuple(given)} reads back as {tuple(back)}', {'kind': 'manifest', 'manifest': m})
            else:
                count += 1
    chk.validated(count)
    # binding self-test: a vector whose expected component is swapped must be reported by run_vector
    bad = json.loads(json.dumps(vectors[0]))
    bad['comps']['pipeline']['w'] = (bad['comps']['pipeline']['w'] + 1) % 3
    chk.selftest('package_wrong_component_rejected', run_vector(bad, scratch()) is not None)
    chk.extra['packages'] = {'wall_s': {'vectors': round(t1 - t0, 1), 'manifests': round(time.time() - t1, 1)}, 'vectors_replayed': len(vectors), 'manifests_written_and_read': count, 'names': list(NAMES.values()),
                             'versions': list(VERSIONS.values()), 'python_packages': list(PYPKG.values())}
    chk.assume('manifests / packages: names, versions, python packages and module maps range over the finite tables of '
               'harness/drivers/C18.py (distribution-name characters only: letters, digits, "-", "_", "."); quotes or backslashes '
               'in names are outside the legal domain and not exercised')
    chk.assume('packages: a path already holding the same manifest is taken to hold the same content (install skips it)')


# ------------------------------------------------------------------------------------------------ entry points
def main(chk):
    import logging
    logging.disable(logging.WARNING)
    import time
    rnd = random.Random(chk.seed)
    chk.extra['wall_by_part_s'] = {}
    try:
        for name, part in (('keys', keys_part), ('tags', tags_part), ('packages', packages_part)):
            t0 = time.time()
            part(chk, rnd)
            chk.extra['wall_by_part_s'][name] = round(time.time() - t0, 1)
    finally:
        cleanup()


def cleanup():
    while _SCRATCH:
        shutil.rmtree(_SCRATCH.pop(), ignore_errors=True)
    for name in os.listdir('.'):  # the exported batches / generated cfg files of this run
        if name.endswith(('.json', '.cfg')):
            os.remove(name)


def replay(chk, path):
    try:
        return _replay(chk, path)
    finally:
        cleanup()


def _replay(chk, path):
    import logging
    logging.disable(logging.WARNING)
    with open(path) as fh:
        rep = json.load(fh)['replay']
    print(json.dumps(rep, indent=1)[:4000])
    tmp = scratch()
    kind = rep['kind']
    if kind == 'package':
        out = _vector_item(rep['vector'])
        print('now:', out or 'conforms')
        return 1 if out else 0
    if kind == 'tagstep':
        got = apply_op(conc_tag(rep['tag']), rep['op'], rep['a'])
        ok = step_verdict(got, rep['allowed'])
        print('now:', got, 'conforms' if ok else 'DIFFERS')
        return 0 if ok else 1
    if kind == 'taghistory':
        out = _history_item(rep['history'])
        print('now:', out)
        return 0 if out['status'] != 'fail' else 1
    if kind == 'listing':
        lat = collections.namedtuple('L', 'mode')(rep['mode'])
        listing, latest = real_level(lat, rep['names'], tmp, rep.get('form', 'key'))
        if isinstance(listing, (Raised, Rejected)) or isinstance(latest, (Raised, Rejected)):
            listing, latest = [listing if isinstance(listing, (Raised, Rejected)) else latest], None
        now = [None if listing is None else [str(k) for k in listing], None if latest is None else str(latest)]
        print('now:', now, 'recorded:', rep['observed'], 'expected listing:', rep.get('expected', '(judged by TraceKeys.tla)'))
        return 1 if now == rep['observed'] else 0
    if kind == 'commit':
        obs = _commit_item(rep['step'])
        out = commit_verdict(rep['step'], obs)
        print('now:', obs, '->', out or 'conforms')
        return 1 if out else 0
    if kind == 'order':
        from forml.io import asset
        Key = asset.Release.Key if rep['mode'] == 'release' else asset.Generation.Key
        got = sign(Key(rep['a']), Key(rep['b']))
        print('now:', got, 'expected', rep['want'])
        return 0 if got == rep['want'] else 1
    if kind == 'key':
        print('re-run the check; constructor verdicts are not replayed individually')
        return 1
    print('sessions / manifests are replayed by re-running the check with the same VERIF_SEED')
    return 1
