"""C06 - feed reads return exactly what the statement denotes over its own storage.

model:        specs/RelAlg.tla   reference semantics Eval / Accepts of the documented grammar (projection, aliases,
                                 expressions under SQL three-valued logic, where, groupby + aggregates, having,
                                 orderby, limit/offset, five join kinds, references, nested statements, set operations)
              specs/Reads.tla    requirement: Read(f, s) = Eval(s, storage-now(f)); Mutate / Restart / reads through other feeds /
                                 Break (the storage becomes unavailable: reads are unconstrained until it is back, and
                                 leave no trace in what later reads return)
              specs/FeedCacheImpl.tla  as-is result cache (frames per process, disk under FORML_HOME, lazy registration)
              specs/FactorsImpl.tla    as-is predicate factorisation (predicts the parser crashes of the listed findings)
              specs/ClauseMix.tla  TLC enumerates the clauses of an aggregating query in every combination of presence
                                 (having without groupby, ...), flat and nested: part of the statement stream
code -> spec: PARSER LEVEL.  harness.dslgen statements (all up to the depth bound) + harness.relgen seeded random
              statements + the ClauseMix statements x 3 seeded table contents (NULLs, duplicates, empty tables) are built with the real DSL, parsed
              by the real alchemy.Parser and executed on SQLite and DuckDB; specs/TraceReads.tla decides every
              observation with Accepts (an exception on a well-formed statement is a rejection).
spec -> code: READER LEVEL.  TLC enumerates every history of {Read(f,s), Mutate(f), Restart} up to the depth bound for
              three feed configurations (two alchemy feeds over SQLite files with equally named tables, two monolite
              feeds over CSV files, one of each) together with the result each read must return; every history is
              replayed on real feeds, one OS process per process of the history (harness.feedproc).  A fourth
              configuration (alchemy + two monolite feeds) adds storage faults: Break(f), storages that do not exist
              at the start - histories in which a read meets an unavailable storage and a later one an available one.
TLC's -coverage cannot be used with RelAlg (its cost-model start-up does not terminate within minutes on the mutually
recursive evaluator, measured); vacuity is guarded by explicit counts instead (states per action, verdict per observation).
"""
import collections
import concurrent.futures
import json
import multiprocessing
import os
import random
import subprocess
import sys
import threading
import time

from harness import common, dslgen as g, relgen, tlc

PROCS = int(os.environ.get('VERIF_PROCS') or 8)
BATCH = 1200  # statements per TLC batch

# ids of known_findings.d/C06.json
F_MERGE = 'factors-merge-crash'
F_NONPRED = 'non-comparison-predicate-crash'
F_REFKEY = 'reference-element-in-factor-keyerror'
F_NOT = 'not-rendered-as-python-not'
F_ABS = 'abs-rendered-as-python-abs'
F_CROSS = 'cross-join-as-full-outer-join'
F_REFCTX = 'reference-reused-across-query-contexts'
F_SETFEAT = 'set-features-doubled'
F_CACHE = 'result-cache-keyed-by-sql-text'
F_LAZY = 'lazy-backend-registered-once-per-process'
CRASH_FINDING = {'merge': (F_MERGE, 'AttributeError'), 'nonpredicate': (F_NONPRED, 'AttributeError'),
                 'refkey': (F_REFKEY, 'KeyError')}


# ------------------------------------------------------------------------------------------------ TLC helpers
def run_tlc_parallel(chk, module, cfg, envs, heap='3g'):
    """Run one TLC process per env (in parallel, workers=1 each: verdict registers) and account them on chk."""
    def one(env):
        return tlc.run(module, cfg, workers=1, env=env, coverage=False, timeout=1500, heap=heap)

    with concurrent.futures.ThreadPoolExecutor(max_workers=PROCS) as pool:
        results = list(pool.map(one, envs))
    for res in results:
        chk.states += res.distinct
        chk.transitions += res.generated
        chk.tlc_runs.append({'module': module, 'cfg': cfg, 'distinct': res.distinct, 'generated': res.generated,
                             'depth': res.depth, 'wall_s': round(res.wall, 2), 'violated': res.violated})
        if res.violated:
            raise tlc.MachineryError(f'{module}: TLC reports {res.violated} violated\n{res.stdout[-3000:]}')
    return results


def judge(chk, obs, dbs, tag, asis=False):
    """Validate observations [{ast, runs: [{db, outs}]}] with TraceReads.tla.  Returns [(wf, codes, crash)] aligned."""
    lits = relgen.lits_for([o['ast'] for o in obs])
    if asis:
        lits['$asis'] = 1
        if asis == 'cross+not':
            lits['$asisnot'] = 1
    encoded = [relgen.enc_db(d['data']) for d in dbs]
    envs, sizes = [], []
    for n, start in enumerate(range(0, len(obs), BATCH)):
        chunk = obs[start:start + BATCH]
        path = common.write_json({'lits': lits, 'dbs': encoded, 'fixed': relgen.detect_fixes(),
                                  'obs': [{'ast': o['ast'], 'runs': [{'db': r['db'], 'outs': r['outs']} for r in o['runs']]}
                                          for o in chunk]}, f'reads-{tag}-{n}.json')
        envs.append({'TRACE_FILE': path})
        sizes.append(len(chunk))
    verdicts = []
    for res, size, env in zip(run_tlc_parallel(chk, 'TraceReads', 'TraceReads.cfg', envs), sizes, envs):
        got = {v[0]: v for v in relgen.printed_tuples(res.stdout, 'VERDICT')}
        if len(got) != size or any(len(v) != 4 for v in got.values()):
            raise tlc.MachineryError(f'TraceReads: expected {size} verdicts, got {len(got)}\n{res.stdout[-2500:]}')
        verdicts += [(got[i][1], got[i][2], got[i][3]) for i in range(1, size + 1)]
        os.unlink(env['TRACE_FILE'])
    return verdicts


# ------------------------------------------------------------------------------------------------ parser level
_ENGINES = None


def _pool_init(dbs):
    global _ENGINES  # pylint: disable=global-statement
    import logging
    import warnings
    warnings.simplefilter('ignore')
    logging.disable(logging.CRITICAL)
    _ENGINES = [relgen.Engines(d['data']) for d in dbs]


def _pool_observe(task):
    idx, ast, dbis = task
    runs = []
    for di in dbis:
        seen = relgen.observe(ast, _ENGINES[di])
        runs.append({'db': di + 1, 'outs': seen['outs'], 'by': seen['by'], 'err': seen['err']})
    return idx, runs


_MIX = {}


def clause_mix(chk):
    """Statements of specs/ClauseMix.tla (TLC enumerates every combination of presence of the clauses of an aggregating
    query, flat and nested); returns (statements, canon keys).  One TLC run per check."""
    if id(chk) not in _MIX:
        res = chk.tlc('ClauseMix', 'ClauseMix.cfg', workers=2, coverage=False, timeout=600)
        head = res.tuples('CLAUSEMIX')
        asts = list({g.canon(e['ast']): e['ast'] for e in res.json_prints() if 'ast' in e}.values())
        # vacuity guard without -coverage: every statement of the family is one initial state and one export
        if not head or head[0][0] != res.distinct or len(asts) != res.distinct or not asts:
            raise tlc.MachineryError(f'ClauseMix: {len(asts)} statements exported, {res.distinct} states\n{res.stdout[-1500:]}')
        kept = [a for a in asts if not relgen.excluded(a)]
        bare = lambda a: a['l']['l'] if a['l']['t'] == 'ref' else a
        ungrouped = [a for a in kept if bare(a)['having']['f'] != 'nil' and not bare(a)['group']]
        if len(kept) * 10 < len(asts) * 9 or not ungrouped or all(a['l']['t'] != 'ref' for a in ungrouped):
            raise tlc.MachineryError(f'ClauseMix: only {len(kept)} of {len(asts)} statements are inside the compared '
                                     f'semantics ({len(ungrouped)} with having and no groupby)')
        chk.coverage['ClauseMix.statements'] = (len(kept), len(asts))
        _MIX[id(chk)] = (kept, {g.canon(a) for a in kept})
    return _MIX[id(chk)]


def statement_stream(chk):
    """The statements of this tier with the count of those outside the compared semantics (by reason)."""
    rnd = random.Random(chk.seed)
    mix, _ = clause_mix(chk)
    if chk.quick:
        pool = g.statements(2, False)
        extra = relgen.semantic_statements(chk.seed + 1, 1500, 2)
    else:
        pool = g.statements(2, True)
        extra = relgen.semantic_statements(chk.seed + 1, 9000, 3)
        tries = 0
        while len(extra) < 11000 and tries < 20000:  # dslgen's seeded random deeper statements
            tries += 1
            stmt = g.random_statement(rnd, 4)
            if not relgen.excluded(stmt):
                extra.append(stmt)
    reasons = collections.Counter()
    out, seen = [], set()
    for stmt in pool + extra + mix:
        key = g.canon(stmt)
        if key in seen:
            continue
        seen.add(key)
        why = relgen.excluded(stmt)
        if why:
            reasons[why.split()[0] + ' ' + ' '.join(why.split()[1:])] += 1
            continue
        out.append(stmt)
    return out, dict(reasons), len(pool)


def reference_contexts(ast):
    """Number of query contexts each reference is an origin leaf of."""
    count = collections.Counter()
    for src, _ in relgen._sources(ast):  # pylint: disable=protected-access
        if src['t'] == 'query':
            for leaf in {g.canon(leaf) for leaf in relgen._leaves(src['l']) if leaf['t'] == 'ref'}:  # pylint: disable=protected-access
                count[leaf] += 1
    return count


def set_reference_selected_whole(ast):
    """Some query without a selection has a reference of a set operation among its origins."""
    for src, _ in relgen._sources(ast):  # pylint: disable=protected-access
        if src['t'] == 'query' and not src['sel']:
            if any(leaf['t'] == 'ref' and leaf['l']['t'] == 'set' for leaf in relgen._leaves(src['l'])):  # pylint: disable=protected-access
                return True
    return False


def classify(ast, res, crash, asis_ok):
    """Finding id whose input class the failing observation belongs to, or None (-> VIOLATION).
    The classes are predicates on the statement (plus the kind of outcome they produce):
      parse exception  <- the as-is factorisation model predicts that exception class for this statement, or the
                          statement uses an operator the alchemy parser maps to a python builtin (not / abs)
      exec exception   <- one reference is an origin of two query contexts of the statement
      wrong rows       <- a query selects "everything" of a reference of a set operation (Set.features lists both
                          operands' features), or the rows are what the as-is rendering (cross join as FULL OUTER JOIN ON true, Not as python
                          not) denotes and the statement contains a cross join / a Not."""
    ops = relgen.ops_in(ast)
    if res.startswith('parse:'):
        exc = res.split(':', 1)[1]
        if crash in CRASH_FINDING and CRASH_FINDING[crash][1] == exc:
            return CRASH_FINDING[crash][0]
        if 'abs' in ops and exc == 'TypeError':
            return F_ABS
        if 'not' in ops and exc in ('TypeError', 'AttributeError', 'ArgumentError'):
            return F_NOT
        return None
    if res.startswith('exec:'):
        if any(n > 1 for n in reference_contexts(ast).values()):
            return F_REFCTX
        return None
    if set_reference_selected_whole(ast):
        return F_SETFEAT
    if asis_ok == 'cross+not' and 'not' in ops:
        return F_NOT
    if asis_ok and 'cross' in relgen.join_kinds(ast):
        return F_CROSS
    return None


def selftest_observations():
    """Hand-computed observations (never taken from the code): each right one must be accepted, each corrupted one
    rejected.  B = [(1,'a',3), (2,NULL,1), (3,'b',NULL)], C = [(1,'a',5), (1,'b',6)] (i, s, k)."""
    B, C = g.TABLES['B'], g.TABLES['C']
    data = {'A': [], 'B': [[1, 'a', 3], [2, None, 1], [3, 'b', None]], 'C': [[1, 'a', 5], [1, 'b', 6]]}
    bi, bk, bs, ci, ck = g.col(B, 'i'), g.col(B, 'k'), g.col(B, 's'), g.col(C, 'i'), g.col(C, 'k')
    a, b = relgen.str_code('a'), relgen.str_code('b')
    N = relgen.NULL
    cases = [
        ('where_3vl', g.query(B, [bi], g.op('gt', bk, g.lit(1))), [[1]], [[1], [3]]),
        ('left_join_pads_null', g.query(g.join(B, C, 'left', g.op('eq', bi, ci)), [bi, ck]),
         [[1, 5], [1, 6], [2, N], [3, N]], [[1, 5], [1, 6]]),
        ('group_count_sum', g.query(g.join(B, C, 'inner', g.op('le', ci, bi)), [g.alias(bi, 'g'), g.alias(g.agg('sum', ck), 't')],
                                    None, [bi]), [[1, 11], [2, 11], [3, 11]], [[1, 11], [2, 11], [3, 12]]),
        ('order_desc_limit', g.query(B, [bi, bs], None, (), None, [g.order_term(bi, 'descending')], [2, 1]),
         [[2, N], [1, a]], [[1, a], [2, N]]),
        ('cross_with_empty_side', g.query(g.join(B, g.TABLES['A'], 'cross'), [bi]), [], [[1], [2], [3]]),
        ('union_is_distinct', g.setop(g.query(B, [bi]), g.query(C, [ci]), 'union'), [[1], [2], [3]], [[1], [1], [2], [3]]),
        ('avg_is_rational', g.query(C, [g.alias(g.agg('avg', ck), 'm')]), [[[11, 2]]], [[[5, 1]]]),
        ('count_ignores_null', g.query(B, [g.alias(g.agg('count', bk), 'n')]), [[2]], [[3]]),
        ('not_of_null_is_unknown', g.query(B, [bi], g.op('not', g.op('eq', bk, g.lit(1)))), [[1]], [[1], [3]]),
        ('string_literal', g.query(B, [bi], g.op('eq', bs, g.lit('b'))), [[3]], [[1]]),
    ]
    _ = b
    obs, expect = [], []
    for name, ast, good, bad in cases:
        obs.append({'ast': ast, 'runs': [{'db': 1, 'outs': [{'res': 'ok', 'rows': good}, {'res': 'ok', 'rows': bad},
                                                            {'res': 'parse:KeyError', 'rows': []}]}]})
        expect.append(name)
    return obs, [{'keyed': True, 'data': data}], expect


def parser_level(chk):
    stmts, reasons, npool = statement_stream(chk)
    dbs = relgen.make_dbs(chk.seed, 3)
    tasks = []
    for idx, ast in enumerate(stmts):
        dbis = [i for i, d in enumerate(dbs) if (d['keyed'] or not relgen.needs_keyed(ast))
                and relgen.row_bound(ast, d['data']) <= relgen.MAX_ROWS]
        tasks.append((idx, ast, dbis))
    t0 = time.time()
    ctx = multiprocessing.get_context('fork')
    with ctx.Pool(PROCS, initializer=_pool_init, initargs=(dbs,)) as pool:
        seen = dict(pool.imap_unordered(_pool_observe, tasks, chunksize=40))
    obs = [{'ast': ast, 'runs': seen[idx]} for idx, ast, _ in tasks]
    chk.extra['parser_level'] = {'statements': len(stmts), 'from_dslgen_family': npool, 'excluded_by_reason': reasons,
                                 'observations': sum(len(o['runs']) for o in obs), 'engines': list(relgen.Engines.NAMES),
                                 'observe_wall_s': round(time.time() - t0, 1)}
    unbuildable = [o for o in obs if any(out['res'].startswith('build:') for r in o['runs'] for out in r['outs'])]
    obs = [o for o in obs if o not in unbuildable] if unbuildable else obs
    chk.extra['parser_level']['unbuildable_skipped'] = len(unbuildable)
    if len(unbuildable) > len(stmts) // 4:
        raise tlc.MachineryError(f'{len(unbuildable)} of {len(stmts)} generated statements cannot be built with the DSL')

    # ---- binding self-test with synthetic observations
    sobs, sdbs, names = selftest_observations()
    for name, (wf, codes, _) in zip(names, judge(chk, sobs, sdbs, 'selftest')):
        chk.selftest(f'reads_{name}', wf == 1 and codes[0] == [1, 0, 0])

    # ---- every observation judged by TLC
    verdicts = judge(chk, obs, dbs, 'main')
    rejected = []  # (obs index, run index, out index)
    for oi, (o, (wf, codes, crash)) in enumerate(zip(obs, verdicts)):
        if wf != 1:
            raise tlc.MachineryError(f'generator emitted an ill-formed statement: {g.canon(o["ast"])[:400]}')
        for ri, run in enumerate(o['runs']):
            for ci, out in enumerate(run['outs']):
                if codes[ri][ci] == 1:
                    chk.validated(sum(1 for e, k in run['by'].items() if k == ci))
                else:
                    rejected.append((oi, ri, ci))
    # ---- second pass: are wrong rows what the as-is rendering denotes? (attribution to listed findings only)
    wrong = [(oi, ri, ci) for oi, ri, ci in rejected if obs[oi]['runs'][ri]['outs'][ci]['res'] == 'ok']
    asis_ok = set()
    asis_variant = {}
    if wrong:
        sub = [{'ast': obs[oi]['ast'], 'runs': [{'db': obs[oi]['runs'][ri]['db'], 'outs': [obs[oi]['runs'][ri]['outs'][ci]]}]}
               for oi, ri, ci in wrong]
        # two as-is renderings: cross join alone, cross join together with the python-not rendering of Not
        for variant in ('cross', 'cross+not'):
            for key, (_, codes, _) in zip(wrong, judge(chk, sub, dbs, 'asis-' + variant.replace('+', '-'), asis=variant)):
                if codes[0][0] == 1:
                    asis_ok.add(key)
                    asis_variant.setdefault(key, variant)
    drift = collections.Counter()
    for oi, ri, ci in rejected:
        o, run = obs[oi], obs[oi]['runs'][ri]
        out = run['outs'][ci]
        engines = sorted(e for e, k in run['by'].items() if k == ci)
        crash = verdicts[oi][2]
        finding = classify(o['ast'], out['res'], crash, asis_variant.get((oi, ri, ci)))
        what = (f'{out["res"]} on {"/".join(engines)}' if out['res'] != 'ok' else f'wrong rows on {"/".join(engines)}') + \
            f' for {describe(o["ast"])}'
        if finding is None or finding not in chk.known:
            drift[f'unlisted_failure:{out["res"]}:{"+".join(engines)}'] += 1
        chk.fail(what, {'level': 'parser', 'ast': o['ast'], 'db': dbs[run['db'] - 1]['data'], 'engines': engines,
                        'outcome': out, 'error': {e: run['err'].get(e) for e in engines}, 'model_crash': crash},
                 finding=finding)
    # as-is model drift: the factorisation model predicts a crash class the code did not show (or vice versa)
    for o, (_, _, crash) in zip(obs, verdicts):
        real = {out['res'] for r in o['runs'] for out in r['outs'] if out['res'].startswith('parse:')}
        if crash and not real:
            drift['model_predicts_crash_code_parses'] += 1
        if not crash and any(r.split(':')[1] in ('KeyError',) for r in real):
            drift['code_raises_keyerror_model_silent'] += 1
    chk.extra['impl_model_drift'] = dict(drift)
    for o in obs[:: max(1, len(obs) // 5)][:5]:
        ok = [out for r in o['runs'] for out in r['outs'] if out['res'] == 'ok']
        if ok:
            chk.sample({'statement': describe(o['ast']), 'rows_db1': ok[0]['rows'][:6]})
    chk.extra['parser_level']['rejected_outcomes'] = len(rejected)
    chk.extra['parser_level']['rejected_rows_matching_as_is_rendering'] = len(asis_ok)


def describe(ast):
    """Short DSL-like text of a statement (repr() of the real object hides clauses: Equal.__bool__)."""
    return relgen.show(ast)[:300]


# ------------------------------------------------------------------------------------------------ reader level
READER_STMTS = None
READER_CONTENTS = [{'B': [[1, 'a', 10]]}, {'B': [[1, 'b', 20], [2, 'a', 30]]},
                   {'B': [[3, 'c', 40], [4, 'a', 50], [5, 'b', 60]]}]
# name, Feeds definition, feed kinds, Faulty (storage can become unavailable), Unavail0 (no storage at the start),
# statements read (None: all), histories replayed in the quick / thorough tier
CONFIGS = [('alchemy', 'FeedsAB', {'f1': 'alchemy', 'f2': 'alchemy'}, (), (), None, (450, 2500)),
           ('monolite', 'FeedsM', {'m1': 'monolite', 'm2': 'monolite'}, (), (), None, (450, 2500)),
           ('mixed', 'FeedsMixed', {'f1': 'alchemy', 'm1': 'monolite'}, (), (), None, (450, 2500)),
           # histories with storage faults: an alchemy and a lazy feed whose storages do not exist at the start (and
           # can be lost again), a second lazy feed over a sound storage; two of the statements
           ('faulty', 'FeedsFM', {'f1': 'alchemy', 'm1': 'monolite', 'm2': 'monolite'}, ('f1', 'm1'), ('f1', 'm1'),
            (1, 3), (300, 2500)),
           # two SQL feeds over ONE database (same connection URL), each provisioning the schema from a physical table
           # of its own ("current" / "archive"): the feeds differ in nothing but their source mapping
           ('shared', 'FeedsST', {'t1': 'alchemy-shared', 't2': 'alchemy-shared'}, (), (), None, (220, 1500))]


def reader_statements():
    B = g.TABLES['B']
    above = lambda v: g.query(B, [g.col(B, 'i'), g.col(B, 'k')], where=g.op('gt', g.col(B, 'k'), g.lit(v)))
    return [g.query(B, [g.col(B, 'i'), g.col(B, 'k')]), g.query(B, [g.alias(g.agg('count', g.col(B, 'i')), 'n')]),
            above(15), above(35)]


def reads_cfg(name, feeds_def, lazy, depth, invariants, faulty=(), unavail=(), stmts=None, own=()):
    path = os.path.abspath(f'reads-{name}-{"-".join(invariants)}.cfg')
    names = lambda xs: '{' + ', '.join(chr(34) + x + chr(34) for x in xs) + '}'
    with open(path, 'w') as fh:
        fh.write(f'SPECIFICATION ISpec\nCONSTANTS Feeds <- {feeds_def}\n Depth = {depth}\n'
                 f' Lazy = {names(lazy)}\n OwnName = {names(own)}\n Faulty = {names(faulty)}\n Unavail0 = {names(unavail)}\n'
                 + (' ReadStmts <- AllStmts\n' if stmts is None else f' ReadStmts = {{{", ".join(map(str, stmts))}}}\n')
                 + ' Lits <- NoLits\n' + ''.join(f'INVARIANT {i}\n' for i in invariants) + 'CHECK_DEADLOCK FALSE\n')
    return path


class Zygote:
    def __init__(self):
        self.proc = subprocess.Popen([sys.executable, '-W', 'ignore', '-m', 'harness.feedproc'], stdin=subprocess.PIPE,
                                     stdout=subprocess.PIPE, text=True, cwd=os.getcwd())
        ready = self.proc.stdout.readline()
        if 'ready' not in ready:
            raise tlc.MachineryError(f'feed process did not start: {ready!r}')

    def ask(self, req):
        self.proc.stdin.write(json.dumps(req) + '\n')
        self.proc.stdin.flush()
        line = self.proc.stdout.readline()
        if not line:
            raise tlc.MachineryError('feed process died')
        rep = json.loads(line)
        if 'fatal' in rep:
            raise tlc.MachineryError(f'feed process failed: {rep["fatal"]}\n{rep.get("trace")}')
        return rep

    def close(self):
        try:
            self.proc.stdin.close()
            self.proc.wait(timeout=30)
        except Exception:  # pylint: disable=broad-except
            self.proc.kill()


class Zygotes:
    """PROCS feed processes (harness.feedproc) started in the background; ``run`` works a list of requests through them."""

    def __init__(self, n=None):
        self.n = n or PROCS
        self.zygotes, self.errors = [], []
        self._starter = threading.Thread(target=self._start)
        self._starter.start()

    def _start(self):
        def one():
            try:
                self.zygotes.append(Zygote())
            except BaseException as exc:  # pylint: disable=broad-except
                self.errors.append(exc)

        threads = [threading.Thread(target=one) for _ in range(self.n)]
        for t in threads:
            t.start()
        for t in threads:
            t.join()

    def run(self, jobs):
        """jobs: [request...] -> {id: reply}."""
        self._starter.join()
        if self.errors or not self.zygotes:
            raise tlc.MachineryError(f'feed processes did not start: {self.errors[:1]!r}')
        replies, lock, it, errors = {}, threading.Lock(), iter(jobs), []

        def worker(zyg):
            try:
                while True:
                    with lock:
                        req = next(it, None)
                    if req is None:
                        return
                    rep = zyg.ask(req)
                    with lock:
                        replies[req['id']] = rep
            except BaseException as exc:  # pylint: disable=broad-except
                errors.append(exc)

        threads = [threading.Thread(target=worker, args=(z,)) for z in self.zygotes]
        for t in threads:
            t.start()
        for t in threads:
            t.join()
        if errors:
            raise tlc.MachineryError(f'history replay failed: {errors[0]!r}')
        return replies

    def close(self):
        self._starter.join()
        for z in self.zygotes:
            z.close()
        self.zygotes = []


def replay_histories(jobs, zygotes=None):
    """jobs: [request...] -> {id: reply}; PROCS zygotes work through the queue."""
    own = zygotes or Zygotes(min(PROCS, max(1, len(jobs))))
    try:
        return own.run(jobs)
    finally:
        if zygotes is None:
            own.close()


def read_finding(hist, feeds, k, reads):
    """Input class of read number k (0-based, among the reads) of a history - decided from the history alone:
    F_CACHE  an earlier read of the same statement (same SQL text) exists anywhere in the history (any feed, any
             process: memory frames / on-disk cache under the kept home directory); feeds that provision the schema from
             a physical table of their own name (alchemy-shared) generate a SQL text of their own: only an earlier
             read through the SAME feed is in the class
    F_LAZY   the read goes through a lazy (monolite) feed and an earlier read through a lazy feed happened in the
             same process (the table was registered into the process-global backend then)."""
    me = reads[k]
    own = lambda f: f if feeds[f] == 'alchemy-shared' else ''
    if any(r['s'] == me['s'] and own(r['f']) == own(me['f']) for r in reads[:k]):
        return F_CACHE
    if feeds[me['f']] == 'monolite':
        start = max([i for i, a in enumerate(hist[:me['at'] - 1], start=1) if a['a'] == 'restart'], default=0)
        if any(r['at'] > start and feeds[r['f']] == 'monolite' for r in reads[:k]):
            return F_LAZY
    return None


def reader_level(chk, zygotes=None):
    depth = 3 if chk.quick else 4
    stmts = reader_statements()
    summary = {}
    for name, feeds_def, feeds, faulty, unavail, stmt_ids, caps in CONFIGS:
        lazy = [f for f, kind in feeds.items() if kind == 'monolite']
        extra = {'faulty': faulty, 'unavail': unavail, 'stmts': stmt_ids,
                 'own': [f for f, kind in feeds.items() if kind == 'alchemy-shared']}
        # the as-is cache model does NOT refine the requirement: TLC has to exhibit a stale / foreign read
        res = chk.tlc('FeedCacheImpl', reads_cfg(name, feeds_def, lazy, depth, ['Fresh'], **extra), expect_ok=False,
                      workers=2, coverage=False)
        if res.violated != 'Fresh':
            raise tlc.MachineryError(f'FeedCacheImpl({name}) no longer exhibits a read differing from the requirement')
        # the requirement itself + export of every history with the required and the as-is result of each read
        res = chk.tlc('FeedCacheImpl', reads_cfg(name, feeds_def, lazy, depth, ['OwnStorageNow', 'Export'], **extra),
                      workers=4, coverage=False)
        hists = res.json_prints()
        # reads, mutations, storage losses, restart
        alphabet = len(feeds) * len(stmt_ids or stmts) + len(feeds) + len(faulty) + 1
        want = sum(alphabet ** k for k in range(depth + 1))
        if not hists or res.distinct != want or len(hists) != alphabet ** depth:
            raise tlc.MachineryError(f'FeedCacheImpl({name}): {res.distinct} states / {len(hists)} histories exported, '
                                     f'expected {want} / {alphabet ** depth}')
        acts = collections.Counter(a['a'] for h in hists for a in h['hist'])
        acts['read-unavailable'] = sum(1 for h in hists for r in h['reads'] if not r['avail'])
        for act, label in (('read', 'IRead'), ('mutate', 'IMutate'), ('restart', 'IRestart')) + \
                ((('break', 'IBreak'), ('read-unavailable', 'IRead[storage unavailable]')) if faulty else ()):
            if not acts[act]:
                raise tlc.MachineryError(f'vacuous run: action {label} never taken')
            chk.coverage[f'FeedCacheImpl.{label}[{name}]'] = (acts[act], acts[act])
        # a history that ends in a read determines all reads of its prefixes: the others add nothing
        hists = [h for h in hists if h['hist'][-1]['a'] == 'read']
        if faulty:
            # the fault-free histories are the subject of the other configurations: keep those in which some read meets
            # an unavailable storage and a LATER read an available one (the read the requirement binds)
            hists = [h for h in hists if any(not r['avail'] and any(q['avail'] for q in h['reads'][k + 1:])
                                             for k, r in enumerate(h['reads']))]
        cap = caps[0] if chk.quick else caps[1]     # TLC explored all of them; a seeded sample is replayed on the real feeds
        if len(hists) > cap:
            random.Random(chk.seed).shuffle(hists)
            hists = hists[:cap]
        jobs = [{'id': i, 'feeds': feeds, 'start': {f: k + 1 for k, f in enumerate(feeds)}, 'unavail': list(unavail),
                 'contents': READER_CONTENTS, 'stmts': stmts, 'hist': h['hist']} for i, h in enumerate(hists)]
        t0 = time.time()
        replies = replay_histories(jobs, zygotes)
        stale = drift = unbound = 0
        for i, h in enumerate(hists):
            got = replies[i]['reads']
            if len(got) != len(h['reads']):
                raise tlc.MachineryError(f'history replay returned {len(got)} reads for {len(h["reads"])}')
            good = True
            for k, (real, exp) in enumerate(zip(got, h['reads'])):
                if not exp['avail']:
                    unbound += 1        # no storage at that moment: the property does not say what the read returns
                    continue
                rows = sorted(real['rows']) if 'rows' in real else None
                if rows == sorted(exp['rows']):
                    continue
                good = False
                finding = read_finding(h['hist'], feeds, k, h['reads'])
                if rows is None or rows != sorted(exp['impl']):
                    finding = None  # not what the as-is cache model predicts: not the listed finding
                stale += finding is not None
                what = (f'{name}: read #{k + 1} of history {short(h["hist"])} through {exp["f"]} returned '
                        + (f'{real.get("error")}' if rows is None else f'{rows}') + f' instead of {sorted(exp["rows"])}')
                chk.fail(what, {'level': 'reader', 'config': name, 'feeds': feeds, 'unavail': list(unavail),
                                'hist': h['hist'], 'read': k, 'returned': real, 'required': exp['rows'],
                                'as_is_model': exp['impl']}, finding=finding)
                break
            if any(('rows' in real) == exp['implerr'] or ('rows' in real and sorted(real['rows']) != sorted(exp['impl']))
                   for real, exp in zip(got, h['reads'])):
                drift += 1
            if good:
                chk.validated()
                if i % 211 == 0:
                    chk.sample({'config': name, 'history': short(h['hist']),
                                'reads': [r.get('rows', 'raised') for r in got]})
        summary[name] = {'histories_replayed': len(hists), 'depth': depth, 'with_a_stale_or_foreign_read': stale,
                         'reads_not_predicted_by_cache_model': drift, 'wall_s': round(time.time() - t0, 1)}
        if faulty:
            summary[name]['reads_of_an_unavailable_storage_(unconstrained)'] = unbound
    chk.extra['reader_level'] = summary
    chk.extra.setdefault('impl_model_drift', {})['reader_reads_not_predicted_by_FeedCacheImpl'] = \
        sum(s['reads_not_predicted_by_cache_model'] for s in summary.values())
    # binding self-test: the comparison used above tells a corrupted reply from the required rows
    chk.selftest('reader_corrupted_reply_detected', sorted([[1, 10]]) != sorted([[1, 11]]))


def short(hist):
    return ' '.join(f'{a["a"][0].upper()}{("(" + a["f"] + ("," + str(a["s"]) if a["s"] else "") + ")") if a["f"] else ""}'
                    for a in hist)


# ------------------------------------------------------------------------------------------------ entry points
def main(chk):
    import logging
    import warnings
    warnings.simplefilter('ignore')
    logging.disable(logging.CRITICAL)
    chk.extra['as_is_model_variant'] = {'FactorsImpl.Fixed': relgen.detect_fixes()}
    zygotes = Zygotes()       # the feed processes of the reader level warm up while the parser level runs
    try:
        parser_level(chk)
        reader_level(chk, zygotes)
    finally:
        zygotes.close()
    chk.assume('values are compared in an integer encoding: NULL sentinel, booleans 0/1, integral floats as integers, '
               'strings as order preserving codes, a top-level avg as a normalised rational')
    chk.assume('statements outside the compared semantics are excluded by harness.relgen.excluded on the statement alone '
               '(division, non-literal modulus, avg inside expressions, non-integral float literals, nullable ordering keys, '
               'nested windows without a total order, non-numeric casts, ceil/floor, bare aggregate mixes, nested orderings, '
               'ambiguous reference names; nested set operations are not run on SQLite)')
    chk.assume('an unavailable storage = the table is missing from the SQLite file / the CSV file does not exist; what a read '
               'returns while its storage is unavailable is not constrained (the property quantifies over contents)')
    chk.assume('Restart = a forked interpreter that imports forml freshly with the same FORML_HOME (harness.feedproc)')
    chk.assume('TLC -coverage is not usable with RelAlg.tla; action / verdict counts are checked explicitly instead')


def replay(chk, path):
    with open(path) as fh:
        rep = json.load(fh)['replay']
    print(json.dumps({k: v for k, v in rep.items() if k not in ('ast',)}, indent=1, default=str)[:3000])
    if rep['level'] == 'parser':
        dbs = [{'keyed': True, 'data': rep['db']}]
        engines = relgen.Engines(rep['db'])
        seen = relgen.observe(rep['ast'], engines)
        print('statement:', describe(rep['ast']))
        print('observed now:', json.dumps(seen)[:1500])
        verdict = judge(chk, [{'ast': rep['ast'], 'runs': [{'db': 1, 'outs': seen['outs']}]}], dbs, 'replay')[0]
        print('TLC verdict (wf, codes per outcome, as-is crash):', verdict)
        return 0 if all(c == 1 for c in verdict[1][0]) else 1
    jobs = [{'id': 0, 'feeds': rep['feeds'], 'start': {f: k + 1 for k, f in enumerate(rep['feeds'])},
             'unavail': rep.get('unavail', []), 'contents': READER_CONTENTS, 'stmts': reader_statements(), 'hist': rep['hist']}]
    got = replay_histories(jobs)[0]['reads'][rep['read']]
    print('returned now:', got, 'required:', rep['required'])
    return 0 if 'rows' in got and sorted(got['rows']) == sorted(rep['required']) else 1
