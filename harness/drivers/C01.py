"""C01 - the compiled instruction table preserves the task-graph dataflow.

model:        specs/Compiler.tla: generator of valid segments, Den (direct evaluation over terms), CompilerImpl
              (Table.add transcribed, every visit order), Sound == Ev(table) = Den
spec -> code: every (segment, persistent list) TLC generates is built on the real flow API, compiled by the real
              flow.compile, executed by an independent interpreter and compared with TLC's Den / ExpectedCommit
code -> spec: random larger segments compiled by the real compiler, observations validated by TraceCompiler.tla
"""
import collections
import json
import os
import random

from harness import common, graphs, tlc


def cfg(maxn, orders, path, export, ports=2):
    with open(path, 'w') as fh:
        fh.write(f'SPECIFICATION Spec\nCONSTANTS MaxN = {maxn}\n MaxOut = {ports}\n MaxIn = {ports}\n Orders = "{orders}"\n'
                 'INVARIANT Sound\n' + ('INVARIANT Export\n' if export else '') + 'VIEW View\nCHECK_DEADLOCK FALSE\n')
    return path


def bag(terms):
    return collections.Counter(json.dumps(t, sort_keys=True) for t in terms)


def compare(obs, rec):
    """TLC's expectation (rec: den, commit) against the real observation."""
    if bag(obs['values']) != bag(rec['den']):
        return 'values produced by the compiled table differ from the direct evaluation of the task graph'
    train_mode = any(c['tag'] != 'nil' for c in rec['commit'])
    expected = [[c['args'][0] for c in rec['commit']]] if train_mode else []
    if obs['commits'] != expected:
        return f'committed states {obs["commits"]} differ from the states of the persistent actors at their positions'
    if sorted(obs['loads']) != list(range(1, len(rec['pers']) + 1)):
        return f'loaded offsets {obs["loads"]} differ from the persistent list positions'
    if 'values2' in obs and (bag(obs['values2']) != bag(rec['den']) or obs['commits2'] != expected):
        return 'a second execution of the same compiled table differs from the direct evaluation of the task graph (the first run left something behind in the instructions)'
    return None


def gen_random(rnd, maxn):
    """Python twin of the build phase of Compiler.tla (valid segments only) for sizes TLC does not enumerate."""
    n_target = rnd.randint(4, maxn)
    nodes = [{'szin': 0, 'szout': 1, 'grp': 1, 'trained': False, 'ins': []}]
    sf = [False]

    def outs():
        return [(i + 1, o + 1) for i, n in enumerate(nodes) if not n['trained'] for o in range(n['szout'])]

    def up(i, seen=None):
        """Upstream closure over data edges and implicit state edges (applied member -> sources of its group's trainer)."""
        seen = seen if seen is not None else set()
        if i in seen:
            return seen
        seen.add(i)
        node = nodes[i - 1]
        for p, _ in node['ins']:
            up(p, seen)
        if not node['trained'] and sf[node['grp'] - 1]:
            for j, other in enumerate(nodes, start=1):
                if other['trained'] and other['grp'] == node['grp']:
                    up(j, seen)
        return seen

    while len(nodes) < n_target:
        r = rnd.random()
        mappers = [i + 1 for i, n in enumerate(nodes) if not n['trained'] and i > 0]
        if r < 0.55 or not mappers:
            szin, szout = rnd.randint(1, 3), rnd.randint(1, 3)
            nodes.append({'szin': szin, 'szout': szout, 'grp': len(sf) + 1, 'trained': False,
                          'ins': [list(rnd.choice(outs())) for _ in range(szin)]})
            sf.append(rnd.random() < 0.6)
        elif r < 0.8:
            m = nodes[rnd.choice(mappers) - 1]
            nodes.append({'szin': m['szin'], 'szout': m['szout'], 'grp': m['grp'], 'trained': False,
                          'ins': [list(rnd.choice(outs())) for _ in range(m['szin'])]})
        else:
            cands = [g for g in range(1, len(sf) + 1) if sf[g - 1] and not any(n['trained'] and n['grp'] == g for n in nodes)]
            if not cands:
                continue
            g = rnd.choice(cands)
            free = [o for o in outs() if all(nodes[m - 1]['grp'] != g for m in up(o[0]))]
            if not free:
                continue
            nodes.append({'szin': 0, 'szout': 0, 'grp': g, 'trained': True, 'ins': [list(rnd.choice(free)), list(rnd.choice(free))]})
    if graphs.pick_tail(nodes) is None:
        nodes.append({'szin': 1, 'szout': 1, 'grp': len(sf) + 1, 'trained': False, 'ins': [list(rnd.choice(outs()))]})
        sf.append(False)
    stateful = [g for g in range(1, len(sf) + 1) if sf[g - 1] and any(n['grp'] == g for n in nodes)]
    trained = {n['grp'] for n in nodes if n['trained']}
    mode = rnd.choice(['none', 'train', 'train', 'apply'])
    pool = [g for g in stateful if (g in trained) == (mode == 'train')] if mode != 'none' else []
    rnd.shuffle(pool)
    pers = pool[:rnd.randint(min(2, len(pool)), len(pool))]
    return nodes, sf, pers


def main(chk):
    rnd = random.Random(chk.seed)
    tmp = os.getcwd()
    # ---- 1. design level: the transcribed Table.add is sound for every graph and every visit order
    if chk.quick:
        res = chk.tlc('Compiler', cfg(3, 'all', os.path.join(tmp, 'c3.cfg'), True), require=['AddWorker', 'AddFork', 'AddTrainer', 'Finish', 'Compile'], workers=1)
        exports = res.json_prints()
        res4 = chk.tlc('Compiler', cfg(4, 'none', os.path.join(tmp, 'c4.cfg'), True), require=['AddWorker', 'AddFork', 'AddTrainer', 'Finish'], workers=1)
        more = res4.json_prints()
        rnd.shuffle(more)
        exports += more[:5000]
        # two trained persistent groups need five nodes: single-port segments of five nodes, generation only
        res5 = chk.tlc('Compiler', cfg(5, 'none', os.path.join(tmp, 'c5.cfg'), True, ports=1), require=['Finish'], workers=1)
        multi = [r for r in res5.json_prints() if len(r['pers']) >= 2]
        rnd.shuffle(multi)
        exports += multi[:2500]
        chk.extra['model'] = {'nodes<=3': 'all graphs x persistent lists x all visit orders',
                              'nodes=4': f'all graphs x persistent lists generated ({len(more)}), 5000 replayed',
                              'nodes=5 single-port': f'{len(multi)} configurations with >= 2 persistent groups generated, 2500 replayed'}
    else:
        chk.tlc('Compiler', cfg(4, 'all', os.path.join(tmp, 'c4a.cfg'), False), require=['AddWorker', 'AddFork', 'AddTrainer', 'Finish', 'Compile'], workers=16, timeout=3000)
        res4 = chk.tlc('Compiler', cfg(4, 'none', os.path.join(tmp, 'c4.cfg'), True), require=['Finish'], workers=1, timeout=3000)
        exports = res4.json_prints()
        res5 = chk.tlc('Compiler', cfg(5, 'all', os.path.join(tmp, 'c5.cfg'), True, ports=1), require=['Finish', 'Compile'], workers=16, timeout=5000)
        exports += res5.json_prints()
        chk.extra['model'] = {'nodes<=4': 'all graphs x persistent lists x all visit orders; every (graph, list) replayed',
                              'nodes=5 single-port': 'all graphs x persistent lists x all visit orders; every (graph, list) replayed'}
    if not exports:
        raise tlc.MachineryError('Compiler.tla exported no segment')
    # ---- 2. spec -> code
    done = 0
    for k, rec in enumerate(exports):
        try:
            obs, _ = graphs.compile_and_run(rec['nodes'], rec['sf'], rec['pers'], rnd)
            problem = compare(obs, rec)
        except Exception as exc:  # pylint: disable=broad-except
            problem = f'compilation / interpretation failed: {type(exc).__name__}: {exc}'
        if problem:
            chk.fail(f'C01 segment {rec["nodes"]} persistent={rec["pers"]}: {problem}', {'nodes': rec['nodes'], 'sf': rec['sf'], 'pers': rec['pers']})
        else:
            done += 1
            if k % 997 == 0:
                chk.sample({'nodes': rec['nodes'], 'stateful_groups': rec['sf'], 'persistent': rec['pers'], 'values': obs['values'][-1]})
    chk.validated(done)
    # ---- 2b. a task that fails: the direct evaluation of the graph fails, so does the table - no task is attempted a second
    # time
    faults = 0
    candidates = [r for r in exports if any(not n['trained'] and n['szin'] > 0 and not r['sf'][n['grp'] - 1] for n in r['nodes'])]
    for k, rec in enumerate(candidates[::max(1, len(candidates) // (300 if chk.quick else 3000))]):
        groups = sorted({n['grp'] for n in rec['nodes'] if not n['trained'] and n['szin'] > 0 and not rec['sf'][n['grp'] - 1]})
        group = groups[k % len(groups)]
        marker = os.path.join(tmp, f'fault-{k}')
        try:
            raised, again, commits = graphs.run_with_fault(rec['nodes'], rec['sf'], rec['pers'], group, marker, rnd)
            problem = None
            if raised is None:
                problem = 'the table ran to completion although one of its tasks failed'
            elif again != 0:
                problem = f'the failed task was attempted again ({again} further application(s))'
            # (whether states of an independent branch were committed before the failure surfaced depends on the execution
            # order, which the property leaves open: not judged)
        except Exception as exc:  # pylint: disable=broad-except
            problem = f'compilation failed: {type(exc).__name__}: {exc}'
        if os.path.exists(marker):
            os.remove(marker)
        if problem:
            chk.fail(f'C01 segment {rec["nodes"]} persistent={rec["pers"]} with actor {group} failing once: {problem} (every task runs '
                     'exactly once; the direct evaluation of the graph fails)', {'nodes': rec['nodes'], 'sf': rec['sf'], 'pers': rec['pers'], 'fault': group})
        else:
            faults += 1
    chk.validated(faults)
    chk.extra['fault_runs'] = faults
    # binding self-test: swapping two arguments of one symbol must be noticed
    rec = next(r for r in exports if any(len(n['ins']) == 2 and n['ins'][0] != n['ins'][1] and not n['trained'] for n in r['nodes']))

    def swap(symbols):
        from forml import flow
        out, done_ = [], False
        for s in symbols:
            if not done_ and len(s.arguments) >= 2 and len(set(s.arguments[-2:])) == 2:
                args = list(s.arguments)
                args[-1], args[-2] = args[-2], args[-1]
                s, done_ = flow.Symbol(s.instruction, args), True
            out.append(s)
        return out

    obs, _ = graphs.compile_and_run(rec['nodes'], rec['sf'], rec['pers'], None, mutate=swap)
    chk.selftest('swapped_arguments_rejected', compare(obs, rec) is not None)
    # ---- 3. code -> spec: larger random segments, TLC = reference semantics
    batch, meta = [], []
    count, maxn = (400, 9) if chk.quick else (4000, 11)
    for _ in range(count):
        nodes, sf, pers = gen_random(rnd, maxn)
        try:
            obs, _ = graphs.compile_and_run(nodes, sf, pers, rnd)
        except Exception as exc:  # pylint: disable=broad-except
            chk.fail(f'C01 random segment {nodes} persistent={pers}: compilation / interpretation failed: {type(exc).__name__}: {exc}',
                     {'nodes': nodes, 'sf': sf, 'pers': pers})
            continue
        batch.append(obs)
        meta.append((nodes, sf, pers))
    corrupted = json.loads(json.dumps(batch[0]))
    corrupted['values'][-1] = graphs.T('app', 99, [graphs.NILT])
    batch.append(corrupted)
    path = common.write_json({'obs': batch}, 'c01-obs.json')
    res = chk.tlc('TraceCompiler', 'TraceCompiler.cfg', workers=8, env={'TRACE_FILE': path}, coverage=False, timeout=3000)
    verdicts = {v[0]: v[1] for v in res.tuples('VERDICT')}
    if len(verdicts) != len(batch):
        raise tlc.MachineryError(f'TraceCompiler: {len(verdicts)} verdicts for {len(batch)} observations')
    chk.selftest('corrupted_observation_rejected', verdicts[len(batch)] == 0)
    good = 0
    for i, (nodes, sf, pers) in enumerate(meta, start=1):
        if verdicts[i] == 1:
            good += 1
        else:
            chk.fail(f'C01 random segment {nodes} persistent={pers}: observation rejected by TraceCompiler.tla (values / commits / loads differ from Den)',
                     {'nodes': nodes, 'sf': sf, 'pers': pers})
    chk.validated(good)
    chk.extra['random_segments'] = {'count': len(meta), 'max_nodes': maxn, 'accepted': good}
    chk.assume('actors are uninterpreted function symbols (harness.symbolic); the table is executed by harness.refinterp, '
               'an independent dependency-ordered interpreter; persistent assets are a recording stand-in for asset.Generation')
    chk.assume('valid segment = acyclic, connected from a 0:1 head, simple tail, no state-dependency cycle (train/label sources '
               'of a group not downstream of its applied members), persistent groups all trained or none trained in the segment')


def replay(chk, path):
    with open(path) as fh:
        rep = json.load(fh)['replay']
    obs, symbols = graphs.compile_and_run(rep['nodes'], rep['sf'], rep['pers'], None)
    for s in symbols:
        print(s)
    print(json.dumps(obs, indent=1))
    return 1
