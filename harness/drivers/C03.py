"""C03 - operator composition realises train/apply coherence for every expression.

model:        specs/Composition.tla (denotational semantics: trunk functions over A, T, L; composition = substitution;
              equations per library operator written from the documentation), specs/CompositionMC.tla (universes)
spec -> code: every expression TLC enumerates is built from the real operator library over symbolic actors, closed as
              Source >> e >> Probe, compiled by the real compiler (train segment, then apply segment with the committed
              states) and interpreted; the probe's values must equal TLC's terms.
"""
import json
import os
import random

from harness import common, pipelines, symbolic, tlc


def cfg(level, path, chunks=32):
    with open(path, 'w') as fh:
        fh.write(f'SPECIFICATION Spec\nCONSTANTS Level = {level}\n NChunks = {chunks}\nINVARIANT Check\nCHECK_DEADLOCK FALSE\n')
    return path


def check_expression(chk, rec, tmp):
    e = rec['e']
    try:
        train, apply, extra = pipelines.run_closed(e, tmp)
    except Exception as exc:  # pylint: disable=broad-except
        return f'composition / compilation failed: {type(exc).__name__}: {exc}'
    if train != [rec['train']]:
        return ('train mode: the value passed downstream / the data the probe is trained on differs from the denotation '
                f'(observed {json.dumps(train)[:300]} expected {json.dumps(rec["train"])[:300]})')
    if apply != [rec['apply']]:
        return ('apply mode: the chain applied with the trained states differs from the denotation '
                f'(observed {json.dumps(apply)[:300]} expected {json.dumps(rec["apply"])[:300]})')
    # "passes downstream the output of applying the FRESHLY TRAINED actor ... applies the same chain with THOSE trained
    # states": the state persisted for an actor is the very training execution (nonce) whose application went downstream in
    # train mode - not an equal-looking state of a second, separately trained instance
    for state in extra['raw_states']:
        term = json.loads(bytes(state).decode()) if state else None
        if not term or term.get('tag') != 'st' or len(term['args']) <= 4:
            continue
        label, nonce = term['label'], term['args'][4]['label']
        downstream = symbolic.nonces(extra['raw_train'], label)
        if downstream and nonce not in downstream:
            return (f'the state persisted for actor {label} comes from another training execution than the one whose '
                    'application was passed downstream in train mode (two separately trained instances of one actor)')
    return None


def main(chk):
    import logging
    logging.disable(logging.ERROR)
    rnd = random.Random(chk.seed)
    tmp = os.getcwd()
    level = 2 if chk.quick else 3
    res = chk.tlc('CompositionMC', cfg(level, os.path.join(tmp, 'cm.cfg')), require=['Pick'], workers=16, timeout=3000)
    recs = res.json_prints()
    if len(recs) < 100:
        raise tlc.MachineryError(f'CompositionMC exported only {len(recs)} expressions')
    rnd.shuffle(recs)
    if not chk.quick:
        recs = recs[:40000]
    ok = 0
    for k, rec in enumerate(recs):
        problem = check_expression(chk, rec, tmp)
        if problem:
            chk.fail(f'C03 expression {json.dumps(rec["e"])}: {problem}', {'e': rec['e']})
        else:
            ok += 1
            if k % 397 == 0:
                chk.sample({'expression': rec['e'], 'train_value_of_probe': json.dumps(rec['train'])[:400] + ' ...'})
    chk.validated(ok)
    chk.extra['expressions'] = {'universe_level': level, 'generated': len(recs), 'conforming': ok}
    # binding self-test (independent of the code under test): the comparison rejects an observation in which a stateful
    # actor was trained on the untransformed source instead of its predecessor's output
    rec = next(r for r in recs if r['e']['op'] == 'seq' and r['e']['kids'][0]['op'] == 'mapper' and r['e']['kids'][1]['op'] == 'mapper'
               and r['e']['kids'][1]['sf'])
    bad = json.loads(json.dumps(rec['train']))
    state = bad['args'][1]['args'][0]          # probe <- t = App(12, St(12, nil, x, y), x): corrupt x of the state
    state['args'][1] = {'tag': 'app', 'id': 902, 'args': [{'tag': 'nil', 'id': 0, 'args': []}]}
    chk.selftest('state_trained_on_untransformed_source_rejected', [bad] != [rec['train']] and state['tag'] == 'st')
    chk.assume('actors are uninterpreted function symbols; the closed pipeline is Source >> e >> Probe where the probe is a '
               'stateful mapper whose value exposes the train output, the label output and (apply mode) the apply output')
    chk.assume('apply mode is run with the states committed by the train run of the same composition (fresh expansions and '
               'processes are the subject of C04)')


def replay(chk, path):
    with open(path) as fh:
        rep = json.load(fh)['replay']
    train, apply, extra = pipelines.run_closed(rep['e'], os.getcwd())
    print(json.dumps({'train': train, 'apply': apply, 'extra': extra}, indent=1))
    return 1
