"""C14 - push-down hints offered to storage back-ends never lose required data.

model:        specs/Hints.tla        requirement: Scoped, ColumnsComplete, SafeOn(db) == Eval(stmt, db) = Eval(stmt,
                                     Restrict(db, hints)); Universe = every database inside a bound
              specs/FactorsImpl.tla  as-is transcription of Predicate.factors / Factors.merge / And / Or / Not /
                                     Comparison.factors, Context.Tables.select / filter, Segment.predicate, visit_join's
                                     condition truthiness, visit_table / visit_reference
              specs/HintsMC.tla      TLC judges the as-is hints of every statement of the families (predicates of
                                     bounded depth in where / join conditions, 2-3 tables, self joins through
                                     references, nested statements, aggregating queries with every combination of
                                     where / groupby / having / orderby) on EVERY database with <= 2 rows per table
spec -> code: every statement TLC generated is built with the real DSL and parsed by a recording subclass of the real
              alchemy.Parser (public extension point generate_table + the public context segments); the RECORDED hints
              are judged by specs/TraceHints.tla over the same universe of databases (Safe decided, not sampled).
code -> spec: the C06 statement stream (harness.dslgen + harness.relgen) x seeded table contents: recorded hints judged
              by TraceHints.tla on those contents; the statement is executed on SQLite with and without honouring the
              hints (each table occurrence replaced by "SELECT <offered columns> FROM t WHERE <offered predicate>", the
              predicate being the target code the parser passed) and both results must be results RelAlg's Eval allows.
histories:    specs/LazyReads.tla  the columns a lazy reader offers its origins are a function of the read's own statement:
                                   TLC enumerates every history of reads of TWIN statements (equal but for one clause:
                                   origin / join condition, projection, filter, ordering); each history is replayed in a
                                   fresh process (harness.feedproc) through one lazy reader whose origins record the
                                   requested columns, and TraceHints.tla (LazyComplete) judges every read.
A failure of the recorded hints is a listed finding only when the as-is model predicts a failure of the same clause for
that statement (and the statement is in the finding's syntactic class); everything else is a VIOLATION.
The statement stream includes the clause combinations TLC enumerates from specs/ClauseMix.tla (see C06).
TLC's -coverage cannot be used with RelAlg (see C06); the NextDb action count is checked from the state statistics.
"""
import collections
import json
import multiprocessing
import os
import random
import threading
import time

from harness import common, dslgen as g, relgen, tlc
from harness.drivers import C06

PROCS = C06.PROCS
OBS_BATCH = 120     # observations per TLC process when Safe is decided over a universe
STREAM_BATCH = 700
LAZY_EVERY = 2       # every n-th stream statement is also read through a lazy feed (requested columns)
LAZY_DEPTH = (2, 3)     # reads per history of twin statements (quick, thorough)
LAZY_HISTORIES = (150, 1500)   # histories replayed (TLC enumerates all of them; a seeded sample is replayed)

F_NOT = 'not-factors-unnegated'
F_OR = 'or-keeps-one-sided-factor'
F_EQJOIN = 'equality-join-condition-unregistered'
F_OUTER = 'outer-join-filter-pushdown'
F_REF = 'reference-shares-table-segment'
F_LAZYEQ = 'lazy-columns-merge-equal-field-tables'

# family, Depth, MaxRows, WithNull, tables of the universe
QUICK = [('where', 1, 1, True, 2), ('on', 1, 2, False, 2), ('self', 1, 2, False, 2), ('three', 1, 1, True, 3),
         ('negwhere', 1, 1, True, 2), ('having', 1, 2, False, 2)]
THOROUGH = [('where', 1, 2, True, 2), ('on', 1, 2, True, 2), ('self', 2, 2, True, 2), ('three', 1, 2, False, 3),
            ('wheresmall', 2, 2, False, 2), ('onsmall', 2, 2, False, 2), ('negwhere', 1, 2, True, 2),
            ('negwide', 1, 1, True, 2), ('negon', 1, 2, False, 2), ('having', 1, 2, True, 2)]
TABLES2 = [['A', 2], ['B', 1]]
TABLES3 = [['A', 2], ['B', 1], ['C', 1]]
NULL = relgen.NULL


# ------------------------------------------------------------------------------------------------ model checking
def mc_cfg(family, depth, maxrows, withnull):
    path = os.path.abspath(f'hints-{family}.cfg')
    with open(path, 'w') as fh:
        fh.write(f'SPECIFICATION Spec\nCONSTANTS Family = "{family}"\n Depth = {depth}\n MaxRows = {maxrows}\n'
                 f' WithNull = {"TRUE" if withnull else "FALSE"}\n Lits <- ModelLits\n'
                 f' Fixed = {{{", ".join(chr(34) + x + chr(34) for x in relgen.detect_fixes())}}}\n'
                 'INVARIANT Export\nINVARIANT FamilyWellFormed\nPOSTCONDITION Post\nCHECK_DEADLOCK FALSE\n')
    return path


def model_check(chk, family, depth, maxrows, withnull):
    res = chk.tlc('HintsMC', mc_cfg(family, depth, maxrows, withnull), workers=PROCS, coverage=False, timeout=1700)
    fam = res.tuples('FAMILY')
    exports = res.json_prints()
    if not fam or not exports:
        raise tlc.MachineryError(f'HintsMC({family}) exported nothing\n{res.stdout[-2000:]}')
    nstmts, ndbs, distinct = fam[0]
    # vacuity guard without -coverage: one NextDb step per statement and database, one export per statement
    if len(exports) != nstmts or distinct != nstmts * (ndbs + 1) or res.generated < distinct:
        raise tlc.MachineryError(f'HintsMC({family}): {len(exports)} exports / {distinct} states for {nstmts} statements x '
                                 f'{ndbs} databases')
    chk.coverage[f'HintsMC.NextDb[{family}]'] = (nstmts * ndbs, nstmts * ndbs)
    return exports, ndbs


# ------------------------------------------------------------------------------------------------ TraceHints
def judge_hints(chk, obs, universe, dbs, tag, batch):
    """obs: [{ast, res, hints, runs}] -> verdict lists aligned with obs."""
    lits = relgen.lits_for([o['ast'] for o in obs], extra=[0, 1])
    envs, sizes = [], []
    for n, start in enumerate(range(0, len(obs), batch)):
        chunk = obs[start:start + batch]
        payload = {'lits': lits, 'universe': universe, 'dbs': dbs, 'fixed': relgen.detect_fixes(),
                   'obs': [{'ast': o['ast'], 'res': o['res'],
                            'hints': [{'path': h['path'], 'table': h['table'], 'cols': h['cols'], 'pred': h['pred']}
                                      for h in o['hints']],
                            'runs': o.get('runs', []),
                            'lazy': o.get('lazy', {'res': 'none', 'cols': []})} for o in chunk]}
        envs.append({'TRACE_FILE': common.write_json(payload, f'hints-{tag}-{n}.json')})
        sizes.append(len(chunk))
    out = []
    for res, size, env in zip(C06.run_tlc_parallel(chk, 'TraceHints', 'TraceHints.cfg', envs), sizes, envs):
        got = {v[0]: v[1:] for v in relgen.printed_tuples(res.stdout, 'VERDICT')}
        if len(got) != size or any(len(v) != 10 for v in got.values()):
            raise tlc.MachineryError(f'TraceHints: expected {size} verdicts of 10 fields, got {len(got)}\n{res.stdout[-2500:]}')
        out += [got[i] for i in range(1, size + 1)]
        os.unlink(env['TRACE_FILE'])
    return out


def failures(verdict):
    """Clauses of the property the RECORDED hints break, and the clauses the as-is model breaks for the statement."""
    _, crash, drift, scoped, complete, unsafe, _, runs, asis, lazy = verdict
    real = set()
    if scoped == 0:
        real.add('unscoped')
    if complete == 0:
        real.add('incomplete')
    if unsafe > 0:
        real.add('unsafe')
    if any(r[0] == 1 and r[1] == 0 for r in runs):
        real.add('backend-differs')
    if lazy == 0:
        real.add('lazy-columns-incomplete')   # never predicted by the as-is hint model: always a VIOLATION
    if drift and asis:
        model = ({'unscoped'} if asis[0] == 0 else set()) | ({'incomplete'} if asis[1] == 0 else set()) | \
            ({'unsafe'} if asis[2] > 0 else set())
    elif drift:
        model = set()          # the as-is model predicts a crash (or the code crashed): nothing predicted about hints
    else:
        model = real & {'unscoped', 'incomplete', 'unsafe'}   # equal hints: the model breaks the same hint clauses
    if model:
        model.add('backend-differs')   # a back-end honouring broken hints may return other rows
    _ = crash
    return real, model


def leaves(origin):
    return relgen._leaves(origin)  # pylint: disable=protected-access


def finding_class(ast, kinds):
    """Finding whose syntactic input class the statement belongs to, for the failing clauses ``kinds``."""
    srcs = [s for s, _ in relgen._sources(ast)]  # pylint: disable=protected-access
    refs = [leaf for s in srcs if s['t'] in ('query', 'join') for leaf in leaves(s['l'] if s['t'] == 'query' else s)
            if leaf['t'] == 'ref']
    if refs:
        return F_REF
    joins = [s for s in srcs if s['t'] == 'join']
    if 'incomplete' in kinds and any(j['on']['f'] == 'op' and j['on']['op'] == 'eq' for j in joins):
        if kinds <= {'incomplete', 'backend-differs'}:
            return F_EQJOIN
    preds = list(relgen.predicates(ast))
    ops = set()
    for _, _, p in preds:
        ops.update(n['op'] for n in relgen._nodes(p) if n['f'] == 'op')  # pylint: disable=protected-access
    fixes = set(relgen.detect_fixes())      # a class whose defect the code no longer has explains nothing
    if kinds & {'unsafe', 'backend-differs'}:
        if 'not' in ops and 'not' not in fixes:
            return F_NOT
        if 'or' in ops and 'or' not in fixes:
            return F_OR
        if any(j['kind'] in ('left', 'right', 'full') for j in joins) and 'outer' not in fixes:
            return F_OUTER
    if 'incomplete' in kinds and any(j['on']['f'] == 'op' and j['on']['op'] == 'eq' for j in joins):
        return F_EQJOIN
    return None


def equal_field_tables(ast):
    """Two different tables with identical field lists occur in the statement."""
    tabs = {}
    for _, node in relgen.occurrences(ast):
        tabs.setdefault(json.dumps(node['cols']), set()).add(node['name'])
    return any(len(names) > 1 for names in tabs.values())


def report(chk, ast, verdict, where, extra):
    real, model = failures(verdict)
    if not real:
        return True
    if 'lazy-columns-incomplete' in real and equal_field_tables(ast):
        model = model | {'lazy-columns-incomplete'}     # explained by the table equality defect (C08), see the finding
    unexplained = real - model
    finding = None if unexplained else (F_LAZYEQ if real == {'lazy-columns-incomplete'}
                                         else finding_class(ast, real - {'lazy-columns-incomplete'}))
    what = f'{where}: hints of {relgen.show(ast)[:240]} are {"/".join(sorted(real))}' + \
        (f' (the as-is model predicts only {sorted(model) or "safe hints"})' if unexplained else '')
    chk.fail(what, dict(extra, ast=ast, verdict=verdict, clauses=sorted(real), as_is_clauses=sorted(model)), finding=finding)
    return False


# ------------------------------------------------------------------------------------------------ spec -> code
def family_conformance(chk, family, exports, tables, maxrows, withnull):
    universe = {'tables': tables, 'maxrows': maxrows, 'dom': [0, 1, NULL] if withnull else [0, 1]}
    obs = []
    for exp in exports:
        rec = relgen.record_hints(exp['ast'])
        if rec['res'].startswith('build') or rec['res'] == 'mismatch':
            raise tlc.MachineryError(f'cannot observe hints of {relgen.show(exp["ast"])}: {rec["res"]} {rec["err"]}')
        obs.append({'ast': exp['ast'], 'res': rec['res'], 'hints': rec['hints'], 'runs': [], 'model': exp['verdict']})
    verdicts = judge_hints(chk, obs, universe, [], f'fam-{family}', OBS_BATCH)
    stats = collections.Counter()
    for o, v in zip(obs, verdicts):
        wf, crash, drift = v[0], v[1], v[2]
        if wf != 1:
            raise tlc.MachineryError(f'ill-formed family statement {relgen.show(o["ast"])}')
        mv = o['model']    # verdict of the model-checking run: crash, scoped, complete, unsafe, first
        if mv[0] != crash:
            raise tlc.MachineryError('HintsMC and TraceHints disagree on the as-is crash of one statement')
        stats['drift'] += drift
        if o['res'] != 'ok':
            stats['parse_raised'] += 1          # no hints observable: the crash itself is property C06's subject
            stats['parse_raised_unpredicted'] += (crash == '')
            continue
        if not drift and (v[3], v[4], v[5]) != (mv[1], mv[2], mv[3]):
            raise tlc.MachineryError(f'HintsMC and TraceHints judge equal hints differently: {mv} vs {v}')
        if report(chk, o['ast'], v, f'family {family}', {'level': 'family', 'family': family, 'universe': universe,
                                                        'hints': o['hints']}):
            chk.validated()
            stats['safe'] += 1
            if stats['safe'] % 97 == 1:
                chk.sample({'family': family, 'statement': relgen.show(o['ast']),
                            'hints': [[h['table']['name'], h['cols'], relgen.show(h['pred'])] for h in o['hints']]})
        else:
            stats['failing'] += 1
    return dict(stats)


# ------------------------------------------------------------------------------------------------ code -> spec (stream)
_ENG = None


def _init(dbs):
    global _ENG  # pylint: disable=global-statement
    import logging
    import warnings
    warnings.simplefilter('ignore')
    logging.disable(logging.CRITICAL)
    _ENG = [relgen.Engines(d['data'], names=('sqlite',)) for d in dbs]


def _observe(task):
    idx, ast, dbis = task
    rec = relgen.record_hints(ast)
    lazy = relgen.lazy_columns(ast) if idx % LAZY_EVERY == 0 else {'res': 'none', 'cols': {}}
    runs = []
    # the SQL of statements with a cross join / Not / Abs is wrong whatever the hints (C06 findings of the alchemy
    # reader): their hints are judged, but they are not executed (decided on the statement alone)
    if rec['res'] == 'ok' and not ({'not', 'abs'} & relgen.ops_in(ast)) and 'cross' not in relgen.join_kinds(ast):
        for di in dbis:
            plain = relgen.observe(ast, _ENG[di])['outs'][0]
            hinted = relgen.run_hinted(ast, rec['hints'], _ENG[di].conns['sqlite'])
            runs.append({'db': di + 1, 'plain': plain, 'hinted': {'res': hinted['res'], 'rows': hinted['rows']},
                         'err': hinted.get('err')})
    return idx, rec, runs, {'res': lazy['res'], 'cols': [[t, c] for t, c in sorted(lazy['cols'].items())]}


def stream_conformance(chk):
    rnd = random.Random(chk.seed + 14)
    stmts, _, _ = C06.statement_stream(chk)
    stmts = [s for s in stmts if not relgen.engine_excluded(s, 'sqlite')]
    want = 1500 if chk.quick else 12000
    if len(stmts) > want:
        # a seeded sample of the stream; the TLC generated clause combinations (specs/ClauseMix.tla) are all kept
        mixed = C06.clause_mix(chk)[1]
        rest = [s for s in stmts if g.canon(s) not in mixed]
        stmts = (rnd.sample(rest, want) if len(rest) > want else rest) + [s for s in stmts if g.canon(s) in mixed]
    dbs = relgen.make_dbs(chk.seed, 3)
    tasks = [(i, s, [k for k, d in enumerate(dbs) if (d['keyed'] or not relgen.needs_keyed(s))
                     and relgen.row_bound(s, d['data']) <= relgen.MAX_ROWS]) for i, s in enumerate(stmts)]
    ctx = multiprocessing.get_context('fork')
    with ctx.Pool(PROCS, initializer=_init, initargs=(dbs,)) as pool:
        seen = {i: (rec, runs, lazy) for i, rec, runs, lazy in pool.imap_unordered(_observe, tasks, chunksize=30)}
    obs = []
    skipped = collections.Counter()
    for i, s, _ in tasks:
        rec, runs, lazy = seen[i]
        if rec['res'] != 'ok':
            skipped[rec['res']] += 1     # parsing raised: C06's subject, no hints to judge
            continue
        obs.append({'ast': s, 'res': 'ok', 'hints': rec['hints'],
                    'runs': [{'db': r['db'], 'plain': r['plain'], 'hinted': r['hinted']} for r in runs], 'errs': runs,
                    'lazy': lazy})
        for h in rec['hints']:
            if h['cols'] != h['target_cols'] or (h['pred']['f'] == 'nil') != (h['target_pred'] is None):
                raise tlc.MachineryError('segment read in visit_table and arguments of generate_table differ')
    verdicts = judge_hints(chk, obs, {'tables': [], 'maxrows': 0, 'dom': []}, [relgen.enc_db(d['data']) for d in dbs],
                           'stream', STREAM_BATCH)
    stats = collections.Counter()
    for o, v in zip(obs, verdicts):
        if v[0] != 1:
            raise tlc.MachineryError(f'ill-formed stream statement {relgen.show(o["ast"])}')
        stats['drift'] += v[2]
        stats['plain_rejected_(C06)'] += sum(1 for r in v[7] if r[0] == 0)
        stats['lazy_reads_observed'] += v[9] >= 0
        if report(chk, o['ast'], v, 'stream', {'level': 'stream', 'hints': o['hints'], 'runs': o['errs'],
                                                'dbs': [d['data'] for d in dbs]}):
            chk.validated(len(o['runs']))
            stats['safe'] += 1
        else:
            stats['failing'] += 1
    stats.update({f'skipped_{k}': n for k, n in skipped.items()})
    stats['statements'] = len(stmts)
    return dict(stats)


# ------------------------------------------------------------------------------------------------ lazy read histories
NO_UNIVERSE = {'tables': [], 'maxrows': 0, 'dom': []}


def lazy_cfg(depth):
    path = os.path.abspath('lazyreads.cfg')
    with open(path, 'w') as fh:
        fh.write(f'SPECIFICATION Spec\nCONSTANTS Depth = {depth}\n Lits <- LazyLits\nINVARIANT FamilyWellFormed\n'
                 'INVARIANT TwinsDiffer\nINVARIANT OwnStatementOnly\nINVARIANT NeedCoversUse\nINVARIANT Export\n'
                 'POSTCONDITION Post\nCHECK_DEADLOCK FALSE\n')
    return path


class LazyHistories:
    """Histories of reads through one lazy reader per fresh process: generated by TLC (LazyReads.tla), replayed in the
    background by the feed processes while the families are model checked, judged by TLC (TraceHints.tla) at the end."""

    def __init__(self, chk):
        self.chk = chk
        depth = LAZY_DEPTH[0 if chk.quick else 1]
        res = chk.tlc('LazyReads', lazy_cfg(depth), workers=2, coverage=False, timeout=600)
        head = res.tuples('LAZYREADS')
        hists = [h for h in res.json_prints() if len(h['asts']) == depth]
        # vacuity guard without -coverage: every history is a state of its own; one export per complete history
        if not head or not hists or head[0][1] != res.distinct or len(hists) != len({json.dumps(h['asts']) for h in hists}):
            raise tlc.MachineryError(f'LazyReads: {len(hists)} histories exported, {res.distinct} states\n{res.stdout[-1500:]}')
        chk.coverage['LazyReads.Read'] = (res.distinct - 1, res.distinct - 1)
        self.total, self.statements, self.depth = len(hists), head[0][0], depth
        cap = LAZY_HISTORIES[0 if chk.quick else 1]
        if len(hists) > cap:
            random.Random(chk.seed + 4).shuffle(hists)
            hists = hists[:cap]
        self.hists = hists
        self.zygotes = C06.Zygotes(PROCS)
        self.replies, self.error = None, None
        self.thread = threading.Thread(target=self._replay)
        self.thread.start()

    def _replay(self):
        try:
            jobs = [{'id': i, 'kind': 'lazy', 'stmts': h['asts']} for i, h in enumerate(self.hists)]
            self.replies = self.zygotes.run(jobs)
        except BaseException as exc:  # pylint: disable=broad-except
            self.error = exc
        finally:
            self.zygotes.close()

    def judge(self):
        chk = self.chk
        self.thread.join()
        if self.error is not None:
            raise self.error if isinstance(self.error, tlc.MachineryError) else tlc.MachineryError(repr(self.error))
        obs, where = [], []
        for i, h in enumerate(self.hists):
            reads = self.replies[i]['reads']
            if len(reads) != len(h['asts']):
                raise tlc.MachineryError(f'lazy history replay returned {len(reads)} reads for {len(h["asts"])}')
            for k, (ast, seen) in enumerate(zip(h['asts'], reads)):
                obs.append(lazy_observation(ast, seen))
                where.append((i, k))
        verdicts = judge_hints(chk, obs, NO_UNIVERSE, [], 'lazyhist', STREAM_BATCH)
        stats = collections.Counter(histories=len(self.hists), histories_of_the_bound=self.total,
                                    statements_of_the_family=self.statements, reads_per_history=self.depth)
        failed = set()
        for (i, k), o, v in zip(where, obs, verdicts):
            if v[0] != 1:
                raise tlc.MachineryError(f'ill-formed statement in a lazy history: {relgen.show(o["ast"])}')
            stats['reads'] += 1
            if v[9] < 0:
                stats['reads_not_observed_' + o['lazy']['res'].split(':')[0]] += 1   # the read raised: C06's subject
                continue
            stats['reads_judged'] += 1
            if v[9] == 1 or i in failed:
                continue
            failed.add(i)
            h = self.hists[i]
            need = h['need'][k]
            what = (f'lazy reader: read #{k + 1} of the history [' + ' ; '.join(relgen.show(a)[:150] for a in h['asts'][:k + 1])
                    + f'] asked its origins for {dict((t, c) for t, c in o["lazy"]["cols"])}, the statement uses {need}')
            finding = F_LAZYEQ if equal_field_tables(o['ast']) else None
            chk.fail(what, {'level': 'lazy-history', 'asts': h['asts'], 'read': k, 'requested': o['lazy'], 'needs': need,
                            'ast': o['ast']}, finding=finding)
        if stats['reads_judged'] * 10 < stats['reads'] * 9:
            raise tlc.MachineryError(f'lazy histories: only {stats["reads_judged"]} of {stats["reads"]} reads asked the '
                                     f'origins for columns ({dict(stats)})')
        chk.validated(len(self.hists) - len(failed))
        if self.hists and 0 not in failed:
            chk.sample({'lazy_history': [relgen.show(a) for a in self.hists[0]['asts']],
                        'requested_columns': [r['cols'] for r in self.replies[0]['reads']]})
        return dict(stats)


def lazy_observation(ast, seen):
    """An observation of TraceHints.tla that carries only the columns a lazy reader requested (res 'lazy': no hints)."""
    return {'ast': ast, 'res': 'lazy', 'hints': [], 'runs': [], 'lazy': {'res': seen['res'], 'cols': seen['cols']}}


# ------------------------------------------------------------------------------------------------ self-test
def selftest(chk):
    """Synthetic observations over hand-made data: the right hints are accepted, each corruption is rejected."""
    B, C = g.TABLES['B'], g.TABLES['C']
    bi, bk = g.col(B, 'i'), g.col(B, 'k')
    ast = g.query(B, [bi], g.op('gt', bk, g.lit(1)))
    data = {'A': [], 'B': [[1, 'a', 3], [2, 'b', 1], [3, 'a', None]], 'C': []}
    good_rows = [[1]]

    def obs(cols, pred, hinted):
        return {'ast': ast, 'res': 'ok', 'hints': [{'path': '/l', 'table': B, 'cols': cols, 'pred': pred}],
                'runs': [{'db': 1, 'plain': {'res': 'ok', 'rows': good_rows}, 'hinted': {'res': 'ok', 'rows': hinted}}]}

    cases = [('right_hints_accepted', obs(['i', 'k'], g.op('gt', bk, g.lit(1)), [[1]]), lambda r, m: not r),
             ('missing_column_rejected', obs(['i'], g.op('gt', bk, g.lit(1)), [[1]]), lambda r, m: 'incomplete' in r),
             ('losing_filter_rejected', obs(['i', 'k'], g.op('lt', bk, g.lit(1)), [[1]]), lambda r, m: 'unsafe' in r),
             ('foreign_column_in_filter_rejected', obs(['i', 'k'], g.op('gt', g.col(C, 'k'), g.lit(1)), [[1]]),
              lambda r, m: 'unscoped' in r),
             ('differing_backend_result_rejected', obs(['i', 'k'], g.NIL_F, []), lambda r, m: 'backend-differs' in r)]
    verdicts = judge_hints(chk, [c[1] for c in cases], {'tables': [], 'maxrows': 0, 'dom': []}, [relgen.enc_db(data)],
                           'selftest', 50)
    for (name, _, test), v in zip(cases, verdicts):
        real, model = failures(v)
        chk.selftest(f'hints_{name}', v[0] == 1 and bool(test(real, model)))
    # columns requested by a lazy reader (synthetic): complete accepted, a column of the filter missing rejected
    lazy = [lazy_observation(ast, {'res': 'ok', 'cols': [['B', cols]]}) for cols in (['i', 'k'], ['i'])]
    good, bad = judge_hints(chk, lazy, NO_UNIVERSE, [], 'selftest-lazy', 50)
    chk.selftest('lazy_requested_columns_complete_accepted', good[0] == 1 and good[9] == 1)
    chk.selftest('lazy_requested_columns_missing_rejected', bad[0] == 1 and bad[9] == 0)


# ------------------------------------------------------------------------------------------------ entry points
def main(chk):
    import logging
    import warnings
    warnings.simplefilter('ignore')
    logging.disable(logging.CRITICAL)
    chk.extra['as_is_model_variant'] = {'FactorsImpl.Fixed': relgen.detect_fixes()}
    selftest(chk)
    histories = LazyHistories(chk)      # replayed in the background while the families are model checked
    summary = {}
    for family, depth, maxrows, withnull, ntab in (QUICK if chk.quick else THOROUGH):
        t0 = time.time()
        exports, ndbs = model_check(chk, family, depth, maxrows, withnull)
        model = collections.Counter()
        for e in exports:
            v = e['verdict']
            model['crash:' + v[0] if v[0] else ('safe' if (v[1], v[2], v[3]) == (1, 1, 0) else 'unsafe_or_incomplete')] += 1
        stats = family_conformance(chk, family, exports, TABLES2 if ntab == 2 else TABLES3, maxrows, withnull)
        summary[family] = {'statements': len(exports), 'databases_each': ndbs, 'depth': depth, 'max_rows': maxrows,
                           'with_null': withnull, 'as_is_model': dict(model), 'recorded_hints': stats,
                           'wall_s': round(time.time() - t0, 1)}
    chk.extra['families'] = summary
    chk.extra['impl_model_drift'] = {'family_statements_with_hints_differing_from_FactorsImpl':
                                     sum(s['recorded_hints'].get('drift', 0) for s in summary.values())}
    chk.extra['lazy_histories'] = histories.judge()
    chk.extra['stream'] = stream_conformance(chk)
    chk.extra['impl_model_drift']['stream_statements_with_hints_differing_from_FactorsImpl'] = chk.extra['stream'].get('drift', 0)
    chk.assume('hints are observed by a subclass of alchemy.Parser overriding visit_table (reads the public context '
               'segment) and generate_table (the offered target code); the generated SQL is unchanged')
    chk.assume('a hint-honouring back-end is realised by replacing each table occurrence with a copy restricted by its '
               'hint (offered columns, rows passing the offered target-code predicate); the stock alchemy parser cannot '
               'host a substituted selectable in generate_table because element code stays bound to the resolved table')
    chk.assume('a lazy reader\'s column requests are observed through the public hook lazy.Origin.partitions(columns, predicate) '
               'of inline origins; every history of reads runs in a freshly started interpreter with its own ForML home')
    chk.assume('statements whose parsing raises offer no hints: the exception is property C06\'s subject, not C14\'s')
    chk.assume('limit/offset windows are stripped before judging Safe (a window picks rows by position)')
    chk.assume('statements with a cross join / Not / Abs are not EXECUTED with honoured hints (their SQL is wrong whatever '
               'the hints: C06 findings); their recorded hints are still judged by TLC')


def replay(chk, path):
    with open(path) as fh:
        rep = json.load(fh)['replay']
    ast = rep['ast']
    if rep['level'] == 'lazy-history':
        print('history:', [relgen.show(a) for a in rep['asts']], 'read', rep['read'] + 1, 'needs', rep['needs'])
        reads = C06.replay_histories([{'id': 0, 'kind': 'lazy', 'stmts': rep['asts']}])[0]['reads']
        print('requested now:', [r['cols'] for r in reads])
        verdicts = judge_hints(chk, [lazy_observation(a, r) for a, r in zip(rep['asts'], reads)], NO_UNIVERSE, [], 'replay', 10)
        print('LazyComplete per read:', [v[9] for v in verdicts])
        return 0 if all(v[9] == 1 for v in verdicts) else 1
    print('statement:', relgen.show(ast))
    rec = relgen.record_hints(ast)
    print('recorded now:', rec['res'], [[h['path'], h['table']['name'], h['cols'], relgen.show(h['pred'])] for h in rec['hints']])
    if rec['res'] != 'ok':
        return 1
    if rep['level'] == 'family':
        verdict = judge_hints(chk, [{'ast': ast, 'res': 'ok', 'hints': rec['hints'], 'runs': []}], rep['universe'], [],
                              'replay', 10)[0]
    else:
        dbs = [{'keyed': True, 'data': d} for d in rep['dbs']]
        _init(dbs)
        _, rec, runs, _ = _observe((0, ast, list(range(len(dbs)))))
        verdict = judge_hints(chk, [{'ast': ast, 'res': 'ok', 'hints': rec['hints'],
                                     'runs': [{'db': r['db'], 'plain': r['plain'], 'hinted': r['hinted']} for r in runs]}],
                              {'tables': [], 'maxrows': 0, 'dom': []}, [relgen.enc_db(d['data']) for d in dbs], 'replay', 10)[0]
    real, model = failures(verdict)
    print('verdict:', verdict, 'clauses broken now:', sorted(real), 'as-is model:', sorted(model))
    return 1 if real else 0
