"""C16 - concurrent serving never crosses, loses or duplicates responses.

model:        specs/Serving.tla (request pipeline Extract / Deal / Take / Done / Resolve / Respond over executors, FIFO queues,
              forked workers, three kinds of failing requests): NoCross, AtMostOnce, FailAlone, UniqueIds, <>AllAnswered
code -> spec: the real runtime Engine (real registry with several trained generations, real dispatch / executor / pool /
              forked workers / pyfunc runner, CSV codec) serves seeded concurrent batches with failing requests injected;
              (1) every awaited response must carry its own request id and the stamp of the generation its application
              selects, a failing request must fail alone with a platform error; (2) with FORML_VERIF=1 the per-process task
              life-cycle logs of the guarded hooks are validated by specs/TraceServing.tla and the task<->request binding
              TLC derives from them is cross-checked with the responses; (3) the same engine behind the real REST gateway
              (Starlette application driven in-process over ASGI): concurrent HTTP requests with negotiated content types,
              the event log (send / handler call / handler return / response) validated by specs/TraceGateway.tla against
              specs/Gateway.tla (+ the operators of Negotiation.tla).
"""
import asyncio
import json
import os
import random
import shutil
import tempfile

from harness import common, tlc


def cfg_model(nreq, nworkers, apps, bad, miss, unk, path, liveness=True):
    with open(path, 'w') as fh:
        fh.write(f'SPECIFICATION Spec\nCONSTANTS NReq = {nreq}\n NWorkers = {nworkers}\n Apps <- {apps}\n BadReq = {{{bad}}}\n'
                 f' MissReq = {{{miss}}}\n UnkReq = {{{unk}}}\nINVARIANT NoCross\nINVARIANT FailAlone\nINVARIANT Good\nINVARIANT AtMostOnce\n'
                 'INVARIANT UniqueIds\n' + ('PROPERTY AllAnswered\n' if liveness else '') + 'CHECK_DEADLOCK FALSE\n')
    return path


ANSWER_TIMEOUT = 60


def plan_batch(rnd, size, napps, base):
    """Seeded batch: (rid, application, kind, delay ms)."""
    batch = []
    for k in range(size):
        rid = base + k
        r = rnd.random()
        kind = 'ok' if r < 0.7 else rnd.choice(['unknown', 'missing', 'renamed', 'badenc', 'badaccept', 'poison'])
        batch.append((rid, f'app{rnd.randint(1, napps)}' if kind != 'unknown' else 'nope', kind, rnd.choice([0, 0, 1, 3, 7, 15, 30])))
    rnd.shuffle(batch)
    return batch


def make_request(rid, kind, delay):
    from forml.io import layout
    csv = layout.Encoding('text/csv')
    if kind == 'missing':
        return layout.Request(f'rid\n{rid}\n'.encode(), csv, {}, [csv])
    if kind == 'renamed':   # as wide as the feature list, one column under another name
        return layout.Request(f'rid,valve\n{rid},{delay}\n'.encode(), csv, {}, [csv])
    if kind == 'badaccept':  # decodable request, no supported response encoding: fails in the response-encoding process pool
        return layout.Request(f'rid,delay\n{rid},{delay}\n'.encode(), csv, {}, [layout.Encoding('image/png')])
    if kind == 'badenc':
        return layout.Request(f'rid,delay\n{rid},{delay}\n'.encode(), layout.Encoding('foo/bar'), {}, [csv])
    if kind == 'poison':    # a well-formed request the model refuses with a forml error half-way through the pipeline
        from harness import serving
        delay = serving.POISON
    return layout.Request(f'rid,delay\n{rid},{delay}\n'.encode(), csv, {}, [csv])


def serve(registry, feed, napps, processes, batches, racing=False):
    """Run the real engine over the given batches (each batch is awaited concurrently). Returns per-request results."""
    from forml import io
    from forml.runtime import _service
    from harness import serving
    inventory = (serving.RacingInventory if racing else serving.Inventory)([serving.Desc(f'app{g}', g) for g in range(1, napps + 1)])
    results = {}

    async def main():
        engine = _service.Engine(inventory, registry, io.Importer(feed), processes=processes)
        try:
            for batch in batches:
                tasks = [asyncio.ensure_future(engine.apply(app, make_request(rid, kind, delay))) for rid, app, kind, delay in batch]
                await asyncio.wait(tasks, timeout=ANSWER_TIMEOUT)
                for (rid, app, kind, delay), task in zip(batch, tasks):
                    if not task.done():
                        task.cancel()
                        results[rid] = TimeoutError(f'no answer within {ANSWER_TIMEOUT}s')
                    else:
                        results[rid] = task.exception() or task.result()
        finally:
            bounded_shutdown(engine.shutdown)

    run_loop(main())
    return results


def bounded_shutdown(shutdown, timeout=30):
    """Shut the engine down without ever waiting for it longer than `timeout` (a daemon thread: an engine whose threads
    are stuck must not hang the check - the unanswered requests are the verdict)."""
    import threading
    thread = threading.Thread(target=shutdown, daemon=True)
    thread.start()
    thread.join(timeout)


def run_loop(coroutine):
    """asyncio.run without the final join of the default executor (its threads may be stuck inside the engine)."""
    loop = asyncio.new_event_loop()
    try:
        asyncio.set_event_loop(loop)
        return loop.run_until_complete(coroutine)
    finally:
        asyncio.set_event_loop(None)
        # loop.close() would be fine, loop.shutdown_default_executor() is what must be skipped
        try:
            loop.close()
        except Exception:  # pylint: disable=broad-except
            pass


def judge(rid, app, kind, answer, directory):
    """Requirement verdict for one awaited response."""
    import forml
    from forml.io import asset
    from harness import serving
    if kind != 'ok':
        if isinstance(answer, forml.AnyError):
            return None
        return f'request {rid} ({kind}) must fail with a platform error but got {answer!r}'[:300]
    if isinstance(answer, BaseException):
        return f'valid request {rid} to {app} failed: {answer!r}'[:300]
    gen = int(app[3:])
    want = f'c0,c1,c2,c3\n{rid},{rid},{gen},{rid}\n'.encode()
    if bytes(answer.payload.data) != want:
        return f'request {rid} to {app} received {bytes(answer.payload.data)!r} instead of {want!r} (own id from every branch, stamp of generation {gen})'
    if not str(answer.instance).endswith(f'-{serving.PROJECT}-{serving.RELEASE}-{gen}'):
        return f'request {rid} to {app} reports instance {answer.instance}'
    return None


def collect_trace(tracedir, mainpid):
    """Per-process logs -> run record for TraceServing.tla (executor ids mapped to small ints)."""
    procs, execs = {}, {}
    for name in os.listdir(tracedir):
        with open(os.path.join(tracedir, name)) as fh:
            events = [json.loads(l) for l in fh if l.strip()]
        events.sort(key=lambda e: e['seq'])
        for e in events:
            if 'executor' in e:
                e['executor'] = execs.setdefault(e['executor'], len(execs) + 1)
            e.setdefault('task', 0)
            e.setdefault('status', '')
            e.setdefault('executor', 0)
            e.setdefault('pool', 0)
            e.setdefault('rid', 0)
            e.setdefault('stamp', 0)
        procs[int(name.split('.')[0])] = events
    ordered = [procs.pop(mainpid, [])] + [procs[p] for p in sorted(procs)]
    return {'procs': ordered, 'executors': max(len(execs), 1)}


def main(chk):
    import logging
    logging.disable(logging.CRITICAL)
    rnd = random.Random(chk.seed)
    tmp = os.getcwd()
    # ---- 1. model level
    if chk.quick:
        chk.tlc('Serving', cfg_model(5, 2, 'Apps5', 4, 3, 5, os.path.join(tmp, 'sv.cfg')),
                require=['Extract', 'Deal', 'Take', 'Done', 'Resolve', 'Respond'], workers=8)
        chk.tlc('Serving', cfg_model(6, 2, 'Apps6', 4, 3, 5, os.path.join(tmp, 'sv6.cfg'), liveness=False), require=['Respond'], workers=16)
    else:
        chk.tlc('Serving', cfg_model(6, 3, 'Apps6', 4, 3, 5, os.path.join(tmp, 'sv6.cfg')), require=['Respond'], workers=16, timeout=3000)
        chk.tlc('Serving', cfg_model(7, 3, 'Apps7', 4, 3, 5, os.path.join(tmp, 'sv7.cfg'), liveness=False), require=['Respond'], workers=16, timeout=5000)
    # ---- 2. the real engine
    from forml.io import asset
    from harness import serving
    work = tempfile.mkdtemp(prefix='c16-', dir=tmp)
    napps = 3
    registry, feed = serving.setup_registry(work, napps)
    directory = asset.Directory(registry)
    configs = [(1, [8]), (2, [16, 12]), (3, [32])] if chk.quick else \
        [(p, sizes) for p in (1, 2, 3, 4) for sizes in ([1, 2, 3], [8, 16], [64], [24, 40])] * 2
    runs, ok, total, base = [], 0, 0, 0
    for processes, sizes in configs:
        tracedir = tempfile.mkdtemp(prefix='trace-', dir=work)
        os.environ['FORML_VERIF'] = '1'
        os.environ['FORML_VERIF_TRACE'] = tracedir
        from forml.runtime._service import prediction
        prediction._VERIF_TRACE = tracedir  # the module reads the variable at import time (harness process only)
        batches = []
        for size in sizes:
            batches.append(plan_batch(rnd, size, napps, base))
            base += size
        results = serve(registry, feed, napps, processes, batches)
        stamps = {}
        for batch in batches:
            for rid, app, kind, delay in batch:
                total += 1
                problem = judge(rid, app, kind, results.get(rid), directory)
                if problem:
                    chk.fail(f'C16 pool={processes} batches={sizes}: {problem}',
                             {'processes': processes, 'batches': batches, 'rid': rid})
                else:
                    ok += 1
                if kind == 'ok' and not isinstance(results.get(rid), BaseException):
                    stamps[rid] = int(app[3:])
        run = collect_trace(tracedir, os.getpid())
        run['expect'] = stamps
        run['meta'] = {'processes': processes, 'batches': batches}
        runs.append(run)
        shutil.rmtree(tracedir, ignore_errors=True)
    # ---- 2b. the interleaving of two first lookups of one application that TLC finds in DescriptorCache.tla, steered on
    # the real dispatcher through the inventory (a public extension point)
    res = chk.tlc('DescriptorCache', 'DescriptorCache.cfg', require=['Check', 'List', 'Diff', 'Update', 'Decide', 'Fetch'], workers=4)
    asis = chk.tlc('DescriptorCache', 'DescriptorCacheAsIs.cfg', expect_ok=False, workers=2)
    chk.selftest('model_refutes_decision_on_the_stale_difference', asis.violated == 'ValidNeverMissing')
    os.environ.pop('FORML_VERIF_TRACE', None)
    prediction._VERIF_TRACE = None
    race_batch = [(base, 'app1', 'ok', 0), (base + 1, 'app1', 'ok', 0)]
    base += 2
    results = serve(registry, feed, napps, 2, [race_batch], racing=True)   # the dispatcher's thread pool has `processes` threads
    for rid, app, kind, delay in race_batch:
        total += 1
        problem = judge(rid, app, kind, results.get(rid), directory)
        if problem:
            chk.fail(f'C16 two concurrent first requests of one application: {problem}', {'processes': 2, 'batches': [race_batch], 'rid': rid, 'racing': True})
        else:
            ok += 1
    chk.validated(ok)
    chk.extra['engine'] = {'runs': len(configs) + 1, 'requests': total, 'conforming_responses': ok}
    chk.sample({'pool': configs[0][0], 'batch': runs[0]['meta']['batches'][0][:6]})
    # ---- 3. hook traces against the task protocol
    if not any(len(r['procs'][0]) for r in runs):
        raise tlc.MachineryError('no hook events were recorded (FORML_VERIF hooks missing?)')
    corrupted = json.loads(json.dumps(runs[0]))
    dones = [(p, i) for p, log in enumerate(corrupted['procs']) for i, e in enumerate(log) if e['ev'] == 'done']
    if len(dones) >= 2:     # binding self-test: two workers' results exchange their task ids
        (p1, i1), (p2, i2) = dones[0], dones[-1]
        corrupted['procs'][p1][i1]['task'], corrupted['procs'][p2][i2]['task'] = corrupted['procs'][p2][i2]['task'] + 1, corrupted['procs'][p1][i1]['task']
    batch = runs + [corrupted]
    path = common.write_json({'runs': [{'procs': r['procs'], 'executors': r['executors']} for r in batch]}, 'c16-traces.json')
    res = chk.tlc('TraceServing', 'TraceServing.cfg', workers=1, env={'TRACE_FILE': path}, coverage=False, timeout=3000)
    verdicts = {v[0]: v for v in res.tuples('VERDICT')}
    binds = {b['run']: b['bind'] for b in res.json_prints() if isinstance(b, dict) and 'run' in b}
    if len(verdicts) != len(batch):
        raise tlc.MachineryError(f'TraceServing: {len(verdicts)} verdicts for {len(batch)} runs')
    chk.selftest('exchanged_task_ids_rejected', verdicts[len(batch)][1] < verdicts[len(batch)][2] or verdicts[len(batch)][3] == 0)
    good = 0
    for i, run in enumerate(runs, start=1):
        _, consumed, events, complete = verdicts[i]
        meta = run['meta']
        if consumed < events or not complete:
            chk.fail(f'C16 pool={meta["processes"]}: the task life-cycle log is not a behaviour of the serving protocol '
                     f'({consumed} of {events} events explained, complete={bool(complete)}): a task was lost, duplicated or answered '
                     'with another task\'s id', {'processes': meta['processes'], 'batches': meta['batches'], 'procs': run['procs'],
                                                  'executors': run['executors'], 'explained': consumed})
            continue
        pairs = binds.get(i, [])
        seen = {}
        for e, t, rid, stamp in pairs:
            seen.setdefault(rid, []).append(stamp)
        bad = [rid for rid, stamp in run['expect'].items() if seen.get(rid) != [stamp]]
        if bad:
            chk.fail(f'C16 pool={meta["processes"]}: requests {bad[:5]} were not executed exactly once by the model generation their '
                     'application selects', {'processes': meta['processes'], 'batches': meta['batches']})
        else:
            good += 1
    chk.validated(good)
    chk.extra['hook_traces'] = {'runs': len(runs), 'accepted': good, 'events': sum(verdicts[i][2] for i in range(1, len(runs) + 1))}
    # ---- 4. the outermost interface: the REST gateway in front of the same engine (Gateway.tla / TraceGateway.tla)
    from harness import gateway
    gateway.check(chk, rnd, registry, feed, napps, [(1, [10]), (2, [24, 12])] if chk.quick else
                  [(p, sizes) for p in (1, 2, 3, 4) for sizes in ([1, 2, 3], [16, 32], [64])], base=base + 1000)
    shutil.rmtree(work, ignore_errors=True)
    chk.assume('besides the three listed platform errors a request refused by a pipeline actor with a forml error (poison) is injected; '
               'it must fail alone like them')
    chk.assume('requests failing with non-platform exceptions (which stop the pool by design) are outside the premise and not injected')
    chk.assume('real parallel timing is sampled (seeded delays and arrival orders); the exhaustive interleaving claim is about Serving.tla')


def replay(chk, path):
    rep = json.load(open(path))['replay']
    print(json.dumps(rep)[:2000])
    return 1
