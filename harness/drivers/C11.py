"""C11 - graph construction keeps the topology invariants under any call sequence.

model:        specs/FlowGraph.tla (declared wires, placeholder resolution, allowed outcome of every call)
spec -> code: for every reachable declared graph (all call orders, one witness each) the witness history and then
              EVERY generated call is executed on real flow.Worker/Future objects; outcome class and the projected
              state (node.output, Worker.input/trained/derived) are compared with TLC's.
code -> spec: seeded random call sequences over larger casts, recorded and validated by specs/TraceFlowGraph.tla.
"""
import concurrent.futures
import json
import os
import random
import sys

from harness import common, graphs, symbolic, tlc

CASTS_QUICK = [('CastA', 4), ('CastB', 4), ('CastC', 3), ('CastG', 2)]
CASTS_THOROUGH = [('CastA', 6), ('CastB', 6), ('CastC', 5), ('CastD', 5), ('CastE', 5), ('CastG', 5)]
TRAIN, LABEL = -1, -2


def _cfg(cast, depth, trace, path):
    with open(path, 'w') as fh:
        fh.write(f'SPECIFICATION Spec\nCONSTANTS Cast <- {cast}\n Depth = {depth}\n WithTrace = {"TRUE" if trace else "FALSE"}\n'
                 'CONSTRAINT Bound\nVIEW View\nINVARIANT Safe\nINVARIANT FutureTransparent\nINVARIANT ResolvedSingleLemma\n'
                 + ('INVARIANT Export\n' if trace else '') + 'CHECK_DEADLOCK FALSE\n')
    return path


# ---------------------------------------------------------------------------------------------- real objects
reset_ports = graphs.reset_ports


def build(cast):
    from forml import flow
    groups = {}
    nodes = []
    for n in cast:
        if n['k'] == 'f':
            nodes.append(flow.Future(n['zin'], n['zout']))
        elif n['grp'] in groups:
            nodes.append(groups[n['grp']].fork())
        else:
            cls = symbolic.Stateful if n['sf'] else symbolic.Stateless
            node = flow.Worker(cls.builder(f'g{n["grp"]}', n['zout']), n['zin'], n['zout'])
            groups[n['grp']] = node
            nodes.append(node)
    return nodes


def project(nodes):
    from forml import flow
    ident = {id(n): i + 1 for i, n in enumerate(nodes)}

    def port(p):
        if isinstance(p, flow.Subscription):
            p = p.port
        name = type(p).__name__
        return TRAIN if name == 'Train' else LABEL if name == 'Label' else int(p)

    obs = []
    for n in nodes:
        outs = []
        for subs in n.output:
            lst = [[ident.get(id(s.node), 0), port(s)] for s in subs]
            outs.append(sorted(lst))
        worker = isinstance(n, flow.Worker)
        obs.append({'out': outs, 'inp': sorted(port(p) for p in n.input) if worker else [],
                    'trained': bool(worker and n.trained), 'derived': bool(worker and n.derived)})
    return obs


def norm_obs(obs):
    return [{'out': [sorted(map(list, o)) for o in n['out']], 'inp': sorted(n['inp']), 'trained': n['trained'],
             'derived': n['derived']} for n in obs]


class _Fixed:
    """Operator written against the public composition API exposing a given node as its apply segment."""

    def __new__(cls, head):
        from forml import flow

        class Fixed(flow.Operator):
            def compose(self, scope):
                return flow.Trunk(apply=head)

        return Fixed()


SPELLING = [0]


def perform(nodes, call):
    """Execute one abstract call through the public API. Returns 'ok' or the exception class name."""
    from forml import flow
    a = call['a']
    try:
        if call['op'] == 'sub':
            s, q, p, i = a
            # the public spellings of one connection are equivalent: subscribe on the port proxy, subscribe on its
            # .subscriber / to the .publisher view, publish from the output port - rotated call by call
            SPELLING[0] += 1
            if SPELLING[0] % 4 == 1:
                nodes[s - 1][q].subscriber.subscribe(nodes[p - 1][i].publisher)
            elif SPELLING[0] % 4 == 2:
                from forml.flow._graph import port as portmod
                nodes[p - 1][i].publish(nodes[s - 1], portmod.Apply(q))
            elif SPELLING[0] % 4 == 3:
                nodes[s - 1][q].subscriber.subscribe(nodes[p - 1][i])
            else:
                nodes[s - 1][q].subscribe(nodes[p - 1][i])
        elif call['op'] == 'train':
            w, p1, i1, p2, i2 = a
            nodes[w - 1].train(nodes[p1 - 1][i1], nodes[p2 - 1][i2])
        elif call['op'] == 'segment':
            flow.Segment(nodes[a[0] - 1])
        elif call['op'] == 'segtail':
            flow.Segment(nodes[a[0] - 1], nodes[a[1] - 1])
        elif call['op'] == 'compose':
            flow.Composition(_Fixed(nodes[a[0] - 1]))
        else:
            raise tlc.MachineryError(f'unknown call {call}')
    except flow.TopologyError:
        return 'topo'
    except RecursionError:
        return 'RecursionError'
    except Exception as exc:  # pylint: disable=broad-except
        return type(exc).__name__
    return 'ok'


def effect(call):
    a = call['a']
    if call['op'] == 'sub':
        return {(a[2], a[3], a[0], a[1])}
    if call['op'] == 'train':
        return {(a[1], a[2], a[0], TRAIN), (a[3], a[4], a[0], LABEL)}
    return set()


# ---------------------------------------------------------------------------------------------- classification
def strip_train(obs, w):
    """Projection with every trace of worker w's Train-port subscription removed (outs and inputs only)."""
    return [{'out': [[e for e in o if e != [w, TRAIN]] for o in n['out']],
             'inp': [q for q in n['inp'] if not (i + 1 == w and q == TRAIN)]} for i, n in enumerate(obs)]


def train_half_done(before, cast, call):
    """The state the finding train-not-atomic predicts: exactly the Train-port subscription of the refused call stays
    behind (and with it the worker counts as trained, its stateful group siblings as derived) - nothing else."""
    w, p1, i1 = call['a'][0], call['a'][1], call['a'][2]
    state = json.loads(json.dumps(before))
    state[p1 - 1]['out'][i1] = sorted(state[p1 - 1]['out'][i1] + [[w, TRAIN]])
    state[w - 1]['inp'] = sorted(state[w - 1]['inp'] + [TRAIN])
    state[w - 1]['trained'] = True
    for i, n in enumerate(cast):
        if i + 1 != w and n['k'] == 'w' and n.get('sf') and n.get('grp') == cast[w - 1].get('grp'):
            state[i]['derived'] = True
    return state


def tail_search_as_is(nodes, head, tail):
    """What the finding explicit-tail-search-stops-at-the-tail predicts for Segment(head, tail): the depth-first search for
    the given tail follows the subscriptions in subscription order and stops as soon as the tail is found - a cycle on a
    branch it has not entered yet goes unnoticed.  Walks the REAL graph through its public attributes.
    -> 'ok' | 'topo'"""
    from forml import flow

    class Cyclic(Exception):
        pass

    def mappers(node):
        seen = []
        subs = [s.node for port in node.output for s in port]
        if isinstance(tail, flow.Future) and tail.subscribed(node):
            subs.append(tail)
        for sub in subs:
            if any(sub is x for x in seen) or (isinstance(sub, flow.Worker) and sub.trained):
                continue
            seen.append(sub)
            yield sub

    def exists(node, members):
        if node is tail:
            return True
        for sub in mappers(node):
            if any(sub is m for m in members):
                raise Cyclic()
            if exists(sub, members + [sub]):
                return True
        return False

    try:
        return 'ok' if exists(head, [head]) else 'topo'
    except Cyclic:
        return 'topo'
    except RecursionError:
        return 'RecursionError'


def classify(cast, wire, call, got, before, after, refused=(), nodes=None):
    """Input-class predicates of the known findings, decided from the abstract input (cast, declared wires, call);
    the outcome is only used to tell which of the listed failure modes was hit."""
    kinds = {i + 1: n['k'] for i, n in enumerate(cast)}
    a = call['a']
    changed = before != after
    if call['op'] == 'segtail' and got == 'ok' and not changed and nodes is not None:
        if tail_search_as_is(nodes, nodes[a[0] - 1], nodes[a[1] - 1]) == 'ok':
            return 'explicit-tail-search-stops-at-the-tail'
    if call['op'] == 'sub':
        s, q, p, i = a
        if kinds[s] == 'f' and any(x[2] == s and x[3] == q and (x[0], x[1]) != (p, i) for x in wire) and got == 'ok':
            return 'future-double-publisher'
        if (kinds[s] == 'f' or kinds[p] == 'f') and got != 'ok' and changed:
            return 'future-collapse-not-atomic'
    # a registration on a placeholder that was refused earlier in this history stays behind unseen (same finding):
    # any later call through that placeholder is affected
    stale = {c['a'][0] for c in refused if c['op'] == 'sub' and kinds[c['a'][0]] == 'f'}
    touched = {a[0], a[2]} if call['op'] == 'sub' else {a[1], a[3]} if call['op'] == 'train' else set()
    if stale & touched:
        return 'future-collapse-not-atomic'
    if call['op'] == 'train' and got != 'ok' and changed:
        if after == train_half_done(before, cast, call):
            return 'train-not-atomic'
        if kinds[a[1]] == 'f' or kinds[a[3]] == 'f':
            return 'future-collapse-not-atomic'
    return None


def replay_state(cast, rec, index, stats, chk, sample_rate, rnd):
    """Replay the witness history of one declared graph, then every generated call from it."""
    reset_ports()
    expected = norm_obs(rec['obs'])
    wire = {tuple(w) for w in rec['wire']}

    def fresh():
        nodes = build(cast)
        for step, c in enumerate(rec['hist']):
            got = perform(nodes, c)
            if got != 'ok':
                return nodes, f'accepted call {c} (step {step}) of the witness history raised {got}'
        return nodes, None

    nodes, err = fresh()
    if err is None and project(nodes) != expected:
        err = f'state after witness history differs: expected {expected} observed {project(nodes)}'
    if err:
        chk.fail(f'C11 {err}', {'cast': cast, 'hist': rec['hist'], 'call': None},
                 finding=None)
        return
    stats['states'] += 1
    dirty = False
    calls = sorted(rec['calls'], key=lambda c: (c['res'] == 'ok', json.dumps(c['c'])))
    for item in calls:
        call, res = item['c'], item['res']
        if sample_rate < 1 and rnd.random() > sample_rate:
            continue
        mutating = res == 'ok' or (res == 'any' and call['op'] == 'train')
        if dirty or mutating:
            reset_ports()
            nodes, _ = fresh()
            dirty = False
        got = perform(nodes, call)
        after = project(nodes)
        stats['calls'] += 1
        what = None
        if res == 'topo':
            if got != 'topo':
                what = f'call {call} must raise TopologyError but returned {got}'
                dirty = True
            elif after != expected:
                what = f'call {call} raised TopologyError but changed the graph'
                dirty = True
        elif res == 'ok':
            succ = index.get(frozenset(wire | effect(call)))
            dirty = True
            if got != 'ok':
                what = f'legal call {call} raised {got}'
            elif succ is not None and after != succ:
                what = f'call {call}: resulting connections differ from the direct wiring: expected {succ} observed {after}'
        else:  # any: property silent on acceptance, but a refusal must leave the graph unchanged
            if got != 'ok' and after != expected:
                what = f'call {call} was refused ({got}) but changed the graph'
                dirty = True
            elif got == 'ok' and not mutating and after != expected:
                what = f'read-only call {call} changed the graph'
                dirty = True
            elif got == 'ok' and mutating:
                dirty = True
        if what:
            key = f'{call["op"]}:{res}->{got}:{"changed" if after != expected else "same"}:{classify(cast, wire, call, got, expected, after, nodes=nodes)}'
            slot = chk.extra.setdefault('failure_classes', {}).setdefault(key, {'n': 0, 'first': [rec['hist'], call]})
            slot['n'] += 1
            chk.fail(f'C11 cast={[n["k"] for n in cast]} after {rec["hist"]}: {what}',
                     {'cast': cast, 'hist': rec['hist'], 'call': call, 'expected': res},
                     finding=classify(cast, wire, call, got, expected, after, nodes=nodes))
        else:
            stats['conform'] += 1


def casts_json():
    """The casts of FlowGraphCasts.tla, printed by TLC itself (single source of truth)."""
    res = tlc.run('FlowGraphCastsDump', 'FlowGraphCastsDump.cfg', workers=1, coverage=False)
    out = {}
    for rec in res.json_prints():
        out[rec['name']] = rec['cast']
    return out


def run_tlc_export(args):
    cast, depth, tmp = args
    cfg = _cfg(cast, depth, True, os.path.join(tmp, f'fg-{cast}.cfg'))
    return cast, tlc.run('FlowGraphCasts', cfg, workers=1, coverage=True, timeout=3000)


def main(chk):
    rnd = random.Random(chk.seed)
    tmp = os.getcwd()
    casts = casts_json()
    plan = CASTS_QUICK if chk.quick else CASTS_THOROUGH
    stats = {'states': 0, 'calls': 0, 'conform': 0}
    with concurrent.futures.ThreadPoolExecutor(max_workers=6) as pool:
        results = list(pool.map(run_tlc_export, [(c, d, tmp) for c, d in plan]))
    for cast, res in results:
        if res.violated:
            raise tlc.MachineryError(f'FlowGraph {cast}: {res.violated} violated in the model')
        tlc.require_coverage(res, ['Do'])
        chk.states += res.distinct
        chk.transitions += res.generated
        chk.tlc_runs.append({'module': 'FlowGraphCasts', 'cast': cast, 'distinct': res.distinct, 'generated': res.generated,
                             'wall_s': round(res.wall, 1)})
        uniq = {}
        depth = dict(plan)[cast]
        for r in res.json_prints():  # TLC evaluates invariants also on successors discarded by VIEW / CONSTRAINT
            if len(r['wire']) > depth:
                continue
            uniq.setdefault(frozenset(tuple(w) for w in r['wire']), r)
        recs = list(uniq.values())
        if len(recs) != res.distinct:
            raise tlc.MachineryError(f'{cast}: exported {len(recs)} of {res.distinct} states')
        index = {frozenset(tuple(w) for w in r['wire']): norm_obs(r['obs']) for r in recs}
        rate = 1.0 if (not chk.quick or len(recs) < 1500) else 1500 / len(recs)
        for r in recs:
            if rate < 1 and rnd.random() > rate:
                continue
            replay_state(casts[cast], r, index, stats, chk, 1.0, rnd)
        chk.sample({'cast': cast, 'witness': recs[len(recs) // 2]['hist'], 'observed': recs[len(recs) // 2]['obs']})
    chk.validated(stats['states'])
    chk.extra['replayed'] = stats
    # binding self-test: a projection with one subscription dropped must differ from the expected one
    nodes = build(casts['CastA'])
    perform(nodes, {'op': 'sub', 'a': [1, 0, 3, 0]})
    good = project(nodes)
    bad = json.loads(json.dumps(good))
    bad[2]['out'][0] = []
    chk.selftest('dropped_subscription_detected', good != bad and good[2]['out'][0] == [[1, 0]])
    random_traces(chk, casts, rnd)
    chk.assume('projection = node.output, Worker.input/trained/derived read through the public API; node ids = cast order')
    chk.assume('placeholder-only cycles (Future feeding itself through Futures) are not generated: the property is silent')
    chk.assume('Segment.copy and Trunk.extend/use are exercised by C03/C12 (operator library), not here')


def random_traces(chk, casts, rnd):
    """code -> spec: long random call sequences on the real objects, validated step by step by TraceFlowGraph.tla."""
    names = sorted(casts)
    traces = []
    n_traces, length = (60, 25) if chk.quick else (400, 40)
    for t in range(n_traces):
        cast = casts[names[t % len(names)]]
        reset_ports()
        nodes = build(cast)
        pubs = [(p + 1, i) for p, n in enumerate(cast) for i in range(n['zout'])]
        subs = [(s + 1, q) for s, n in enumerate(cast) for q in range(n['zin'])]
        workers = [w + 1 for w, n in enumerate(cast) if n['k'] == 'w']
        events = []
        for _ in range(length):
            r = rnd.random()
            if r < 0.6:
                (s, q), (p, i) = rnd.choice(subs), rnd.choice(pubs)
                call = {'op': 'sub', 'a': [s, q, p, i]}
            elif r < 0.85:
                (p1, i1), (p2, i2) = rnd.choice(pubs), rnd.choice(pubs)
                call = {'op': 'train', 'a': [rnd.choice(workers), p1, i1, p2, i2]}
            else:
                heads = [h + 1 for h, n in enumerate(cast) if n['zin'] <= 1]
                call = {'op': rnd.choice(['segment', 'compose']), 'a': [rnd.choice(heads)]}
            got = perform(nodes, call)
            events.append({'c': call, 'got': got if got in ('ok', 'topo') else 'error', 'obs': project(nodes)})
            if got == 'RecursionError':
                break
        traces.append({'cast': names[t % len(names)], 'events': events})
    for i, tr in enumerate(traces, start=1):
        tr['id'] = i
    path = common.write_json({'traces': traces}, 'c11-traces.json')
    verdicts = {}
    for name in names:
        cfg = os.path.join(os.getcwd(), f'tfg-{name}.cfg')
        with open(cfg, 'w') as fh:
            fh.write(f'SPECIFICATION TSpec\nCONSTANTS Cast <- {name}\n CastName = "{name}"\n Depth = 0\n WithTrace = FALSE\n'
                     'CONSTRAINT Track\nPOSTCONDITION Post\nCHECK_DEADLOCK FALSE\n')
        res = chk.tlc('TraceFlowGraph', cfg, workers=1, env={'TRACE_FILE': path}, coverage=False, timeout=3000)
        verdicts.update({v[0]: v for v in res.tuples('VERDICT')})
    if len(verdicts) != len(traces):
        raise tlc.MachineryError(f'TraceFlowGraph: {len(verdicts)} verdicts for {len(traces)} traces')
    ok = 0
    for i, tr in enumerate(traces, start=1):
        _, matched, length_ = verdicts[i]
        if matched < length_:
            ev = tr['events'][matched]
            hist = [e['c'] for e in tr['events'][:matched]]
            wire = set()
            for e in tr['events'][:matched]:
                if e['got'] == 'ok':
                    wire |= effect(e['c'])
            chk.fail(f'C11 random sequence on {tr["cast"]}: step {matched + 1} {ev["c"]} -> {ev["got"]} is not an allowed '
                     f'outcome / state after {len(hist)} calls', {'cast': casts[tr['cast']], 'hist': hist, 'call': ev['c']},
                     finding=classify(casts[tr['cast']], wire, ev['c'], ev['got'],
                                      tr['events'][matched - 1]['obs'] if matched else project(build(casts[tr['cast']])), ev['obs'],
                                      refused=[e['c'] for e in tr['events'][:matched] if e['got'] != 'ok']))
        else:
            ok += 1
    chk.validated(ok)
    chk.extra['random_traces'] = {'traces': len(traces), 'accepted': ok, 'max_len': length}


def replay(chk, path):
    with open(path) as fh:
        rep = json.load(fh)['replay']
    reset_ports()
    nodes = build(rep['cast'])
    for c in rep['hist']:
        print(c, '->', perform(nodes, c))
    if rep.get('call'):
        print(rep['call'], '->', perform(nodes, rep['call']), 'expected', rep.get('expected'))
    print(json.dumps(project(nodes)))
    return 1
