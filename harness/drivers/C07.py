"""C07 - a query statement is constructible exactly when it obeys the DSL grammar; .schema lists names/kinds in order.

model:        specs/DslAst.tla (AST, documented rules: BrokenIn / WellFormed, SchemaOf), specs/Statements.tla
              (builder calls as a state machine: ok iff WellFormed(next) else GrammarError, state unchanged)
spec -> code: TLC explores every statement reachable in <= Depth builder calls over an alphabet of arguments and
              prints, per statement, the expected outcome of EVERY call of the alphabet (ok + next statement, or the
              broken rules); each of these transitions is executed on the real DSL through the public builder API:
              GrammarError vs success, the projected successor statement, its .schema
code -> spec: harness.dslgen statements (all up to a depth bound) and each single-rule violation at each position are
              built on the real DSL; TraceStatements.tla decides every observation (verdict and schema) with WellFormed
"""
import collections
import concurrent.futures
import hashlib
import itertools
import json
import multiprocessing
import os
import random
import re
import sys
import threading
import time

from harness import common, dslgen as g, tlc

PROCS = int(os.environ.get('VERIF_PROCS') or 8)  # worker processes / TLC workers
CHUNK = 4000        # observations per TraceStatements run
FINDING_UNNAMED = 'schema-unnamed-output'
FINDING_DUPNAME = 'schema-duplicate-output-names'


# --------------------------------------------------------------------------------------------- alphabets
def alphabet(name):
    """Argument alphabets of the builder-call state machine (features are dslgen ASTs; indices are 1-based).
    'wide': 25 features incl. foreign / ill-kinded ones, python-equal literals of different kinds and two right-hand
    origins, 82 calls;
    'core': 12 features, 27 calls (explored two calls deeper)."""
    A, B = g.TABLES['A'], g.TABLES['B']
    rA = g.ref(A, 'r')
    ai, af, as_, ab = (g.col(A, n) for n in 'ifsb')
    bi, ri = g.col(B, 'i'), g.col(rA, 'i')
    calls = []

    def call(m, a=0, b=0, k=''):
        calls.append({'m': m, 'a': a, 'b': b, 'k': k})

    if name == 'wide':
        pool = [ai, af, as_, ab, bi, ri, g.lit(1), g.lit('a'), g.lit(True),
                g.agg('count', ai), g.agg('sum', af), g.alias(g.op('add', ai, g.lit(1)), 'x'),
                g.op('add', ai, g.lit(1)), g.op('gt', ai, g.lit(1)), g.op('eq', ai, bi), g.op('eq', ai, ri),
                g.op('gt', g.agg('count', ai), g.lit(1)), g.op('add', as_, g.lit(1)), g.op('eq', ai, as_),
                g.op('and', ai, ab), g.alias(g.agg('sum', af), 't'),
                # literals whose python values are equal (and hash equal) although their kinds differ: 1 / True (above)
                # / 1.0 - a constant is a literal of the kind of ITS python type whatever constants were used before
                g.lit(1.0), g.op('add', af, g.lit(1.0)), g.op('add', ai, g.lit(True)), g.op('eq', ab, g.lit(True))]
        sels = [[1], [3], [5], [6], [7], [10], [12], [13], [18], [1, 2], [3, 21], [3, 10], [1, 5], [22], [23], [24]]
        wheres = [4, 9, 14, 15, 17, 7, 19, 20, 22, 25]
        havings = [14, 17, 7, 15]
        groups = [[1], [3], [13], [10], [5], [7], [1, 3]]
        orders = [[(1, 0)], [(3, 1)], [(10, 0)], [(5, 0)], [(3, 1), (1, 0)], [(7, 0)]]
        limits = [[1, 0], [2, 1]]
        others = [B, rA]
        setothers = [g.query(A), g.query(B), g.query(A, [ai])]
        joins = [(kind, o, cond) for kind in ('inner', 'cross') for o in (1, 2) for cond in (0, 15, 16, 14, 1, 17)]
        joins += [(kind, 1, cond) for kind in ('left', 'right', 'full') for cond in (0, 15)]
        sets = [(1, 'union'), (2, 'union'), (3, 'union'), (1, 'intersection'), (1, 'difference')]
        refs = ['r', 'q']
    else:
        # columns of two tables, a literal of each kind, an aggregate, an alias, an arithmetic and a boolean
        # expression, a foreign column (B.i until B is joined), a join condition
        pool = [ai, as_, ab, bi, g.lit(1), g.lit('a'), g.lit(True), g.agg('sum', ai),
                g.alias(g.agg('count', as_), 'n'), g.op('add', ai, g.lit(1)), g.op('gt', ai, g.lit(1)),
                g.op('eq', ai, bi)]
        sels = [[1], [4], [10], [2, 9], [1, 2]]
        wheres = [11, 12, 5, 8]
        havings = [11, 1]
        groups = [[1], [2], [8]]
        orders = [[(1, 0)], [(2, 1)], [(8, 1)]]
        limits = [[1, 0]]
        others = [B]
        setothers = [g.query(A), g.query(A, [ai])]
        joins = [('inner', 1, 12), ('inner', 1, 0), ('inner', 1, 8), ('left', 1, 12), ('cross', 1, 0), ('cross', 1, 12)]
        sets = [(1, 'union'), (2, 'intersection')]
        refs = ['r']
    for i in range(len(sels)):
        call('select', i + 1)
    for p in wheres:
        call('where', p)
    for p in havings:
        call('having', p)
    for i in range(len(groups)):
        call('groupby', i + 1)
    for i in range(len(orders)):
        call('orderby', i + 1)
    for i in range(len(limits)):
        call('limit', i + 1)
    for kind, o, cond in joins:
        call('join', o, cond, kind)
    for o, kind in sets:
        call('set', o, 0, kind)
    for r in refs:
        call('reference', 0, 0, r)
    return {'name': name, 'start': [A], 'pool': pool, 'sels': sels, 'groups': groups,
            'orders': [[{'x': x, 'dir': g.DIRS[d]} for x, d in o] for o in orders], 'limits': limits,
            'others': others, 'setothers': setothers, 'calls': calls}


def expand(key, al):
    """Python mirror of Statements.tla Expand (compact key -> AST).  Only used to name the successor statement TLC
    expects beyond the export bound; validated against every AST TLC prints (a difference is a machinery error)."""
    t, i, k, l, x, sel, wh, grp, hv, ord_, lim = key
    pool = al['pool']

    def conj(ws):
        if not ws:
            return None
        return pool[ws[0] - 1] if len(ws) == 1 else g.op('and', pool[ws[0] - 1], conj(ws[1:]))

    def stmt(s):
        return s if s['t'] in ('query', 'set') else g.query(s)

    if t == 'start':
        return al['start'][i - 1]
    if t == 'join':
        return g.join(expand(l, al), al['others'][i - 1], k, None if x == 0 else pool[x - 1])
    if t == 'ref':
        return g.ref(expand(l, al), k)
    if t == 'set':
        return g.setop(stmt(expand(l, al)), stmt(al['setothers'][i - 1]), k)
    return g.query(expand(l, al), [pool[j - 1] for j in al['sels'][sel - 1]] if sel else [], conj(wh),
                   [pool[j - 1] for j in al['groups'][grp - 1]] if grp else [], conj(hv),
                   [g.order_term(pool[o['x'] - 1], o['dir']) for o in al['orders'][ord_ - 1]] if ord_ else [],
                   al['limits'][lim - 1] if lim else None)


def next_key(key, flat):
    t, i, k, x, sel, wh, grp, hv, ord_, lim, same_l = flat
    return [t, i, k, key[3] if same_l else key, x, sel, wh, grp, hv, ord_, lim]


# --------------------------------------------------------------------------------------------- input classes
def _statements_inside(node):
    for _, sub in g.walk(node):
        if g.is_source(sub) and sub['t'] in ('query', 'set', 'join'):
            yield sub


def has_unnamed_output(node):
    """Input class of FINDING_UNNAMED: some (sub-)statement outputs a feature that has no name (an un-aliased literal
    / expression in a selection)."""
    return any(sub['t'] == 'query' and any(f['f'] not in ('col', 'alias') for f in sub['sel'])
               for sub in _statements_inside(node))


def has_duplicate_names(node):
    """Input class of FINDING_DUPNAME: some (sub-)statement or join outputs two features of the same name."""
    for sub in _statements_inside(node):
        names = [n for n, _ in g.outputs(sub) if n]
        if len(names) != len(set(names)):
            return True
    return False


def classify(node, kind, asis=True):
    """Known-finding input class of a failing input, per kind of failure (None: unknown -> VIOLATION):
    schema_raised / raised - reading .schema or a builder call raised something else than GrammarError: the unreadable
        schema of un-aliased outputs;  schema_mismatch - a readable but wrong schema: collapsed duplicate names;
    set_verdict - a set operation decided wrongly: it compares the (collapsed) schemas of its operands;
    verdict - any other wrong accept / reject decision: never a known finding."""
    if kind in ('schema_raised', 'raised'):
        return FINDING_UNNAMED if has_unnamed_output(node) else None
    if kind == 'schema_mismatch':  # asis: the observed schema is exactly what the as-is model (DslAst Collapse) predicts
        return FINDING_DUPNAME if has_duplicate_names(node) and asis else None
    if kind == 'set_verdict':
        return FINDING_DUPNAME if has_duplicate_names(node) else None
    return None


def schema_matches(expected, got):
    """expected: [{'name', 'kind'}...] from TLC; got: [[name, kind]...] read from the real .schema.  Names are
    compared where the output feature has one (the documentation does not name un-aliased expressions)."""
    return len(expected) == len(got) and all(
        e['kind'] == k and (e['name'] == '' or e['name'] == n) for e, (n, k) in zip(expected, got))


class shallow_stack:  # pylint: disable=invalid-name
    """Performance only: inputs of the class FINDING_UNNAMED make forml recurse until RecursionError (tens of ms at
    the default limit); for operations on such inputs the limit is lowered.  The outcome is judged as usual."""

    def __init__(self, active):
        self.active = active

    def __enter__(self):
        self.old = sys.getrecursionlimit()
        if self.active:
            sys.setrecursionlimit(min(self.old, 260))

    def __exit__(self, *exc):
        sys.setrecursionlimit(self.old)


def read_schema(obj, shallow=False):
    try:
        with shallow_stack(shallow):
            return g.schema_of(obj), 'ok'
    except BaseException as exc:  # pylint: disable=broad-except  (RecursionError is what the code raises today)
        return [], '!' + type(exc).__name__


# --------------------------------------------------------------------------------------------- real DSL side
class Real:
    """The alphabet as real DSL objects and the builder calls on them."""

    def __init__(self, al):
        from forml.io import dsl
        self.dsl = dsl
        self.al = al
        # literal leaves are spelled the documented way, as plain python constants the DSL converts itself (the
        # code -> spec direction, g.build, spells them as explicit dsl.Literal instances); a worker replays thousands of
        # transitions in one interpreter: the outcome of a call must not depend on the constants used before
        self.builder = g.Builder(implicit=True)
        self.feats = {}
        self.objs = {(): self.builder.source(al['start'][0])}
        self.others = [self.builder.source(o) for o in al['others']]
        self.setothers = [self.builder.source(o) for o in al['setothers']]

    def feat(self, idx):
        """Pool feature idx as a real object; ill-kinded ones raise the DSL's error when they are built, i.e. inside
        the builder call that uses them."""
        if idx not in self.feats:
            try:
                self.feats[idx] = (self.builder.feature(self.al['pool'][idx - 1]), None)
            except Exception as exc:  # pylint: disable=broad-except
                self.feats[idx] = (None, exc)
        obj, exc = self.feats[idx]
        if exc is not None:
            raise exc
        return obj

    def call(self, obj, c):
        m, a, b, k = c['m'], c['a'], c['b'], c['k']
        al = self.al
        if m == 'select':
            return obj.select(*[self.feat(i) for i in al['sels'][a - 1]])
        if m == 'where':
            return obj.where(self.feat(a))
        if m == 'having':
            return obj.having(self.feat(a))
        if m == 'groupby':
            return obj.groupby(*[self.feat(i) for i in al['groups'][a - 1]])
        if m == 'orderby':
            # the documented spellings of an ordering term are equivalent: (feature, direction) pairs, ready-made
            # dsl.Ordering instances, feature and direction as consecutive arguments - rotated call by call
            self.spelling = getattr(self, 'spelling', 0) + 1
            terms = []
            for o in al['orders'][a - 1]:
                feature = self.feat(o['x'])
                if not isinstance(feature, self.dsl.Feature):
                    feature = self.dsl.Literal(feature)  # ordering terms are documented to take features, not constants
                if self.spelling % 3 == 0:
                    terms.append((feature, o['dir']))
                elif self.spelling % 3 == 1:
                    terms.append(self.dsl.Ordering(feature, o['dir']))
                else:
                    terms.extend([feature, o['dir']])
            return obj.orderby(*terms)
        if m == 'limit':
            return obj.limit(*al['limits'][a - 1])
        if m == 'join':
            other = self.others[a - 1]
            cond = self.feat(b) if b else None
            if k == 'cross':
                if cond is None:
                    return obj.cross_join(other)
                return self.dsl.Join(obj, other, self.dsl.Join.Kind.CROSS, cond)
            return getattr(obj, f'{k}_join')(other, cond)
        if m == 'set':
            return getattr(obj, k)(self.setothers[a - 1])
        if m == 'reference':
            return obj.reference(k)
        raise ValueError(m)

    def state(self, hist):
        hist = tuple(hist)
        if hist not in self.objs:
            self.objs[hist] = self.call(self.state(hist[:-1]), self.al['calls'][hist[-1] - 1])
        return self.objs[hist]


_REAL = None


def _init_worker(al):
    global _REAL
    import logging
    logging.disable(logging.INFO)
    _REAL = Real(al)
    _EXPANDED.clear()


def _replay_lines(lines):
    """Replay a chunk of TLC export lines on the real DSL.  Returns (stats, failures, samples)."""
    real = _REAL
    al = real.al
    grammar = real.dsl.GrammarError
    stats = collections.Counter()
    fails = []
    samples = []
    kept = collections.Counter()

    def fail(what, rep, node, kind, asis=True):
        finding = classify(node, kind, asis)
        kept[finding] += 1
        fails.append((what, rep if kept[finding] <= 3 else None, finding))

    for e in lines:
        key = e['k']
        ast = expand(key, al)
        acanon = g.canon(ast)
        if e['ast'] and e['ast'] != digest(acanon):
            fails.append(('MACHINERY expand mirror differs from Statements.tla Expand', {'key': key}, '!'))
            continue
        base = {'kind': 'transition', 'alphabet': al['name'], 'hist': e['h']}
        try:
            obj = real.state(e['h'])
        except Exception as exc:  # pylint: disable=broad-except
            stats['unreachable_witness'] += 1  # already reported as a refused ok-transition of the parent statement
            continue
        # the statement itself: identity and schema
        stats['states'] += 1
        got = g.project(obj)
        if g.canon(got) != acanon:
            fail(f'statement built by calls {e["h"]} is not the statement the builder rules give',
                 dict(base, expected=ast, observed=got), ast, 'verdict')
            continue
        unnamed = has_unnamed_output(ast)
        schema, sres = read_schema(obj, unnamed)
        if sres != 'ok' or not schema_matches(e['sch'], schema):
            fail(f'.schema of {obj!r} is {schema if sres == "ok" else sres}, expected {_fmt(e["sch"])}',
                 dict(base, call=None, expected_schema=e['sch'], observed_schema=schema if sres == 'ok' else sres), ast,
                 'schema_mismatch' if sres == 'ok' else 'schema_raised', sres == 'ok' and schema_matches(e['asis'], schema))
        else:
            stats['schemas'] += 1
        # every call of the alphabet
        for ci, exp in enumerate(e['v'], start=1):
            if exp == -1:
                continue
            c = al['calls'][ci - 1]
            stats['transitions'] += 1
            try:
                with shallow_stack(unnamed):
                    succ = real.call(obj, c)
                res = 'ok'
            except grammar:
                succ, res = None, 'grammar'
            except BaseException as exc:  # pylint: disable=broad-except
                succ, res = None, 'error:' + type(exc).__name__
            if isinstance(exp, dict):
                exp = exp['b']
                cand_ast = _candidate(key, c, al)
                stats['rejected:' + '+'.join(sorted(exp))] += 1
                if res != 'grammar':
                    fail(f'{c["m"]} call {ci} on {obj!r} breaks {exp} but ' +
                         ('was accepted' if res == 'ok' else f'raised {res[6:]} instead of GrammarError'),
                         dict(base, call=ci, expected='GrammarError', rules=exp, observed=res), cand_ast,
                         'raised' if res != 'ok' else 'set_verdict' if c['m'] == 'set' else 'verdict')
                continue
            nxt = next_key(key, exp)
            ndigest = _expanded(nxt, al)
            stats['accepted:' + c['m']] += 1
            if res != 'ok':
                fail(f'{c["m"]} call {ci} on {obj!r} conforms to the grammar but raised ' +
                     ('GrammarError' if res == 'grammar' else res[6:]),
                     dict(base, call=ci, expected='ok', observed=res), expand(nxt, al),
                     'raised' if res != 'grammar' else 'set_verdict' if c['m'] == 'set' else 'verdict')
                continue
            got = g.project(succ)
            if digest(g.canon(got)) != ndigest:
                fail(f'{c["m"]} call {ci} on {obj!r} returned {succ!r}, not the statement the documented update gives',
                     dict(base, call=ci, expected=expand(nxt, al), observed=got), expand(nxt, al), 'verdict')
                continue
            if len(samples) < 2 and len(e['h']) >= 2:
                samples.append({'calls': [al['calls'][i - 1] for i in e['h']] + [c], 'statement': repr(succ)})
    return stats, fails, samples


_EXPANDED = {}


def digest(text):
    """Short stand-in for a canonical AST text (the texts are kilobytes, hundreds of thousands of them are compared)."""
    return hashlib.blake2b(text.encode(), digest_size=16).hexdigest()


def _expanded(key, al):
    """Digest of the canonical text of the statement a key stands for (memoised per worker)."""
    text = json.dumps(key)
    if text not in _EXPANDED:
        _EXPANDED[text] = digest(g.canon(expand(key, al)))
    return _EXPANDED[text]


def _candidate(key, c, al):
    """AST of the candidate a rejected call would have produced (only to evaluate the finding input classes)."""
    try:
        n = list(key) if key[0] == 'query' else ['query', 0, '', key, 0, 0, [], 0, [], 0, 0]
        m = c['m']
        if m == 'select':
            n[5] = c['a']
        elif m == 'where':
            n[6] = [c['a']] + n[6]
        elif m == 'groupby':
            n[7] = c['a']
        elif m == 'having':
            n[8] = [c['a']] + n[8]
        elif m == 'orderby':
            n[9] = c['a']
        elif m == 'limit':
            n[10] = c['a']
        elif m == 'join':
            n = ['join', c['a'], c['k'], key, c['b'], 0, [], 0, [], 0, 0]
        elif m == 'set':
            n = ['set', c['a'], c['k'], key, 0, 0, [], 0, [], 0, 0]
        else:
            n = ['ref', 0, c['k'], key, 0, 0, [], 0, [], 0, 0]
        return expand(n, al)
    except Exception:  # pylint: disable=broad-except
        return expand(key, al)


def _fmt(schema):
    return [(s['name'] or '?', s['kind']) for s in schema]


# --------------------------------------------------------------------------------------------- spec -> code
def explore(chk, name, depth, ast_depth, workers, procs):
    al = alphabet(name)
    tmp = os.getcwd()
    apath = common.write_json(al, f'alphabet-{name}.json')
    cfg = os.path.join(tmp, f'statements-{name}.cfg')
    with open(cfg, 'w') as fh:
        fh.write(f'SPECIFICATION Spec\nCONSTANTS Depth = {depth}\n AstDepth = {ast_depth}\nVIEW View\nCONSTRAINT Bound\n'
                 'INVARIANT StateWellFormed\nINVARIANT SchemaDefined\nINVARIANT SizeIsShortest\n'
                 'PROPERTY RejectedUnchanged\nCHECK_DEADLOCK FALSE\n')
    t0 = time.time()
    res = chk.tlc('Statements', cfg, workers=workers, env={'ALPHABET_FILE': apath}, timeout=3000)
    t1 = time.time()
    lines = res.json_prints()
    # the harness does not parse the coverage line of a LET-wrapped action ("<Next line .. of module Statements (..)>: d:g")
    m = re.search(r'^<Next line [^>]*>: (\d+):(\d+)', res.stdout, re.M)
    if not m or int(m.group(2)) == 0:
        raise tlc.MachineryError(f'Statements[{name}]: action Next never taken')
    d0, g0 = chk.coverage.get('Statements.Next', (0, 0))
    chk.coverage['Statements.Next'] = (d0 + int(m.group(1)), g0 + int(m.group(2)))
    res.stdout = ''
    res.printed = []
    if len(lines) != res.distinct:
        raise tlc.MachineryError(f'Statements[{name}]: {len(lines)} exported statements for {res.distinct} distinct states')
    # vacuity guard (the harness cannot parse the coverage line of a LET-wrapped Next): every method of the alphabet
    # must have been both accepted and rejected somewhere, every documented rule must have rejected something
    seen = collections.Counter()
    for e in lines:
        for ci, exp in enumerate(e['v'], start=1):
            if exp == -1:
                continue
            m = al['calls'][ci - 1]['m']
            if isinstance(exp, dict):
                seen[m, 'rejected'] += 1
                for r in exp['b']:
                    seen['rule', r] += 1
            else:
                seen[m, 'ok'] += 1
    methods = sorted({c['m'] for c in al['calls']})
    missing = [(m, o) for m in methods for o in ('ok', 'rejected') if not seen[m, o] and (m, o) != ('reference', 'rejected')
               and (m, o) != ('limit', 'rejected')]
    missing += [('rule', r) for r in ('subset', 'boolean', 'aggregate', 'grouping', 'kinds', 'set_schema', 'join_condition')
                if not seen['rule', r]]
    if missing:
        raise tlc.MachineryError(f'Statements[{name}] vacuous: never exercised {missing}')
    for e in lines:  # keep only a digest of the statement text TLC printed (memory)
        e['ast'] = digest(g.canon(e['ast'])) if e['ast'].get('t') != 'nil' else ''
    rnd = random.Random(chk.seed)
    rnd.shuffle(lines)
    chunks = [lines[i::procs * 8] for i in range(procs * 8)]
    chunks = [c for c in chunks if c]
    # (an executor, not multiprocessing.Pool: a worker that dies must fail the run instead of hanging it)
    with concurrent.futures.ProcessPoolExecutor(procs, mp_context=multiprocessing.get_context('fork'),
                                                initializer=_init_worker, initargs=(al,)) as pool:
        results = list(pool.map(_replay_lines, chunks))
    stats = collections.Counter()
    for st, fails, samples in results:
        stats.update(st)
        for what, rep, finding in fails:
            if finding == '!':
                raise tlc.MachineryError(f'{what}: {rep}')
            chk.fail(what, rep, finding)
        for s in samples[:1]:
            chk.sample(s)
    if stats['states'] + stats['unreachable_witness'] != len(lines):
        raise tlc.MachineryError(f'replayed {stats["states"]} of {len(lines)} statements')
    chk.validated(stats['transitions'])
    chk.extra.setdefault('statements_explored', {})[name] = {
        'tlc_s': round(t1 - t0, 1), 'replay_s': round(time.time() - t1, 1), 'depth': depth, 'features': len(al['pool']), 'calls': len(al['calls']), 'statements': len(lines),
        'transitions_replayed': stats['transitions'], 'schemas_agreeing': stats['schemas'],
        'accepted_by_method': {k[9:]: v for k, v in sorted(stats.items()) if k.startswith('accepted:')},
        'rejected_by_rules': {k[9:]: v for k, v in sorted(stats.items()) if k.startswith('rejected:')}}
    return al, lines


# --------------------------------------------------------------------------------------------- code -> spec
def _observe(stmts):
    """Worker: each conforming statement and each single-rule violation of it at each position, built on the real DSL."""
    import logging
    logging.disable(logging.INFO)
    from forml.io import dsl
    out = []
    for stmt in stmts:
        for label, node in itertools.chain([('conforming', stmt)], ((r, m) for r, _, m in g.violations(stmt))):
            try:
                obj = g.build(node)
                res = 'ok'
            except dsl.GrammarError:
                obj, res = None, 'grammar'
            except BaseException as exc:  # pylint: disable=broad-except
                obj, res = None, 'error:' + type(exc).__name__
            schema, sres, back = [], '', True
            if obj is not None:
                back = g.canon(g.project(obj)) == g.canon(node)
                schema, sres = read_schema(obj, has_unnamed_output(node))
            out.append((label, node, {'res': res, 'schema': schema, 'schema_res': sres, 'roundtrip': back}))
    return out


def trace_validate(chk, stmts, procs, label):
    """Build every generator statement and its violations on the real DSL; TraceStatements.tla judges each observation."""
    t0 = time.time()
    chunks = [stmts[i:i + 25] for i in range(0, len(stmts), 25)]
    with concurrent.futures.ProcessPoolExecutor(procs, mp_context=multiprocessing.get_context('fork')) as pool:
        produced = list(itertools.chain.from_iterable(pool.map(_observe, chunks)))
    seen, items, observed = set(), [], []
    for lab, node, o in produced:
        key = g.canon(node)
        if key not in seen:
            seen.add(key)
            items.append((lab, node))
            observed.append(o)
    nodes = [a for _, a in items]
    obs = [dict(o, ast=a) for o, a in zip(observed, nodes)]
    t1 = time.time()
    # binding self-test: flip one verdict and corrupt one schema; both must be rejected
    ok_idx = next(i for i, o in enumerate(obs) if o['res'] == 'ok' and o['schema_res'] == 'ok' and len(o['schema']) > 1)
    bad_idx = next(i for i, o in enumerate(obs) if o['res'] == 'grammar')
    obs.append(dict(obs[ok_idx], res='grammar'))
    obs.append(dict(obs[bad_idx], res='ok', schema=[], schema_res='ok'))
    obs.append(dict(obs[ok_idx], schema=obs[ok_idx]['schema'][::-1]))
    # several single-worker TLC runs side by side (registers need -workers 1), at most CHUNK observations per run
    nparts = max(procs, -(-len(obs) // CHUNK))
    parts = [obs[i::nparts] for i in range(nparts)]
    index = [list(range(len(obs)))[i::nparts] for i in range(nparts)]

    def run(p):
        path = common.write_json({'obs': parts[p]}, f'c07-{label}-{p}.json')
        try:
            return tlc.run('TraceStatements', 'TraceStatements.cfg', workers=1, env={'TRACE_FILE': path},
                           coverage=False, timeout=3000, heap='2g')
        finally:
            os.remove(path)

    with concurrent.futures.ThreadPoolExecutor(max_workers=procs) as pool:
        results = list(pool.map(run, [p for p in range(nparts)]))
    t2 = time.time()
    verdicts = {}
    for p in range(nparts):
        if not parts[p]:
            continue
        orig, tlc.run = tlc.run, (lambda *a, _r=results[p], **k: _r)
        try:
            chk.tlc('TraceStatements', 'TraceStatements.cfg')  # accounting of the finished run
        finally:
            tlc.run = orig
        for v in results[p].tuples('VERDICT'):
            verdicts[index[p][v[0] - 1]] = v[1:]
    if len(verdicts) != len(obs):
        raise tlc.MachineryError(f'TraceStatements: {len(verdicts)} verdicts for {len(obs)} observations')
    n = len(nodes)
    chk.selftest('flipped_verdict_rejected', verdicts[n][1] == 0)
    chk.selftest('accepted_violation_rejected', verdicts[n + 1][1] == 0)
    chk.selftest('reordered_schema_rejected', verdicts[n + 2][2] == 0)
    by_rule = collections.Counter()
    singles = 0
    for i, ((label_, node), o) in enumerate(zip(items, obs)):
        wf, verdict_ok, schema_ok, broken, asis = verdicts[i]
        by_rule['+'.join(sorted(broken)) or 'conforming'] += 1
        singles += len(broken) == 1
        if not o['roundtrip']:
            chk.fail('statement read back from the built object differs from the statement that was built',
                     {'kind': 'statement', 'ast': node}, None)
        elif not verdict_ok:
            what = (f'statement breaking {broken} was ' + ('accepted' if o['res'] == 'ok' else f'answered {o["res"]}')
                    if broken else f'conforming statement raised {o["res"]}')
            chk.fail(f'{what}: {_show(node)}', {'kind': 'statement', 'ast': node, 'observed': o['res'], 'broken': broken},
                     classify(node, 'raised' if o['res'].startswith('error') else
                              'set_verdict' if any(n.get('t') == 'set' for _, n in g.walk(node)) else 'verdict'))
        elif not schema_ok:
            chk.fail(f'.schema {o["schema"] if o["schema_res"] == "ok" else o["schema_res"]} does not list the outputs of '
                     f'{_show(node)}', {'kind': 'statement', 'ast': node, 'observed_schema': o['schema'],
                                        'schema_res': o['schema_res']},
                     classify(node, 'schema_mismatch' if o['schema_res'] == 'ok' else 'schema_raised', bool(asis)))
        else:
            chk.validated()
            if label_ != 'conforming' and i % 997 == 0:
                chk.sample({'violated': label_, 'statement_raises': 'GrammarError', 'broken_rules_by_TLC': broken})
    chk.extra.setdefault('generator_observations', {})[label] = {
        'build_s': round(t1 - t0, 1), 'tlc_s': round(t2 - t1, 1), 'observations': n, 'by_broken_rules': dict(sorted(by_rule.items())), 'single_rule_violations': singles}


def _show(node):
    try:
        return repr(g.build(node))
    except BaseException:  # pylint: disable=broad-except
        return g.canon(node)[:200]


def generator_statements(chk, rnd):
    """Conforming generator statements (their single-rule violations are derived in the workers)."""
    if chk.quick:
        stmts = g.statements(2, False)
        stmts = stmts[::5] + g.statements(1, False)[1::7][:150] + [g.random_statement(rnd, 3) for _ in range(40)]
    else:
        stmts = g.statements(2, False)[::2] + rnd.sample(g.statements(2, True), 1000)
        stmts += [g.random_statement(rnd, 3) for _ in range(150)] + [g.random_statement(rnd, 4) for _ in range(50)]
    return stmts


# --------------------------------------------------------------------------------------------- entry points
def kind_matrix(chk):
    """KindMatrix.tla replayed on the real DSL: every ordered pair of kinds (primitive, temporal, compound) as operands of a
    comparison and of an arithmetic expression, in where / select position."""
    from forml.io import dsl
    res = chk.tlc('KindMatrix', 'KindMatrix.cfg', workers=1, coverage=False)
    recs = res.json_prints()
    if len(recs) < 100:
        raise tlc.MachineryError(f'KindMatrix.tla exported {len(recs)} pairs')

    def kind(term):
        args = [kind(a) for a in term['args']]
        return {'boolean': dsl.Boolean, 'integer': dsl.Integer, 'float': dsl.Float, 'decimal': dsl.Decimal, 'string': dsl.String,
                'date': dsl.Date, 'timestamp': dsl.Timestamp, 'array': dsl.Array, 'map': dsl.Map}[term['k']](*args)

    ok = 0
    for n, rec in enumerate(recs):
        schema = dsl.Schema.from_fields(dsl.Field(kind(rec['a']), name='a'), dsl.Field(kind(rec['b']), name='b'))
        table = dsl.Table(schema)
        for what, build, want in (('comparison', lambda t: t.where(t.a == t.b), rec['cmp']),
                                  ('ordering comparison', lambda t: t.select(t.a).where(t.a < t.b), rec['cmp']),
                                  ('arithmetic', lambda t: t.select((t.a + t.b).alias('c')), rec['ari'])):
            try:
                build(table)
                got = True
            except dsl.GrammarError:
                got = False
            except Exception as exc:  # pylint: disable=broad-except
                got = f'{type(exc).__name__}'
            if got != want:
                chk.fail(f'C07 {what} of operands of kinds {rec["a"]} and {rec["b"]}: constructible={got}, the grammar says {want}',
                         {'kind': 'kindmatrix', 'a': rec['a'], 'b': rec['b'], 'what': what})
            else:
                ok += 1
    chk.validated(ok)
    chk.extra['kind_matrix'] = {'ordered_pairs': len(recs), 'conforming_constructions': ok}


def main(chk):
    import logging
    logging.disable(logging.INFO)
    rnd = random.Random(chk.seed)
    procs = PROCS
    kind_matrix(chk)
    if chk.quick:
        explore(chk, 'wide', 2, 2, procs, procs)
        explore(chk, 'core', 4, 4, procs, procs)
    else:
        explore(chk, 'wide', 3, 3, procs, procs)
        # depth 5 over the core alphabet (13 228 statements in TLC) is out of reach of the replay: hashing a forml source
        # is exponential in its nesting depth, statements nested five levels take tens of milliseconds per call
        explore(chk, 'core', 4, 4, procs, procs)
    trace_validate(chk, generator_statements(chk, rnd), procs, 'gen')
    # binding self-test of the replay comparison itself: a flipped expected outcome is noticed
    al = alphabet('core')
    _init_worker(al)
    line = {'h': [], 'k': ['start', 1, '', [], 0, 0, [], 0, [], 0, 0], 'ast': '',
            'sch': [{'name': n, 'kind': k} for n, k in g.CATALOG['A']],
            'asis': [{'name': n, 'kind': k} for n, k in g.CATALOG['A']], 'v': [-1] * len(al['calls'])}
    bad = dict(line, v=[{'b': ['subset']}] + line['v'][1:])          # select(A.i) on A is fine: expecting a refusal must fail
    bad2 = dict(line, sch=line['sch'][::-1])
    chk.selftest('replay_notices_flipped_outcome', len(_replay_lines([bad])[1]) == 1 and not _replay_lines([line])[1])
    chk.selftest('replay_notices_wrong_schema', len(_replay_lines([bad2])[1]) == 1)
    chk.assume('BNF typing is taken as given by the generator (join operands are origins, queries are built over origins, '
               'limit counts are naturals, aliases appear in selections only, no reference of a reference): the property '
               'lists no rule for these')
    chk.assume('output features without alias have no documented name: only their kind and position are compared')
    chk.assume('window functions are not generated (documented as unsupported by the parsers)')


def replay(chk, path):
    with open(path) as fh:
        rep = json.load(fh)['replay']
    import logging
    logging.disable(logging.INFO)
    from forml.io import dsl
    if rep['kind'] == 'transition':
        al = alphabet(rep['alphabet'])
        real = Real(al)
        obj = real.state(rep['hist'])
        print('statement:', repr(obj))
        if rep.get('call') is None:
            print('schema now:', read_schema(obj), 'expected', rep.get('expected_schema'))
            return 1 if read_schema(obj)[1] != 'ok' or not schema_matches(rep['expected_schema'], read_schema(obj)[0]) else 0
        c = al['calls'][rep['call'] - 1]
        try:
            succ = real.call(obj, c)
            res = 'ok'
            print('call', c, '->', repr(succ))
        except dsl.GrammarError as exc:
            res = 'grammar'
            print('call', c, 'raised GrammarError:', exc)
        except BaseException as exc:  # pylint: disable=broad-except
            res = 'error:' + type(exc).__name__
            print('call', c, 'raised', type(exc).__name__)
        print('expected:', rep.get('expected') if isinstance(rep.get('expected'), str) else 'ok + the documented statement')
        if rep.get('expected') == 'GrammarError':
            return 0 if res == 'grammar' else 1
        return 0 if res == 'ok' and g.canon(g.project(succ)) == g.canon(rep['expected']) else 1
    node = rep['ast']
    try:
        obj = g.build(node)
        print('built:', repr(obj), 'schema:', read_schema(obj))
        return 1
    except dsl.GrammarError as exc:
        print('GrammarError:', exc)
        return 1 if not rep.get('broken') else 0
    except BaseException as exc:  # pylint: disable=broad-except
        print('raised', type(exc).__name__)
        return 1
