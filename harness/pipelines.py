"""Concretisation of the expression ASTs of specs/Composition.tla on the real operator library and execution of the
closed pipeline Source >> e >> Probe (train mode, then apply mode with the states of that training).

Actor labels follow the positional numbering of the specification: the operator at position x uses label x, its i-th
child 10x+i, helper actors 10x+5..9; sources 901..903, probe 990.
"""
import json

from harness import graphs, refinterp, symbolic

PROBE = 990


class SymDump(symbolic.Stateful):
    """Symbolic stand-in for a payload.Dumpable actor (needs a `path` parameter)."""

    def __init__(self, label, szout=1, path=None, **params):
        super().__init__(label, szout, **params)
        self._path = path

    def get_params(self):
        return {**super().get_params(), 'path': self._path}

    def set_params(self, **params):
        self._path = params.pop('path', self._path)
        super().set_params(**params)


def sym_function(label):
    """Uninterpreted python callable for payload.Apply based actors (metrics, reducers)."""
    def function(*xs):
        return symbolic.term('app', label, symbolic.par({}), symbolic.NIL, *xs)
    function.__name__ = f'f{label}'
    return function


def source_operator():
    from forml import flow

    class Source(flow.Operator):
        """Same shape as the feed extract operator: an apply reader, a train reader followed by a 1:2 slicer whose
        outputs are the train features and the labels (so the label path is reachable from the train head)."""

        def compose(self, scope):
            apply = flow.Segment(flow.Worker(symbolic.Source.builder('901'), 0, 1))
            train = flow.Segment(flow.Worker(symbolic.Source.builder('902'), 0, 1))
            train_tail, label_tail = flow.Future(), flow.Future()
            extract = flow.Worker(symbolic.Stateless.builder('904', 2), 1, 2)
            extract[0].subscribe(train.publisher)
            train_tail[0].subscribe(extract[0])
            label_tail[0].subscribe(extract[1])
            train = train.extend(tail=train_tail)
            label = train.extend(tail=label_tail)
            return flow.Trunk(apply, train, label)

    return Source()


def twice_operator(x):
    """Operator written against the public composition API that expands its scope twice."""
    from forml import flow

    class Twice(flow.Operator):
        def compose(self, scope):
            head = flow.Trunk()
            first, second = scope.expand(), scope.expand()
            join = flow.Worker(symbolic.Stateless.builder(str(10 * x + 9)), 2, 1)
            for idx, trunk in enumerate((first, second)):
                trunk.train.subscribe(head.train)
                trunk.label.subscribe(head.label)
                join[idx].subscribe(trunk.train.publisher)
            first.apply.subscribe(head.apply)
            return flow.Trunk(head.apply.extend(tail=first.apply.publisher._node if False else None) if False else
                              flow.Segment(head.apply._head if False else _head(head.apply), _tail(first.apply)),
                              flow.Segment(_head(head.train), join), flow.Segment(_head(head.label), _tail(first.label)))

    return Twice()


def custom_operator(builder):
    """A mapper operator written by hand against the public composition API - the documented pattern: the operator keeps
    ONE builder object and creates a new worker group from it on every composition."""
    from forml import flow

    class Plain(flow.Operator):
        def compose(self, scope):
            left = scope.expand()
            apply = flow.Worker(builder, 1, 1)
            train_apply = apply.fork()
            apply.fork().train(left.train.publisher, left.label.publisher)
            return left.extend(apply, train_apply)

    return Plain()


def chain_operator(first, second, stateful):
    """A hand-written operator chaining two workers that hands over only the HEAD nodes of its apply and train paths
    (`left.extend(apply_head, train_head)`, the documented recipe): the tails are traced by the segment."""
    from forml import flow

    class Chain(flow.Operator):
        def compose(self, scope):
            left = scope.expand()
            apply1, apply2 = flow.Worker(first, 1, 1), flow.Worker(second, 1, 1)
            apply2[0].subscribe(apply1[0])
            train1, train2 = apply1.fork(), apply2.fork()
            train2[0].subscribe(train1[0])
            if stateful:
                apply1.fork().train(left.train.publisher, left.label.publisher)
                apply2.fork().train(train1[0], left.label.publisher)
            return left.extend(apply1, train1)

    return Chain()


def _head(segment):
    return segment[0]


def _tail(segment):
    return segment[1]


STATEFUL = None     # lifecycle checks: the stateful actor class to use and the hyper-parameters of the 'current code'
HYPER = {}


def make(e, x=1, tmp=None):
    """AST -> real composable."""
    from forml.pipeline import ensemble, payload, wrap
    op = e['op']
    cls = (STATEFUL or symbolic.Stateful) if e['sf'] else symbolic.Stateless
    if op == 'seq':
        return make(e['kids'][0], 10 * x + 1, tmp) >> make(e['kids'][1], 10 * x + 2, tmp)
    if op in ('mapper', 'apply', 'train', 'label'):
        return getattr(wrap.Operator, op)(cls)(str(x), **HYPER)
    if op == 'custom':
        return custom_operator(cls.builder(str(x), **HYPER))
    if op == 'chain':
        return chain_operator(cls.builder(str(10 * x + 1)), cls.builder(str(10 * x + 2)), e['sf'])
    if op in ('lmapper', 'lapply', 'ltrain'):
        label_cls = symbolic.Stateful if e['k'] == 1 else symbolic.Stateless
        combined = getattr(wrap.Operator.label(label_cls, label=str(10 * x + 1)), op[1:])(cls, label=str(x))
        return combined()
    if op == 'dump':
        return payload.Dump(apply=SymDump.builder(str(x), path=f'{tmp}/dump-{x}-$mode-$seq'))
    if op == 'mapreduce':
        mappers = [(symbolic.Stateful if k['sf'] else symbolic.Stateless).builder(str(10 * x + i)) for i, k in enumerate(e['kids'], start=1)]
        return payload.MapReduce(*mappers, reducer=symbolic.Stateless.builder(str(10 * x + 9)))
    if op == 'twice':
        return twice_operator(x)
    if op == 'stack':
        bases = [make(b, 10 * x + j, tmp) for j, b in enumerate(e['kids'], start=1)]
        return ensemble.FullStack(*bases, splitter=symbolic.Stateful.builder(str(10 * x + 5), 2 * e['k']), nsplits=e['k'],
                                  stacker=symbolic.Stateless.builder(str(10 * x + 6)),
                                  appender=symbolic.Stateless.builder(str(10 * x + 7)),
                                  reducer=symbolic.Stateless.builder(str(10 * x + 8)))
    if op in ('crossval', 'holdout'):
        from forml import evaluation
        splitter = symbolic.Stateful.builder(str(10 * x + 5), 2 * (1 if op == 'holdout' else e['k']))
        method = evaluation.HoldOut(splitter=splitter) if op == 'holdout' else evaluation.CrossVal(splitter=splitter, nsplits=e['k'])
        metric = evaluation.Function(sym_function(10 * x + 6), reducer=sym_function(10 * x + 7))
        return evaluation.TrainTestScore(metric, method)
    raise ValueError(op)


class FreshGeneration(graphs.FakeGeneration):
    """No previous generation: nothing to load (as asset.Generation.get on an untrained release)."""

    def get(self, offset):
        self.loads.append(offset + 1)
        return b''


class ReplayGeneration(graphs.FakeGeneration):
    """A committed generation: returns the committed state bytes by position."""

    def __init__(self, states):
        super().__init__()
        self._states = list(states)

    def get(self, offset):
        self.loads.append(offset + 1)
        return self._states[offset]


def find(values, ident):
    """The unique functor value whose root is the application of actor `ident`."""
    from forml import flow
    found = [graphs.norm(v) for ins, v in values.items() if isinstance(ins, flow.Functor) and _root(v) == str(ident) and _tag(v) == 'app']
    return found


def _root(v):
    if isinstance(v, (tuple, list)):
        v = v[0]['args'][0]
    if isinstance(v, (bytes, bytearray)):
        v = json.loads(v.decode()) if v else symbolic.NIL
    return v.get('label')


def _tag(v):
    if isinstance(v, (tuple, list)):
        v = v[0]['args'][0]
    if isinstance(v, (bytes, bytearray)):
        return 'st'
    return v.get('tag')


def run_closed(e, tmp, probe=True, target=PROBE):
    """Train the closed pipeline, then apply it with the committed states. Returns (train value, apply value, extras)."""
    from forml import flow
    from forml.io import asset
    from forml.pipeline import wrap
    graphs.reset_ports()
    blocks = [source_operator(), make(e, 1, tmp)]
    if probe:
        blocks.append(wrap.Operator.mapper(symbolic.Stateful)(str(PROBE)))
    composition = flow.Composition(*blocks)
    persistent = composition.persistent
    gen = FreshGeneration()
    assets = asset.State(gen, persistent, asset.Tag()) if persistent else None
    symbols = flow.compile(composition.train, assets)
    values = refinterp.run(symbols)
    train = find(values, target)
    states = [gen.dumped[s] for s in gen.commits[0]] if gen.commits else []
    apply = None
    if probe:
        gen2 = ReplayGeneration(states)
        assets2 = asset.State(gen2, persistent) if persistent else None
        values2 = refinterp.run(flow.compile(composition.apply, assets2))
        apply = find(values2, target)
    raw = [v for ins, v in values.items() if isinstance(ins, flow.Functor) and _root(v) == str(target) and _tag(v) == 'app']
    return train, apply, {'persistent': len(persistent), 'commits': len(gen.commits), 'train_symbols': len(symbols), 'raw_train': raw,
                          'raw_states': states}
