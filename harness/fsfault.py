"""File-system event counting and crash injection without touching the repository.

* `sys.addaudithook`: every mutating file-system call under the watched root is an event; the k-th one can be turned
  into a crash (raising a BaseException from the hook aborts the call before it happens).
* `io.open` wrapper: a file opened for writing under the root can be made to crash at its first `write` (after the
  truncating open succeeded) - the crash *inside* a metadata write.
Audit hooks cannot be removed: the hook is installed once per process and switched by module-level state.
"""
import builtins
import io
import os
import sys

MUTATING = {'open', 'os.mkdir', 'os.rename', 'os.remove', 'os.rmdir', 'shutil.copytree', 'shutil.copyfile', 'os.symlink',
            'os.link', 'shutil.move', 'shutil.rmtree', 'os.truncate'}


class Crash(BaseException):
    """The process dies here."""


class State:
    root = None
    events = []
    crash_at = None      # 1-based index of the event to abort
    write_crash_at = None  # 1-based index of the write-open whose first write() dies
    write_opens = 0
    armed = False


def _is_write_mode(mode):
    return isinstance(mode, str) and any(c in mode for c in 'wax+')


def _hook(event, args):
    if not State.armed or State.root is None or event not in MUTATING:
        return
    paths = [str(a) for a in args[:2] if isinstance(a, (str, bytes, os.PathLike))]
    if not any(p.startswith(State.root) for p in paths):
        return
    if event == 'open':
        mode = args[1] if len(args) > 1 else None
        flags = args[2] if len(args) > 2 else 0
        writing = _is_write_mode(mode) if mode is not None else bool(flags & (os.O_WRONLY | os.O_RDWR | os.O_CREAT))
        if not writing:
            return
    State.events.append((event, *[p.replace(State.root, '') for p in paths]))
    if State.crash_at is not None and len(State.events) == State.crash_at:
        raise Crash()


class _CrashingFile:
    def __init__(self, real):
        self._real = real

    def write(self, data):
        self._real.close()
        raise Crash()

    def __enter__(self):
        return self

    def __exit__(self, *exc):
        self._real.close()
        return False

    def __getattr__(self, item):
        return getattr(self._real, item)


_REAL_OPEN = io.open


def _open(file, mode='r', *args, **kwargs):
    real = _REAL_OPEN(file, mode, *args, **kwargs)
    if State.armed and State.root and _is_write_mode(mode) and str(file).startswith(State.root):
        State.write_opens += 1
        if State.write_crash_at is not None and State.write_opens == State.write_crash_at:
            return _CrashingFile(real)
    return real


_INSTALLED = False


def install():
    global _INSTALLED
    if not _INSTALLED:
        sys.addaudithook(_hook)
        io.open = _open
        builtins.open = _open
        _INSTALLED = True


def arm(root, crash_at=None, write_crash_at=None):
    install()
    State.root = str(root)
    State.events = []
    State.crash_at = crash_at
    State.write_crash_at = write_crash_at
    State.write_opens = 0
    State.armed = True


def disarm():
    State.armed = False
    return list(State.events), State.write_opens
