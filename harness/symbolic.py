"""Symbolic (term-valued) actors: uninterpreted function symbols over JSON terms.

term = {"tag": "app"|"st"|"in"|"out"|"par"|"nil"|..., "label": str, "args": [term...]}  (one record shape per sort,
the same shape exists in the TLA+ specifications).  Everything here is importable and picklable, so the actors can
cross process boundaries (dask `processes`, serving workers).
"""
import json

from forml import flow


def term(tag, label='', *args):
    return {'tag': tag, 'label': str(label), 'args': list(args)}


NIL = term('nil')


def par(params):
    return term('par', json.dumps(params, sort_keys=True))


def nonces(value, label):
    """Nonces of all state terms of actor `label` inside a raw term."""
    found = set()

    def walk(t):
        if isinstance(t, (bytes, bytearray)):
            t = json.loads(t.decode()) if t else NIL
        if isinstance(t, (tuple, list)):
            for x in t:
                walk(x)
            return
        if not isinstance(t, dict):
            return
        if t.get('tag') == 'st' and t.get('label') == str(label) and len(t['args']) > 4:
            found.add(t['args'][4]['label'])
        for a in t.get('args', ()):
            walk(a)

    walk(value)
    return found


def canon(value):
    """Canonical hashable form of a term (or of tuples/lists of terms)."""
    return json.dumps(value, sort_keys=True)


class Hidden:
    """A label whose repr does not tell it apart from another one (like a lambda or any object with the default repr passed
    as an actor parameter): two functors that differ only in such a parameter look alike but are not the same task."""

    def __init__(self, value):
        self.value = value

    def __str__(self):
        return str(self.value)

    def __repr__(self):
        return 'Hidden()'


class Stateless(flow.Actor):
    """apply(*xs) = App(label; params, nil, xs...), split into `szout` Out terms when multi-output."""

    def __init__(self, label, szout=1, **params):
        self._label = label
        self._szout = szout
        self._params = dict(params)

    def _state(self):
        return NIL

    def apply(self, *xs):
        res = term('app', self._label, par(self._params), self._state(), *xs)
        if self._szout == 1:
            return res
        return tuple(term('out', i, res) for i in range(self._szout))

    def get_params(self):
        return {'label': self._label, 'szout': self._szout, **self._params}

    def set_params(self, **params):
        self._label = params.pop('label', self._label)
        self._szout = params.pop('szout', self._szout)
        self._params.update(params)


class Stateful(Stateless):
    """train(x, y): state := St(label; params, previous state, x, y) - incremental training is visible."""

    def __init__(self, label, szout=1, **params):
        super().__init__(label, szout, **params)
        self._model = NIL

    def _state(self):
        return self._model

    def train(self, features, labels, /):
        # the trailing nonce identifies this very training execution: two separately trained instances are
        # distinguishable even when they were trained on identical data (normalisation drops it)
        import os
        self._model = term('st', self._label, par(self._params), self._model, features, labels, term('nonce', os.urandom(6).hex()))

    def get_state(self):
        return json.dumps(self._model, sort_keys=True).encode()

    def set_state(self, state):
        if not state:
            return
        self._model = json.loads(state.decode())


class Whole(Stateful):
    """A stateful actor whose state is the whole object, hyper-parameters included (like an estimator pickled as its state):
    set_state brings back the hyper-parameters of the training run - the flow layer has to put the current ones back."""

    def get_state(self):
        return json.dumps({'whole': self._model, 'params': self._params}, sort_keys=True).encode()

    def set_state(self, state):
        if not state:
            return
        content = json.loads(state.decode())
        if 'whole' in content:
            self._model, self._params = content['whole'], dict(content['params'])
        else:
            self._model = content


class Touchy(Stateful):
    """A stateful actor on which being handed an EMPTY state is visible (it forgets): the instruction layer never hands an
    empty state to an actor - 'no state' means nothing is set - and every backend has to agree on that."""

    def set_state(self, state):
        if not state:
            self._model = term('reset')
            return
        super().set_state(state)


class Mute(Stateless):
    """An actor whose output is the payload None (a perfectly legal value on an edge: the flow layer is payload-agnostic)."""

    def apply(self, *xs):
        return None


class Source(Stateless):
    """Head of a table: ignores whatever the runner feeds it (pyfunc passes the request entry, dask nothing)."""

    def apply(self, *xs):
        return super().apply()


class Recorder(Stateless):
    """Sink: computes its application term like any stateless actor and appends it to the file `path` (one JSON
    line per execution, O_APPEND so that it works from any thread or process)."""

    def __init__(self, label, szout=1, path=None, **params):
        super().__init__(label, szout, **params)
        self._path = path

    def apply(self, *xs):
        import os
        res = super().apply(*xs)
        fd = os.open(self._path, os.O_WRONLY | os.O_APPEND | os.O_CREAT, 0o644)
        try:
            os.write(fd, (json.dumps(res, sort_keys=True) + '\n').encode())
        finally:
            os.close(fd)
        return res

    def get_params(self):
        return {**super().get_params(), 'path': self._path}

    def set_params(self, **params):
        self._path = params.pop('path', self._path)
        super().set_params(**params)


class Flaky(Stateless):
    """Stateless actor whose first application (per instance) fails with a transient error."""

    def __init__(self, label, szout=1, path=None, **params):
        super().__init__(label, szout, **params)
        self._path = path
        self._fired = False

    def apply(self, *xs):
        if not self._fired:
            self._fired = True
            raise OSError('transient fault')
        res = super().apply(*xs)
        if self._path:
            import os
            fd = os.open(self._path, os.O_WRONLY | os.O_APPEND | os.O_CREAT, 0o644)
            try:
                os.write(fd, (json.dumps(res, sort_keys=True) + '\n').encode())
            finally:
                os.close(fd)
        return res


class FlakyOnce(Stateless):
    """Stateless actor whose FIRST application in the whole run fails with an I/O error - whichever instance it is (the
    marker file remembers; a new instance built for a second attempt would succeed)."""

    def __init__(self, label, szout=1, marker=None, **params):
        super().__init__(label, szout, **params)
        self._marker = marker

    def apply(self, *xs):
        import os
        try:
            os.close(os.open(self._marker, os.O_WRONLY | os.O_CREAT | os.O_EXCL))
        except FileExistsError:
            with open(self._marker, 'a') as fh:        # every further application leaves a mark
                fh.write('x')
            return super().apply(*xs)
        raise OSError('transient fault')

    def get_params(self):
        return {**super().get_params(), 'marker': self._marker}

    def set_params(self, **params):
        self._marker = params.pop('marker', self._marker)
        super().set_params(**params)


class FlakySource(Flaky):
    def apply(self, *xs):
        return super().apply()


class EntrySource(Flaky):
    """Head that stamps the request entry (an int) into its value: App(label; App(1000 + entry))."""

    def __init__(self, label, szout=1, path=None, flaky=False, **params):
        super().__init__(label, szout, path, **params)
        self._fired = not flaky

    def apply(self, entry=None):
        return Flaky.apply(self, term('app', 1000 + int(entry or 0), par({}), NIL))
