"""Relational side of the DSL checks (C06 / C14): data, encodings, engines, statement generators, occurrence paths.

Everything here works on the ASTs of ``harness.dslgen`` (same JSON encoding, nothing forked).  The TLA+ twin is
``specs/RelAlg.tla`` (reference semantics ``Eval`` / ``Accepts``), which alone decides verdicts; this module only
(a) produces inputs, (b) runs the real parser / engines and (c) encodes what they returned.

Encoding of values for TLC (integers only): NULL = -9999, booleans 0/1, integral floats / decimals as integers,
strings as order preserving dictionary codes, a top-level ``avg`` output as the normalised pair [num, den].
``lits_for`` builds the literal dictionary ``Lits`` (repr text of the python literal -> integer).

Exclusions (inputs on which the property / the DSL documentation is silent; decided HERE, on the statement alone,
before anything is executed - never after looking at an outcome).  ``excluded(ast)`` returns the first reason:
  E1 division            ``div``: SQL integer vs true division, division by zero (engine specific, DSL silent)
  E2 modulus             ``mod`` unless the divisor is a positive integer literal (sign / zero handling)
  E3 avg                 ``avg`` anywhere but as a (possibly aliased) output of the top-level query: its value is a
                         rational, only representable as an output cell
  E4 non-integral float  a float literal that is not integral (no integer encoding; data holds integral floats only)
  E5 nullable order key  an ``orderby`` key that can be NULL (NULLS FIRST in SQLite, NULLS LAST in DuckDB, DSL silent)
  E6 nested window       a nested statement (referenced / set operand) with limit/offset whose ordering is not
                         total by construction (its row choice is then arbitrary and the outer result undetermined)
  E7 casts               casts other than between int and float (text / boolean renderings are engine specific)
  E8 ceil/floor          not available in every SQLite build; identity on the integral data anyway
  E9 bare aggregate mix  an aggregating query (groupby, or aggregates without it) using an element outside every
                         aggregate and grouping feature in select / having / orderby (engines disagree whether that is
                         legal and which row supplies the value; the DSL grammar does not forbid it)
  E10 nested order       an ordering on a nested statement without limit has no meaning; SQLite rejects it in
                         compound operands
  E11 colliding literal  literals -1 / -2 (CPython hash collision, property C08) unless asked for
  E14 constant order key an ``orderby`` key without any element or aggregate (an integer there is a column position in SQL,
                         a bound parameter is refused by DuckDB; it orders nothing anyway)
  E12 ambiguous handles  two origins with the same name among the origins of one query (a table joined with itself
                         without a reference, two references sharing a name, a reference named like a table): SQL has
                         no way to tell them apart, the DSL grammar is silent
Per engine (``engine_excluded``): E13 a set operation with a set operation as an operand is not run on SQLite (its
grammar has no parenthesised compound operands; DuckDB runs them).
"""
import fractions
import itertools
import random

from harness import dslgen as g

NULL = -9999
NONINT = 777001  # a value the semantics can never produce: non-integral number where an integer is denoted
NONSTR = 777002  # unknown string
STRINGS = ['a', 'b', 'c', 'zz']  # universe of strings in data and literals (sorted: codes are order preserving)
SQLTYPE = {'int': 'INTEGER', 'float': 'DOUBLE', 'str': 'VARCHAR', 'bool': 'BOOLEAN'}
UNIQUE = 'i'  # column that is never NULL in generated data (and unique in "keyed" databases)


# ------------------------------------------------------------------------------------------------ data
def make_db(rnd, keyed=True, empty=(), maxrows=4):
    """{table: [[python value | None ...] ...]} over the dslgen catalog.  Column ``i`` is never NULL; in a keyed
    database it is unique per table; otherwise whole rows are duplicated.  ``empty``: tables left without rows."""
    db = {}
    for name, cols in g.CATALOG.items():
        rows = []
        if name not in empty:
            n = rnd.randint(2, maxrows)
            ids = rnd.sample(range(0, 5), n) if keyed else [rnd.randint(0, 3) for _ in range(n)]
            for i in ids:
                row = []
                for cname, kind in cols:
                    if cname == UNIQUE:
                        row.append(i)
                    elif kind == 'int':
                        row.append(rnd.choice([0, 1, 2, 3, -3, None]))
                    elif kind == 'float':
                        row.append(rnd.choice([0.0, 1.0, 2.0, 3.0, None]))
                    elif kind == 'str':
                        row.append(rnd.choice(['a', 'b', 'c', None]))
                    else:
                        row.append(rnd.choice([True, False, None]))
                rows.append(row)
            if not keyed:
                rows += [list(r) for r in rows[:2]]  # exact duplicates
        db[name] = rows
    return db


def make_dbs(seed, n=3):
    """n seeded contents: #1 keyed, all tables filled (NULLs); #2 duplicates, B empty; #3 keyed, A and C empty; further
    ones alternate."""
    rnd = random.Random(seed)
    plans = [(True, ()), (False, ('B',)), (True, ('A', 'C'))]
    out = []
    for k in range(n):
        keyed, empty = plans[k] if k < len(plans) else (k % 2 == 0, (rnd.choice('ABC'),) if k % 3 == 0 else ())
        out.append({'keyed': keyed, 'data': make_db(rnd, keyed, empty)})
    return out


def str_code(text):
    return STRINGS.index(text) + 1 if text in STRINGS else NONSTR


def enc(value):
    """python cell -> integer of the TLA+ encoding."""
    import decimal
    if value is None:
        return NULL
    if isinstance(value, bool):
        return int(value)
    if isinstance(value, int):
        return value if abs(value) < 2 ** 30 else NONINT
    if isinstance(value, (float, decimal.Decimal)):
        return int(value) if value == int(value) and abs(value) < 2 ** 30 else NONINT
    if isinstance(value, str):
        return str_code(value)
    return NONINT


def enc_ratio(value):
    """python cell of an avg output -> [num, den] normalised."""
    if value is None:
        return [NULL, 1]
    frac = fractions.Fraction(value).limit_denominator(10 ** 6)
    return [frac.numerator, frac.denominator]


def enc_db(data):
    return {t: [[enc(v) for v in row] for row in rows] for t, rows in data.items()}


def literals(ast):
    return [n for _, n in g.walk(ast) if g.is_feature(n) and n['f'] == 'lit']


def lits_for(asts, extra=()):
    """Literal dictionary for TLC: repr text -> integer."""
    table = {}
    for node in itertools.chain.from_iterable(literals(a) for a in asts):
        table[node['v']] = enc(g.lit_value(node))
    for value in extra:
        table[repr(value)] = enc(value)
    table.setdefault('0', 0)  # never empty (an empty JSON object would not deserialize into a function)
    return table


# ------------------------------------------------------------------------------------------------ exclusions
def _sources(ast, top=True):
    """(source node, is top-level statement) for every source node of the SOURCE tree (not those inside col.src)."""
    yield ast, top
    t = ast['t']
    if t in ('ref', 'query'):
        yield from _sources(ast['l'], False)
    elif t in ('join', 'set'):
        yield from _sources(ast['l'], False)
        yield from _sources(ast['r'], False)


def _features_of(src):
    if src['t'] == 'query':
        feats = list(src['sel']) + list(src['group']) + [o['x'] for o in src['order']]
        feats += [f for f in (src['where'], src['having']) if f['f'] != 'nil']
        return feats
    if src['t'] == 'join' and src['on']['f'] != 'nil':
        return [src['on']]
    return []


def _nodes(feature):
    yield feature
    for a in feature['args']:
        yield from _nodes(a)


def _null_supplied(origin):
    """canon() of the table / reference nodes that sit on a NULL-supplying side of some outer join of the origin."""
    out = set()

    def leaves(o):
        if o['t'] in ('table', 'ref'):
            return [g.canon(o)]
        return leaves(o['l']) + leaves(o['r'])

    def walk(o):
        if o['t'] != 'join':
            return
        if o['kind'] in ('left', 'full'):
            out.update(leaves(o['r']))
        if o['kind'] in ('right', 'full'):
            out.update(leaves(o['l']))
        walk(o['l'])
        walk(o['r'])

    walk(origin)
    return out


def nullable(feature, origin, grouped=False):
    """Conservative static nullability of a feature evaluated over the rows of ``origin``."""
    f = feature['f']
    if f == 'lit':
        return False
    if f == 'alias':
        return nullable(feature['args'][0], origin, grouped)
    if f == 'col':
        src = feature['src']
        base = src['l'] if src['t'] == 'ref' else src
        if feature['name'] != UNIQUE or base['t'] != 'table':
            return True
        return g.canon(src) in _null_supplied(origin)
    if f == 'agg':
        return feature['op'] != 'count'
    if feature['op'] in g.NULLTEST:
        return False
    return any(nullable(a, origin, grouped) for a in feature['args'])


def total_order(query):
    """The ordering of this query is total by construction: its origin is one table (or a reference of one) and an
    ordering key is that origin's unique column (needs a keyed database)."""
    origin = query['l']
    base = origin['l'] if origin['t'] == 'ref' else origin
    if base['t'] != 'table' or query['group']:
        return False
    return any(o['x']['f'] == 'col' and o['x']['name'] == UNIQUE for o in query['order'])


def _bare_elements(feature, groups):
    """The feature uses an element outside every aggregate and outside every grouping feature."""
    if g.canon(feature) in groups or feature['f'] in ('agg', 'lit'):
        return False
    if feature['f'] == 'col':
        return True
    return any(_bare_elements(a, groups) for a in feature['args'])


def excluded(ast, allow_colliding=False):
    """First reason (text) why the statement is outside the compared semantics, or None."""
    for src, top in _sources(ast):
        feats = _features_of(src)
        for feat in feats:
            for node in _nodes(feat):
                if node['f'] == 'op':
                    if node['op'] == 'div':
                        return 'E1 division'
                    if node['op'] == 'mod':
                        d = node['args'][1]
                        if not (d['f'] == 'lit' and d['kind'] == 'int' and g.lit_value(d) > 0):
                            return 'E2 modulus'
                    if node['op'] == 'cast':
                        if node['kind'] not in g.NUMERIC or g.feature_kind(node['args'][0]) not in g.NUMERIC:
                            return 'E7 cast'
                    if node['op'] in ('ceil', 'floor'):
                        return 'E8 ceil/floor'
                if node['f'] == 'lit':
                    value = g.lit_value(node)
                    if node['kind'] == 'float' and value != int(value):
                        return 'E4 non-integral float'
                    if node['kind'] not in SQLTYPE:
                        return 'E7 date/time literal'
                    if not allow_colliding and node['kind'] in g.NUMERIC and value in (-1, -2):
                        return 'E11 colliding literal'
                    if node['kind'] == 'str' and value not in STRINGS:
                        return 'E4 string outside the dictionary'
        if src['t'] == 'query':
            names = [leaf['name'] for leaf in _leaves(src['l'])]
            if len(set(names)) != len(names):
                return 'E12 ambiguous handles'
            for feat in feats:
                for node in _nodes(feat):
                    if node['f'] == 'agg' and node['op'] == 'avg':
                        direct = any(node is (s['args'][0] if s['f'] == 'alias' else s) for s in src['sel'])
                        if not (top and direct):
                            return 'E3 avg'
            for o in src['order']:
                if not any(n['f'] in ('col', 'agg') for n in _nodes(o['x'])):
                    return 'E14 constant order key'
                if nullable(o['x'], src['l']):
                    return 'E5 nullable order key'
            if not top:
                if src['rows'] and not total_order(src):
                    return 'E6 nested window'
                if src['order'] and not src['rows']:
                    return 'E10 nested order'
            if src['group'] or any(g.has_agg(f) for f in feats):
                # aggregating query: outside aggregates only grouping features may be used (select / having / order)
                groups = {g.canon(x) for x in src['group']}
                for feat in list(src['sel']) + [o['x'] for o in src['order']] + \
                        ([src['having']] if src['having']['f'] != 'nil' else []):
                    if _bare_elements(feat['args'][0] if feat['f'] == 'alias' else feat, groups):
                        return 'E9 bare aggregate mix'
    return None


def engine_excluded(ast, engine):
    if engine == 'sqlite':
        for src, _ in _sources(ast):
            if src['t'] == 'set' and (src['l']['t'] == 'set' or src['r']['t'] == 'set'):
                return 'E13 nested set operation'
    return None


def row_bound(ast, data):
    """Upper bound of the rows any join of the statement can produce over this content (product of the sizes of the
    tables under each query's origin).  Observations beyond MAX_ROWS are not made: the reference evaluator is quadratic
    in the number of candidate rows (decided on statement + content alone)."""
    worst = 0
    for src, _ in _sources(ast):
        if src['t'] == 'query':
            size = 1
            for leaf in _leaves(src['l']):
                base = leaf['l'] if leaf['t'] == 'ref' else leaf
                size *= max(1, len(data[base['name']])) if base['t'] == 'table' else 6
            worst = max(worst, size)
    return worst


MAX_ROWS = 450


def needs_keyed(ast):
    """The statement is only determined over a keyed database (nested window relying on the unique column)."""
    return any(src['t'] == 'query' and not top and src['rows'] for src, top in _sources(ast))


# ------------------------------------------------------------------------------------------------ occurrences
def occurrences(ast, path=''):
    """[(path, table node)...] of the table occurrences of a statement in the parser's visit order (left before
    right, depth first).  Paths follow specs/RelAlg.tla: the route through the fields l / r, a non-statement set
    operand being wrapped into its trivial query first."""
    t = ast['t']
    if t == 'table':
        return [(path, ast)]
    if t in ('ref', 'query'):
        return occurrences(ast['l'], path + '/l')
    if t == 'join':
        return occurrences(ast['l'], path + '/l') + occurrences(ast['r'], path + '/r')
    if t == 'set':
        out = []
        for side in ('l', 'r'):
            operand = ast[side] if ast[side]['t'] in ('query', 'set') else g.query(ast[side])
            out += occurrences(operand, path + '/' + side)
        return out
    return []


# ------------------------------------------------------------------------------------------------ engines
class Engines:
    """SQLite and DuckDB (through SQLAlchemy) holding one database content each, tables named like the schemas."""

    NAMES = ('sqlite', 'duckdb')

    def __init__(self, data, names=NAMES):
        import sqlalchemy
        from sqlalchemy import pool
        self.conns = {}
        for name in names:
            if name == 'sqlite':
                eng = sqlalchemy.create_engine('sqlite://', poolclass=pool.StaticPool)
            else:
                eng = sqlalchemy.create_engine('duckdb:///:memory:', poolclass=pool.StaticPool)
            conn = eng.connect()
            for table, cols in g.CATALOG.items():
                decl = ', '.join(f'"{c}" {SQLTYPE[k]}' for c, k in cols)
                conn.execute(sqlalchemy.text(f'CREATE TABLE "{table}" ({decl})'))
                for row in data[table]:
                    marks = ', '.join(f':p{i}' for i in range(len(row)))
                    conn.execute(sqlalchemy.text(f'INSERT INTO "{table}" VALUES ({marks})'),
                                 {f'p{i}': v for i, v in enumerate(row)})
            conn.commit()
            self.conns[name] = conn

    def run(self, name, selectable):
        conn = self.conns[name]
        try:
            return [list(r) for r in conn.execute(selectable).fetchall()]
        finally:
            conn.rollback()

    def close(self):
        for conn in self.conns.values():
            conn.close()


def table_sources():
    """{real dsl.Table: sqlalchemy table clause} for the catalog (tables shared with dslgen.build)."""
    import sqlalchemy
    from sqlalchemy import sql
    return {g.build(node): sqlalchemy.table(sql.quoted_name(name, quote=True)) for name, node in g.TABLES.items()}


def parse(stmt, parser_cls=None, sources=None):
    """Real statement -> SQLAlchemy selectable through the (given subclass of the) real alchemy parser."""
    from forml.provider.feed.reader import alchemy
    with (parser_cls or alchemy.Parser)(sources or table_sources(), {}) as visitor:
        stmt.accept(visitor)
        return visitor.fetch()


def avg_positions(ast):
    if ast['t'] != 'query':
        return set()
    return {i for i, s in enumerate(ast['sel'])
            if (s['args'][0] if s['f'] == 'alias' else s)['f'] == 'agg' and (s['args'][0] if s['f'] == 'alias' else s)['op'] == 'avg'}


def enc_rows(rows, avg=()):
    return [[enc_ratio(v) if i in avg else enc(v) for i, v in enumerate(row)] for row in rows]


def observe(ast, engines, parser_cls=None):
    """Run one statement through build / parse / every engine.  Returns {'outs': [{'res', 'rows'}...] distinct outcomes,
    'by': {engine: index into outs}, 'err': {engine: text}}; res: ok | build:<T> | parse:<T> | exec:<T>."""
    outs, by, err = [], {}, {}

    def put(name, res, rows):
        rec = {'res': res, 'rows': rows}
        if rec not in outs:
            outs.append(rec)
        by[name] = outs.index(rec)

    stage = 'build'
    try:
        stmt = g.build(ast)
        stage = 'parse'
        selectable = parse(stmt, parser_cls)
    except Exception as exc:  # pylint: disable=broad-except
        for name in engines.conns:
            put(name, f'{stage}:{type(exc).__name__}', [])
            err[name] = f'{type(exc).__name__}: {exc}'[:200]
        return {'outs': outs, 'by': by, 'err': err}
    avg = avg_positions(ast)
    for name in engines.conns:
        if engine_excluded(ast, name):
            continue
        try:
            put(name, 'ok', enc_rows(engines.run(name, selectable), avg))
        except Exception as exc:  # pylint: disable=broad-except
            put(name, f'exec:{type(exc).__name__}', [])
            err[name] = f'{type(exc).__name__}: {exc}'[:300]
    return {'outs': outs, 'by': by, 'err': err}


# ------------------------------------------------------------------------------------------------ generators
def _pick(rnd, seq):
    return seq[rnd.randrange(len(seq))]


class _Names:
    """Fresh reference names for one generated statement."""

    def __init__(self):
        self.n = 0

    def __call__(self):
        self.n += 1
        return f'r{self.n}'


def rand_scalar(rnd, elems, depth, safe=True):
    """Random integer valued scalar over the numeric elements (abs only outside the safe mode: the alchemy parser
    cannot render it at all, see the findings)."""
    nums = [e for e in elems if g.feature_kind(e) in g.NUMERIC]
    if depth <= 0 or not nums or rnd.random() < 0.35:
        if nums and rnd.random() < 0.75:
            return _pick(rnd, nums)
        return g.lit(rnd.choice([0, 1, 2, 3]))
    r = rnd.random()
    if r < 0.65:
        return g.op(rnd.choice(['add', 'sub', 'mul']), rand_scalar(rnd, elems, depth - 1, safe),
                    rand_scalar(rnd, elems, depth - 1, safe))
    if r < 0.8:
        return g.op('mod', rand_scalar(rnd, elems, depth - 1, safe), g.lit(rnd.choice([2, 3])))
    if r < 0.95 or safe:
        return g.cast(rand_scalar(rnd, elems, depth - 1, safe), rnd.choice(['int', 'float']))
    return g.op('abs', rand_scalar(rnd, elems, depth - 1, safe))


def rand_atom(rnd, elems, safe=True):
    """Random comparison / null test over the elements."""
    r = rnd.random()
    by_kind = {}
    for e in elems:
        by_kind.setdefault('num' if g.feature_kind(e) in g.NUMERIC else g.feature_kind(e), []).append(e)
    if r < 0.12:
        return g.op(rnd.choice(g.NULLTEST), _pick(rnd, elems))
    if r < 0.22 and by_kind.get('str'):
        other = _pick(rnd, by_kind['str']) if rnd.random() < 0.4 else g.lit(rnd.choice(['a', 'b', 'c']))
        return g.op(rnd.choice(g.COMPARE), _pick(rnd, by_kind['str']), other)
    if r < 0.28 and by_kind.get('bool'):
        return g.op(rnd.choice(['eq', 'ne']), _pick(rnd, by_kind['bool']), g.lit(rnd.choice([True, False])))
    return g.op(rnd.choice(g.COMPARE), rand_scalar(rnd, elems, 1, safe), rand_scalar(rnd, elems, 1, safe))


def rand_pred(rnd, elems, depth, neg=0.15, safe=True):
    r = rnd.random()
    if depth <= 0 or r < 0.4:
        return rand_atom(rnd, elems, safe)
    if r < 0.4 + neg:
        return g.op('not', rand_pred(rnd, elems, depth - 1, neg, safe))
    return g.op(rnd.choice(['and', 'or']), rand_pred(rnd, elems, depth - 1, neg, safe),
                rand_pred(rnd, elems, depth - 1, neg, safe))


def _leaves(origin):
    if origin['t'] in ('table', 'ref'):
        return [origin]
    return _leaves(origin['l']) + _leaves(origin['r'])


def single_origin_pred(rnd, origin, depth, neg=0.0, safe=True):
    """Predicate over the elements of ONE table / reference of the origin (keeps clear of the multi-table factor
    crash so that the semantics behind it get exercised)."""
    return rand_pred(rnd, g.elements(_pick(rnd, _leaves(origin))), depth, neg, safe)


def rand_origin(rnd, depth, safe, names):
    """Random origin: tables, references (also of statements), joins of every kind with random conditions.
    Safe mode keeps join conditions clear of the known parser crashes: a comparison never mixes a table column with
    a reference element, predicates combining several origins are single comparisons."""
    tabs = list(g.TABLES.values())
    r = rnd.random()
    if depth <= 0 or r < 0.2:
        t = _pick(rnd, tabs)
        return g.ref(t, names()) if rnd.random() < 0.15 else t
    if r < 0.35:
        return g.ref(rand_query(rnd, depth - 1, safe, True, names), names())
    left = rand_origin(rnd, depth - 1, safe, names)
    direct = {leaf['name'] for leaf in _leaves(left) if leaf['t'] == 'table'}
    cands = [t for t in tabs if t['name'] not in direct]
    right = g.ref(_pick(rnd, tabs), names()) if not cands or rnd.random() < 0.3 else _pick(rnd, cands)
    kind = rnd.choice(g.JOINS)
    if kind == 'cross':
        return g.join(left, right, 'cross')
    lel, rel = g.elements(left), g.elements(right)

    def same_sort(a, b):
        return (a['src']['t'] == 'table') == (b['src']['t'] == 'table')

    la = [e for e in lel if g.feature_kind(e) == 'int']
    ra = [e for e in rel if g.feature_kind(e) == 'int']
    pairs = [(a, b) for a in la for b in ra if not safe or same_sort(a, b)]
    r2 = rnd.random()
    if pairs and (r2 < 0.6 or safe):
        a, b = _pick(rnd, pairs)
        cond = g.op(rnd.choice(g.COMPARE), a, b)
        if rnd.random() < 0.2 and not safe:
            cond = g.op(rnd.choice(['and', 'or']), cond, rand_atom(rnd, lel + rel, safe))
    elif safe:
        cond = rand_atom(rnd, g.elements(_pick(rnd, _leaves(right))), safe)
    else:
        cond = rand_pred(rnd, lel + rel, 2, 0.15, safe)
    return g.join(left, right, kind, cond)


def rand_query(rnd, depth, safe, nested=False, names=None):
    """Random conforming query inside the compared semantics (re-checked by ``excluded`` and by WellFormed in TLC)."""
    names = names or _Names()
    origin = rand_origin(rnd, depth, safe, names)
    elems = g.elements(origin)
    where = None
    if rnd.random() < 0.6:
        where = single_origin_pred(rnd, origin, 2, 0.0 if safe else 0.15, safe) if safe or rnd.random() < 0.5 \
            else rand_pred(rnd, elems, 2, 0.15, safe)
    nums = [e for e in elems if g.feature_kind(e) in g.NUMERIC]
    if rnd.random() < 0.35 and nums:
        group = [_pick(rnd, elems)] + ([_pick(rnd, elems)] if rnd.random() < 0.3 else [])
        group = list({g.canon(x): x for x in group}.values())
        aggs = [g.agg(rnd.choice(['count', 'sum', 'min', 'max']), _pick(rnd, nums)) for _ in range(rnd.randint(1, 2))]
        if not nested and rnd.random() < 0.3:
            aggs.append(g.agg('avg', _pick(rnd, nums)))
        sel = [g.alias(x, f'g{i}') for i, x in enumerate(group)] + [g.alias(a, f'a{i}') for i, a in enumerate(aggs)]
        having = None
        if rnd.random() < 0.4:
            having = g.op(rnd.choice(g.COMPARE), g.agg(rnd.choice(['count', 'sum', 'max']), _pick(rnd, nums)),
                          g.lit(rnd.choice([0, 1, 2, 3])))
        order = []
        if rnd.random() < 0.4:
            order = [g.order_term(g.agg('count', _pick(rnd, nums)), rnd.choice(g.DIRS))]
        rows = [rnd.randint(1, 3), rnd.randint(0, 2)] if not nested and rnd.random() < 0.3 else None
        return g.query(origin, sel, where, group, having, order if not nested else [], rows)
    if rnd.random() < 0.12 and nums and not nested:
        aggs = [g.alias(g.agg(rnd.choice(g.AGGS), _pick(rnd, nums)), f'a{i}') for i in range(rnd.randint(1, 3))]
        return g.query(origin, aggs, where)
    sel = []
    if rnd.random() < 0.85 or nested:
        for i in range(rnd.randint(1, 3)):
            r = rnd.random()
            x = _pick(rnd, elems) if r < 0.5 else (rand_scalar(rnd, elems, 2, safe) if r < 0.8 else rand_atom(rnd, elems, safe))
            sel.append(g.alias(x, f'c{i}'))
    order = []
    if rnd.random() < 0.5:
        keys = [e for e in elems if not nullable(e, origin)]
        if keys:
            order = [g.order_term(_pick(rnd, keys), rnd.choice(g.DIRS))]
            if rnd.random() < 0.4:
                order.append(g.order_term(rand_scalar(rnd, keys, 1, safe), rnd.choice(g.DIRS)))
    rows = [rnd.randint(1, 3), rnd.randint(0, 2)] if rnd.random() < 0.35 else None
    q = g.query(origin, sel, where, (), None, order, rows)
    if nested and ((q['rows'] and not total_order(q)) or (q['order'] and not q['rows'])):
        q = g.query(origin, sel, where, (), None, [], None)
    return q


def rand_statement(rnd, depth=2, safe=True):
    """Random statement: a query, or a set operation over two queries with the same output names / kinds."""
    if rnd.random() < 0.15:
        t = _pick(rnd, [g.TABLES['B'], g.TABLES['C']])
        u = _pick(rnd, [g.TABLES['B'], g.TABLES['C']])
        cols = rnd.sample(['i', 's', 'k'], rnd.randint(1, 3))

        def operand(tab):
            where = rand_pred(rnd, g.elements(tab), 1, 0.0 if safe else 0.15, safe) if rnd.random() < 0.6 else None
            return g.query(tab, [g.col(tab, c) for c in cols], where)

        stmt = g.setop(operand(t), operand(u), rnd.choice(g.SETS))
        if rnd.random() < 0.3:
            stmt = g.setop(stmt, operand(_pick(rnd, [t, u])), rnd.choice(g.SETS))
        return stmt
    return rand_query(rnd, depth, safe)


def semantic_statements(seed, n, depth=2, safe_share=0.7):
    """n seeded random statements inside the compared semantics: ``safe_share`` of them 'safe' (no negation, no abs,
    predicates over several origins only as single comparisons that do not mix tables with references: they stay
    clear of the known parser crashes and reach the engines), the rest unrestricted."""
    rnd = random.Random(seed)
    out, seen, tries = [], set(), 0
    while len(out) < n and tries < n * 40:
        tries += 1
        stmt = rand_statement(rnd, rnd.randint(1, depth), safe=(rnd.random() < safe_share))
        key = g.canon(stmt)
        if key in seen or excluded(stmt):
            continue
        seen.add(key)
        out.append(stmt)
    return out


# ------------------------------------------------------------------------------------------------ syntactic classes
def ops_in(ast):
    """Operator / aggregate names used anywhere in the statement's own clauses and join conditions."""
    out = set()
    for src, _ in _sources(ast):
        for feat in _features_of(src):
            out.update(n['op'] for n in _nodes(feat) if n['f'] in ('op', 'agg'))
    return out


def join_kinds(ast):
    return {src['kind'] for src, _ in _sources(ast) if src['t'] == 'join'}


def predicates(ast):
    """(clause, owner source node, predicate) for every where / join-on predicate (the ones the parser factorises)."""
    for src, _ in _sources(ast):
        if src['t'] == 'query' and src['where']['f'] != 'nil':
            yield 'where', src, src['where']
        if src['t'] == 'join' and src['on']['f'] != 'nil':
            yield 'on', src, src['on']


# ------------------------------------------------------------------------------------------------ display
def show(node):
    """Compact, lossless text of an AST (repr() of the real objects hides clauses: Equal.__bool__)."""
    if g.is_feature(node):
        f = node['f']
        if f == 'nil':
            return '-'
        if f == 'col':
            src = node['src']
            return (src['name'] if src['t'] in ('table', 'ref') else '?') + '.' + node['name']
        if f == 'lit':
            return node['v']
        if f == 'alias':
            return f'{show(node["args"][0])} as {node["name"]}'
        name = node['op'] + (f':{node["kind"]}' if node['op'] == 'cast' else '')
        return f'{name}({", ".join(show(a) for a in node["args"])})'
    t = node['t']
    if t == 'table':
        return node['name']
    if t == 'ref':
        return f'{node["name"]}=[{show(node["l"])}]'
    if t == 'join':
        return f'({show(node["l"])} {node["kind"]} {show(node["r"])}' + (f' on {show(node["on"])})' if node['on']['f'] != 'nil' else ')')
    if t == 'set':
        return f'({show(node["l"])} {node["kind"]} {show(node["r"])})'
    if t == 'query':
        text = f'{show(node["l"])}'
        if node['sel']:
            text += f'.select({", ".join(show(x) for x in node["sel"])})'
        if node['where']['f'] != 'nil':
            text += f'.where({show(node["where"])})'
        if node['group']:
            text += f'.groupby({", ".join(show(x) for x in node["group"])})'
        if node['having']['f'] != 'nil':
            text += f'.having({show(node["having"])})'
        if node['order']:
            text += f'.orderby({", ".join(show(o["x"]) + " " + o["dir"][:4] for o in node["order"])})'
        if node['rows']:
            text += f'.limit({node["rows"][0]}, {node["rows"][1]})'
        return text if text != show(node['l']) else text + '.query'
    return '?'


# ------------------------------------------------------------------------------------------------ push-down hints (C14)
def recorder_class():
    """Subclass of the real alchemy.Parser that RECORDS the hints offered to ``generate_table`` (public extension
    point) without changing the generated code: per call the table, the offered column names and the offered
    predicate - as the DSL objects of the context segment (public ``context.tables[source]``; projected to ASTs) and
    as the target code actually passed (column names, predicate text in the SQLite dialect)."""
    from sqlalchemy.dialects import sqlite
    from forml.provider.feed.reader import alchemy

    class Recorder(alchemy.Parser):
        def __init__(self, sources, features):
            super().__init__(sources, features)
            self.calls = []
            self._pending = None

        def visit_table(self, source):
            segment = self.context.tables[source]
            pred = segment.predicate
            self._pending = {'table': g.project(source), 'cols': sorted(f.name for f in segment.fields),
                             'pred': g.NIL_F if pred is None else g.project(pred)}
            super().visit_table(source)

        def generate_table(self, table, features, predicate):
            rec, self._pending = self._pending or {'table': None, 'cols': None, 'pred': None}, None
            rec['target_cols'] = sorted(f.name for f in features)
            rec['target_pred'] = None if predicate is None else str(
                predicate.compile(dialect=sqlite.dialect(), compile_kwargs={'literal_binds': True}))
            self.calls.append(rec)
            return super().generate_table(table, features, predicate)

    return Recorder


_RECORDER = None


def record_hints(ast, sources=None):
    """Parse the statement with the recording parser.  Returns {'res': 'ok' | 'parse:<T>' | 'build:<T>', 'hints': [...],
    'err'}: hints = one {path, table, cols, pred, target_cols, target_pred} per generate_table call, paths assigned in
    visit order (``occurrences``); 'mismatch' when the calls do not line up with the statement's table occurrences."""
    global _RECORDER  # pylint: disable=global-statement
    if _RECORDER is None:
        _RECORDER = recorder_class()
    stage = 'build'
    try:
        stmt = g.build(ast)
        stage = 'parse'
        tables = sources or {g.build(node): None for _, node in occurrences(ast)}
        import sqlalchemy
        from sqlalchemy import sql
        mapping = {t: sqlalchemy.table(sql.quoted_name(t.schema.__name__, quote=True)) for t in tables}
        with _RECORDER(mapping, {}) as visitor:
            stmt.accept(visitor)
            visitor.fetch()
        calls = visitor.calls
    except Exception as exc:  # pylint: disable=broad-except
        return {'res': f'{stage}:{type(exc).__name__}', 'hints': [], 'err': f'{type(exc).__name__}: {exc}'[:200]}
    occ = occurrences(ast)
    # line the calls up with the table occurrences (visit order).  An occurrence without a call of its own is served by
    # the parser with the table code generated for an EARLIER occurrence of the same table: the hints that back-end code
    # carries are what is effectively offered for it
    aligned, k, last = [], 0, {}
    for path, node in occ:
        key = g.canon(node)
        if k < len(calls) and g.canon(calls[k]['table']) == key:
            call, k = calls[k], k + 1
            last[key] = call
        elif key in last:
            call = last[key]
        else:
            return {'res': 'mismatch', 'hints': [], 'err': f'{len(calls)} generate_table calls for {len(occ)} occurrences'}
        aligned.append((path, node, call))
    if k != len(calls):
        return {'res': 'mismatch', 'hints': [], 'err': f'{len(calls)} generate_table calls for {len(occ)} occurrences'}
    hints = []
    for path, node, call in aligned:
        hints.append({'path': path, 'table': node, 'cols': call['cols'], 'pred': call['pred'],
                      'target_cols': call['target_cols'], 'target_pred': call['target_pred']})
    return {'res': 'ok', 'hints': hints, 'err': None}


def _rt_feature(feature, handles):
    if feature['f'] == 'nil':
        return feature
    if feature['f'] == 'col':
        key = g.canon(feature['src'])
        return g.col(handles[key], feature['name']) if key in handles else feature
    out = dict(feature)
    out['args'] = [_rt_feature(a, handles) for a in feature['args']]
    return out


def _rt_source(src, names, path):
    t = src['t']
    if t == 'table':
        new = g.table(names[path], src['cols']) if path in names else src
        return new, {g.canon(src): new}
    if t == 'ref':
        inner, _ = _rt_source(src['l'], names, path + '/l')
        new = g.ref(inner, src['name'])
        return new, {g.canon(src): new}
    if t == 'join':
        left, ml = _rt_source(src['l'], names, path + '/l')
        right, mr = _rt_source(src['r'], names, path + '/r')
        handles = {**ml, **mr}
        return g.join(left, right, src['kind'], _rt_feature(src['on'], handles)), handles
    if t == 'set':
        sides = []
        for side in ('l', 'r'):
            operand = src[side] if src[side]['t'] in ('query', 'set') else g.query(src[side])
            sides.append(_rt_source(operand, names, path + '/' + side)[0])
        new = g.setop(sides[0], sides[1], src['kind'])
        return new, {g.canon(src): new}
    origin, handles = _rt_source(src['l'], names, path + '/l')
    new = g.query(origin, [_rt_feature(x, handles) for x in src['sel']], _rt_feature(src['where'], handles),
                  [_rt_feature(x, handles) for x in src['group']], _rt_feature(src['having'], handles),
                  [g.order_term(_rt_feature(o['x'], handles), o['dir']) for o in src['order']], src['rows'] or None)
    return new, {g.canon(src): new}


def retarget(ast, names):
    """The same statement with the table occurrence at each path of ``names`` replaced by a table of that new name
    (same fields); elements addressing the occurrence follow it.  Used to run a statement over per-occurrence
    restricted copies of the tables."""
    return _rt_source(ast, names, '')[0]


def run_hinted(ast, hints, conn, catalog=None):
    """Rows of the statement on SQLite when every table occurrence delivers only what its recorded hint allows:
    the offered columns (the others NULL) of the rows passing the offered predicate (the target code text the parser
    passed to generate_table).  Returns {'res': 'ok' | 'exec:<T>', 'rows': [...]}."""
    import sqlalchemy
    from sqlalchemy import sql
    catalog = catalog or g.CATALOG
    names, created = {}, []
    try:
        for n, hint in enumerate(hints):
            table = hint['table']['name']
            new = f'{table}__{n}'
            cols = ', '.join(f'"{c}"' if c in hint['target_cols'] else f'CAST(NULL AS {SQLTYPE[k]}) AS "{c}"'
                             for c, k in hint['table']['cols'])
            where = f' WHERE {hint["target_pred"]}' if hint['target_pred'] else ''
            conn.execute(sqlalchemy.text(f'CREATE TEMP TABLE "{new}" AS SELECT {cols} FROM "{table}"{where}'))
            created.append(new)
            names[hint['path']] = new
        twin = retarget(ast, names)
        stmt = g.build(twin)
        mapping = {g.build(node): sqlalchemy.table(sql.quoted_name(node['name'], quote=True)) for _, node in occurrences(twin)}
        selectable = parse(stmt, None, mapping)
        rows = [list(r) for r in conn.execute(selectable).fetchall()]
        return {'res': 'ok', 'rows': enc_rows(rows, avg_positions(ast))}
    except Exception as exc:  # pylint: disable=broad-except
        return {'res': f'exec:{type(exc).__name__}', 'rows': [], 'err': f'{type(exc).__name__}: {exc}'[:300]}
    finally:
        conn.rollback()
        for new in created:
            try:
                conn.execute(sqlalchemy.text(f'DROP TABLE IF EXISTS "{new}"'))
            except Exception:  # pylint: disable=broad-except
                pass
        conn.commit()


# ------------------------------------------------------------------------------------------------ TLC output
def printed_tuples(stdout, head):
    """PrintT(<<"HEAD", ...>>) values of a TLC run as python lists; unlike tlc.Result.tuples this also reads the
    values TLC wraps over several lines (long verdict tuples)."""
    from harness import tlc
    import re
    out, mark, pos = [], re.compile(r'<<\s*"%s"' % re.escape(head)), 0
    while True:
        found = mark.search(stdout, pos)
        if not found:
            return out
        start = found.start()
        depth, i, quoted = 0, start, False
        while i < len(stdout):
            ch = stdout[i]
            if ch == '"':
                quoted = not quoted
            elif not quoted and stdout.startswith('<<', i):
                depth += 1
                i += 1
            elif not quoted and stdout.startswith('>>', i):
                depth -= 1
                i += 1
                if depth == 0:
                    break
            i += 1
        text = ' '.join(stdout[start:i + 1].split())
        out.append(tlc.parse_tla(text)[1:])
        pos = i + 1


# ------------------------------------------------------------------------------------------------ as-is model variant
_FIXES = None


def detect_fixes():
    """Which of the proposed repairs the code under test already carries (names of specs/FactorsImpl.tla ``Fixed``),
    found out by probing the public API with the witnesses of the findings.  Only selects the VARIANT of the as-is model
    that is compared with the code (finding attribution, drift); no verdict depends on it."""
    global _FIXES  # pylint: disable=global-statement
    if _FIXES is not None:
        return _FIXES
    A = g.table('A', [('x', 'int'), ('y', 'int'), ('b', 'bool')])
    B = g.table('B', [('x', 'int')])
    R = g.ref(A, 'r')
    ax, ay, ab, bx, rx = g.col(A, 'x'), g.col(A, 'y'), g.col(A, 'b'), g.col(B, 'x'), g.col(R, 'x')
    one = g.lit(1)
    fixes = set()

    def factors(node):
        pred = g.build(node)
        return {repr(t): g.project(p) for t, p in pred.factors.items()}

    def probe(name, fn):
        try:
            if fn():
                fixes.add(name)
        except Exception:  # pylint: disable=broad-except
            pass

    probe('merge', lambda: set(factors(g.op('and', g.op('eq', ax, one), g.op('eq', bx, one)))) == {'A', 'B'})
    probe('nonpredicate', lambda: factors(g.op('and', ab, g.op('eq', ax, one))) is not None)
    probe('refelem', lambda: factors(g.op('lt', ax, rx)) == {})
    probe('not', lambda: factors(g.op('not', g.op('eq', ax, one)))['A']['op'] == 'not')
    probe('or', lambda: factors(g.op('or', g.op('eq', ax, one), g.op('lt', ax, bx))) == {})
    probe('eqjoin', lambda: 'x' in record_hints(g.query(g.join(A, B, 'inner', g.op('eq', ax, bx)), [ay]))['hints'][0]['cols'])
    probe('outer', lambda: record_hints(g.query(g.join(A, B, 'left', g.op('and', g.op('eq', ay, one), g.op('lt', ax, bx))),
                                                [ay, bx]))['hints'][0]['pred']['f'] == 'nil')
    _FIXES = sorted(fixes)
    return _FIXES


# ------------------------------------------------------------------------------------------------ lazy feed columns (C14)
_LAZY = {}


def lazy_columns(ast):
    """Columns the lazy feed reader asks its origins for (public hook ``lazy.Origin.partitions(columns, predicate)``)
    when reading the statement: {'res': 'ok' | '<stage>:<Type>', 'cols': {table: [names]}}.  The origins are inline
    monolite origins over the catalog tables holding one row each."""
    from forml.provider.feed import lazy, monolite
    if 'feed' not in _LAZY:
        seen = {}

        class Spy(monolite.Inline):
            def partitions(self, columns, predicate):
                seen.setdefault(repr(self.source), set()).update(c.name for c in columns)
                return super().partitions(columns, predicate)

        tables = {name: g.build(node) for name, node in g.TABLES.items()}
        sample = {'int': 1, 'float': 1.0, 'str': 'a', 'bool': True}
        origins = [Spy(tab, [[sample[k] for _, k in g.CATALOG[name]]]) for name, tab in tables.items()]
        feed = lazy.Feed(*origins)
        _LAZY.update(feed=feed, seen=seen,
                     reader=type(feed).producer(feed.sources, feed.features, origins=origins))
    _LAZY['seen'].clear()
    stage = 'build'
    try:
        stmt = g.build(ast)
        stage = 'read'
        _LAZY['reader'](stmt)
    except Exception as exc:  # pylint: disable=broad-except
        if not _LAZY['seen']:
            return {'res': f'{stage}:{type(exc).__name__}', 'cols': {}}
    if not _LAZY['seen']:
        return {'res': 'cached', 'cols': {}}   # an equal SQL text was read before: the origins were not asked at all
    return {'res': 'ok', 'cols': {t: sorted(c) for t, c in _LAZY['seen'].items()}}
