"""Hand-made posix registry trees (public on-disk layout documented in docs/registry.rst)."""
import datetime
import os
import pathlib
import uuid


def tag_bytes(states=(), ts=None, ordinal=None):
    from forml.io import asset
    tag = asset.Tag(training=asset.Tag.Training(ts or datetime.datetime(2020, 1, 1, 0, 0, 0), ordinal), states=states)
    return tag.dumps()


def publish(root, project, release):
    path = pathlib.Path(root) / project / str(release)
    path.mkdir(parents=True, exist_ok=True)
    (path / 'package.4ml').write_bytes(b'')


def commit(root, project, release, generation):
    path = pathlib.Path(root) / project / str(release) / str(generation)
    path.mkdir(parents=True, exist_ok=True)
    tmp = path / 'tag.tmp'
    tmp.write_bytes(tag_bytes())
    os.rename(tmp, path / 'tag.toml')


def directory(root):
    from forml.io import asset
    from forml.provider.registry.filesystem import posix
    return asset.Directory(posix.Registry(root))
