import datetime, uuid, decimal
from forml.io import asset
T=asset.Tag
now=datetime.datetime(2024,1,2,3,4,5,123456)
cases={'int':5,'float':1.5,'str':'abc','date':datetime.date(2024,1,2),'ts':now,'none':None,'zero':0,'bool':True,'dec':decimal.Decimal('1.5'), 'strq':'a"b\\c\n','tsaware':now.replace(tzinfo=datetime.timezone.utc)}
for k,o in cases.items():
    t=T(training=T.Training(now,o), states=[uuid.uuid4()])
    try:
        r=T.loads(t.dumps())
        print(k, r==t, repr(r.training.ordinal), type(r.training.ordinal).__name__)
    except Exception as e:
        print(k,'ERR',type(e).__name__,e)
t=T(tuning=T.Tuning(now,0.5))
try: print('notrain', T.loads(t.dumps())==t)
except Exception as e: print('notrain ERR',type(e).__name__,e)
t=T()
try: print('empty', T.loads(t.dumps())==t)
except Exception as e: print('empty ERR',type(e).__name__,e)
