from forml import flow
class F(flow.Actor):
    def apply(self, *a): return a
class S(flow.Actor):
    def apply(self, *a): return a
    def train(self, f, l): pass
def mk(szin=1, szout=1, cls=F): return flow.Worker(cls.builder(), szin, szout)
# second publisher through a placeholder
a=mk(); b=mk(); w=mk(); f=flow.Future()
f[0].subscribe(a[0]); f[0].subscribe(b[0])
try:
    w[0].subscribe(f[0])
    print('two publishers accepted:', [[str(s) for s in p] for p in a.output], [[str(s) for s in p] for p in b.output])
except flow.TopologyError as e: print('rejected', e)
# other order: w subscribes first then two publishers
a=mk(); b=mk(); w=mk(); f=flow.Future()
w[0].subscribe(f[0]); f[0].subscribe(a[0])
try:
    f[0].subscribe(b[0]); print('two publishers accepted (order2)', [len(p) for p in a.output],[len(p) for p in b.output])
except flow.TopologyError as e: print('rejected order2', e)
# failed call leaves graph as it was? self-subscription
a=mk()
try: a[0].subscribe(a[0])
except flow.TopologyError as e: print('self', e, a.input)
b=mk(); 
b[0].subscribe(a[0]); print(b.input)
# trained publisher
s=mk(cls=S); x=mk(); y=mk()
s.train(x[0], y[0])
z=mk()
try: z[0].subscribe(s[0])
except flow.TopologyError as e: print('trained pub', e, z.input)
# partial train failure: train ok, label fails
s2=mk(cls=S); x=mk()
try: s2.train(x[0], s2[0])
except flow.TopologyError as e: print('partial train', e, s2.input, s2.trained, [len(p) for p in x.output])
