import pandas, warnings
from forml.io import dsl, layout
from forml.io._input import _producer
class Q(dsl.Schema):
    a = dsl.Field(dsl.Float())
    b = dsl.Field(dsl.Integer())
    c = dsl.Field(dsl.String())
class R(_producer.Reader):
    @classmethod
    def parser(cls, s, f): raise NotImplementedError
    @classmethod
    def read(cls, st, **kw): raise NotImplementedError
r=R({}, {})
stmt=Q.select(Q.a, Q.b, Q.c)
def entry(cols, kinds, rows):
    schema=dsl.Schema.from_fields(*(dsl.Field(k, name=n) for n,k in zip(cols,kinds)))
    return layout.Entry(schema, layout.Frame(pandas.DataFrame(rows, columns=cols)))
e=entry(['c','b','a'],[dsl.String(),dsl.Integer(),dsl.Integer()],[['x',1,2],['y',3,4]])
out=r(stmt, e)
print(out.to_rows().frame, out.to_rows().frame.dtypes.to_dict())
e=entry(['a','b','c'],[dsl.Integer(),dsl.Integer(),dsl.String()],[[2,1,'x'],[4,3,'y']])
out=r(stmt, e); print(out.to_rows().frame.dtypes.to_dict())
e=entry(['b','a','c','d'],[dsl.String(),dsl.Integer(),dsl.String(),dsl.Integer()],[['1',2,'x',0],['3',4,'y',0]])
out=r(stmt, e); print(out.to_rows().frame, out.to_rows().frame.dtypes.to_dict())
for cols in (['a','b'],['a','c','b'],['a','a','b','c'],['b','c']):
    try:
        e=entry(cols,[dsl.Integer()]*len(cols),[[1]*len(cols)])
        print(cols, r._match_entry(stmt.schema, e.schema))
    except Exception as ex: print(cols,'ERR',type(ex).__name__, ex)
