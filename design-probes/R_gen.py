import json, random, sqlite3, sys
NULL=-9999
rnd=random.Random(int(sys.argv[1]) if len(sys.argv)>1 else 1)
N=int(sys.argv[2]) if len(sys.argv)>2 else 300
TABLES={'a':['a.x','a.k'],'b':['b.y','b.k']}
def col(k): return {'f':'col','key':k}
def lit(v): return {'f':'lit','v':v}
def rexpr(keys, d):
    if d==0 or rnd.random()<.3:
        return col(rnd.choice(keys)) if rnd.random()<.7 else lit(rnd.randint(0,3))
    return {'f':'ari','op':rnd.choice(['add','sub','mul']),'a':rexpr(keys,d-1),'b':rexpr(keys,d-1)}
def rpred(keys, d):
    r=rnd.random()
    if d==0 or r<.4: return {'f':'cmp','op':rnd.choice(['eq','ne','lt','le','gt','ge']),'a':rexpr(keys,1),'b':rexpr(keys,1)}
    if r<.6: return {'f':'and','a':rpred(keys,d-1),'b':rpred(keys,d-1)}
    if r<.8: return {'f':'or','a':rpred(keys,d-1),'b':rpred(keys,d-1)}
    if r<.9: return {'f':'not','a':rpred(keys,d-1)}
    return {'f':'isnull','a':col(rnd.choice(keys))}
def sql(e):
    f=e['f']
    if f=='col': t,c=e['key'].split('.'); return f'{t}."{c}"'
    if f=='lit': return str(e['v'])
    if f=='cmp': return f"({sql(e['a'])} {dict(eq='=',ne='!=',lt='<',le='<=',gt='>',ge='>=')[e['op']]} {sql(e['b'])})"
    if f=='ari': return f"({sql(e['a'])} {dict(add='+',sub='-',mul='*')[e['op']]} {sql(e['b'])})"
    if f=='and': return f"({sql(e['a'])} AND {sql(e['b'])})"
    if f=='or': return f"({sql(e['a'])} OR {sql(e['b'])})"
    if f=='not': return f"(NOT {sql(e['a'])})"
    if f=='isnull': return f"({sql(e['a'])} IS NULL)"
    if f=='agg': return f"{e['fn']}({sql(e['a'])})"
def ssql(s):
    if s['t']=='table': return s['name']
    k=s['kind']
    if k=='cross': return f"({ssql(s['l'])} CROSS JOIN {ssql(s['r'])})"
    return f"({ssql(s['l'])} {dict(inner='INNER',left='LEFT',right='RIGHT',full='FULL OUTER')[k]} JOIN {ssql(s['r'])} ON {sql(s['on'])})"
def rdb():
    return {t:[[rnd.choice([0,1,2,3,None]) for _ in cols] for _ in range(rnd.randint(0,3))] for t,cols in TABLES.items()}
obs=[]
for i in range(N):
    db=rdb()
    con=sqlite3.connect(':memory:')
    con.execute('create table a (x int, k int)'); con.execute('create table b (y int, k int)')
    for t,rows in db.items(): con.executemany(f'insert into {t} values (?,?)', rows)
    ta={'t':'table','name':'a','cols':TABLES['a']}; tb={'t':'table','name':'b','cols':TABLES['b']}
    r=rnd.random()
    if r<.4: src=ta; keys=TABLES['a']
    else:
        kind=rnd.choice(['inner','left','right','full','cross']); keys=TABLES['a']+TABLES['b']
        src={'t':'join','l':ta,'r':tb,'kind':kind,'on':rpred(keys,1) if kind!='cross' else lit(1)}
    q={'src':src,'where':[],'group':[],'having':[],'order':[],'limit':-1,'offset':0}
    if rnd.random()<.5: q['where']=[rpred(keys,2)]
    if rnd.random()<.35:
        g=[col(rnd.choice(keys))]; q['group']=g
        q['sel']=g+[{'f':'agg','fn':rnd.choice(['count','sum','min','max']),'a':rexpr(keys,1)}]
        if rnd.random()<.4: q['having']=[{'f':'cmp','op':'ge','a':{'f':'agg','fn':'count','a':col(keys[0])},'b':lit(1)}]
        ordered=False
    else:
        q['sel']=[rexpr(keys,2) for _ in range(rnd.randint(1,3))]
        ordered=False
    s='SELECT '+', '.join(sql(e) for e in q['sel'])+' FROM '+ssql(src)
    if q['where']: s+=' WHERE '+sql(q['where'][0])
    if q['group']: s+=' GROUP BY '+', '.join(sql(e) for e in q['group'])
    if q['having']: s+=' HAVING '+sql(q['having'][0])
    rows=[[NULL if v is None else v for v in r] for r in con.execute(s).fetchall()]
    enc={t:[[NULL if v is None else v for v in r] for r in rows_] for t,rows_ in db.items()}
    obs.append({'q':q,'db':enc,'rows':rows,'ordered':ordered,'sql':s})
# corrupt one observation to test rejection
bad=next(i for i,o in enumerate(obs) if o['rows'])
obs[bad]['rows'][0][0]= (obs[bad]['rows'][0][0] or 0)+7
print('corrupted', bad+1, file=sys.stderr)
json.dump({'obs':obs}, open('/tmp/tl/r.json','w'))
