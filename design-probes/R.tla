---- MODULE R ----
EXTENDS Integers, Sequences, FiniteSets, TLC, Json, IOUtils, TLCExt
Batch == JsonDeserialize(IOEnv.TRACE_FILE)
NULL == -9999
Obs == Batch.obs

\* ---------- helpers ----------
Range(s) == {s[i] : i \in DOMAIN s}
RECURSIVE Flat(_)
Flat(ss) == IF ss = <<>> THEN <<>> ELSE Head(ss) \o Flat(Tail(ss))
Count(s, x) == Cardinality({i \in DOMAIN s : s[i] = x})
BagEq(s, t) == Len(s) = Len(t) /\ \A x \in Range(s) : Count(s, x) = Count(t, x)
RECURSIVE Dedup(_)
Dedup(s) == IF s = <<>> THEN <<>> ELSE <<Head(s)>> \o Dedup(SelectSeq(Tail(s), LAMBDA y : y # Head(s)))
Merge(f, g) == [k \in (DOMAIN f) \cup (DOMAIN g) |-> IF k \in DOMAIN f THEN f[k] ELSE g[k]]

\* 3-valued logic over {1, 0, NULL}
And3(a, b) == IF a = 0 \/ b = 0 THEN 0 ELSE IF a = NULL \/ b = NULL THEN NULL ELSE 1
Or3(a, b) == IF a = 1 \/ b = 1 THEN 1 ELSE IF a = NULL \/ b = NULL THEN NULL ELSE 0
Not3(a) == IF a = NULL THEN NULL ELSE 1 - a
B(b) == IF b THEN 1 ELSE 0
Cmp(op, a, b) == IF a = NULL \/ b = NULL THEN NULL ELSE
   CASE op = "eq" -> B(a = b) [] op = "ne" -> B(a # b) [] op = "lt" -> B(a < b)
     [] op = "le" -> B(a <= b) [] op = "gt" -> B(a > b) [] op = "ge" -> B(a >= b)
Ari(op, a, b) == IF a = NULL \/ b = NULL THEN NULL ELSE
   CASE op = "add" -> a + b [] op = "sub" -> a - b [] op = "mul" -> a * b

\* ---------- expressions: env = row function, grp = sequence of envs (for aggregates) ----------
RECURSIVE Val(_, _, _)
Agg(fn, e, grp) == LET vs == SelectSeq([i \in DOMAIN grp |-> Val(e, grp[i], <<>>)], LAMBDA v : v # NULL) IN
   CASE fn = "count" -> Len(vs)
     [] fn = "sum" -> IF vs = <<>> THEN NULL ELSE LET RECURSIVE S(_) S(q) == IF q = <<>> THEN 0 ELSE Head(q) + S(Tail(q)) IN S(vs)
     [] fn = "min" -> IF vs = <<>> THEN NULL ELSE CHOOSE m \in Range(vs) : \A x \in Range(vs) : m <= x
     [] fn = "max" -> IF vs = <<>> THEN NULL ELSE CHOOSE m \in Range(vs) : \A x \in Range(vs) : m >= x
Val(e, env, grp) ==
   CASE e.f = "col" -> env[e.key]
     [] e.f = "lit" -> e.v
     [] e.f = "alias" -> Val(e.e, env, grp)
     [] e.f = "cmp" -> Cmp(e.op, Val(e.a, env, grp), Val(e.b, env, grp))
     [] e.f = "ari" -> Ari(e.op, Val(e.a, env, grp), Val(e.b, env, grp))
     [] e.f = "and" -> And3(Val(e.a, env, grp), Val(e.b, env, grp))
     [] e.f = "or" -> Or3(Val(e.a, env, grp), Val(e.b, env, grp))
     [] e.f = "not" -> Not3(Val(e.a, env, grp))
     [] e.f = "isnull" -> B(Val(e.a, env, grp) = NULL)
     [] e.f = "agg" -> Agg(e.fn, e.a, grp)
RECURSIVE HasAgg(_)
HasAgg(e) == CASE e.f = "agg" -> TRUE
              [] e.f \in {"col", "lit"} -> FALSE
              [] e.f = "alias" -> HasAgg(e.e)
              [] e.f \in {"not", "isnull"} -> HasAgg(e.a)
              [] OTHER -> HasAgg(e.a) \/ HasAgg(e.b)

\* ---------- sources: Rows(src, db) = sequence of envs ----------
NullEnv(keys) == [k \in keys |-> NULL]
RECURSIVE Rows(_, _), Keys(_)
Keys(s) == CASE s.t = "table" -> {s.cols[i] : i \in DOMAIN s.cols}
             [] s.t = "join" -> Keys(s.l) \cup Keys(s.r)
\* insertion sort by order spec: seq of [e, desc]; NULLs first ascending (sqlite semantics)
KeyLess(o, x, y) == LET RECURSIVE L(_) L(i) == IF i > Len(o) THEN FALSE ELSE
                       LET a == Val(o[i].e, x, <<>>) b == Val(o[i].e, y, <<>>) IN
                       IF a = b THEN L(i + 1) ELSE IF o[i].desc THEN a > b ELSE a < b
                    IN L(1)
RECURSIVE SortBy(_, _), Insert(_, _, _)
Insert(o, x, s) == IF s = <<>> THEN <<x>> ELSE IF KeyLess(o, Head(s), x) \/ ~KeyLess(o, x, Head(s)) THEN <<Head(s)>> \o Insert(o, x, Tail(s)) ELSE <<x>> \o s
SortBy(o, s) == IF s = <<>> THEN <<>> ELSE Insert(o, Head(s), SortBy(o, Tail(s)))
Rows(s, db) ==
   CASE s.t = "table" -> LET data == db[s.name] IN [i \in DOMAIN data |-> [k \in Keys(s) |-> data[i][CHOOSE j \in DOMAIN s.cols : s.cols[j] = k]]]
     [] s.t = "join" ->
          LET L == Rows(s.l, db) Rr == Rows(s.r, db)
              ok(x, y) == s.kind = "cross" \/ Val(s.on, Merge(x, y), <<>>) = 1
              matched == Flat([i \in DOMAIN L |-> Flat([j \in DOMAIN Rr |-> IF ok(L[i], Rr[j]) THEN <<Merge(L[i], Rr[j])>> ELSE <<>>])])
              lonly == Flat([i \in DOMAIN L |-> IF \E j \in DOMAIN Rr : ok(L[i], Rr[j]) THEN <<>> ELSE <<Merge(L[i], NullEnv(Keys(s.r)))>>])
              ronly == Flat([j \in DOMAIN Rr |-> IF \E i \in DOMAIN L : ok(L[i], Rr[j]) THEN <<>> ELSE <<Merge(NullEnv(Keys(s.l)), Rr[j])>>])
          IN CASE s.kind \in {"inner", "cross"} -> matched
               [] s.kind = "left" -> matched \o lonly
               [] s.kind = "right" -> matched \o ronly
               [] s.kind = "full" -> matched \o lonly \o ronly

\* ---------- query: result = sequence of value tuples ----------
Query(q, db) ==
   LET src == Rows(q.src, db)
       filtered == IF q.where = <<>> THEN src ELSE SelectSeq(src, LAMBDA r : Val(q.where[1], r, <<>>) = 1)
       grouped == q.group # <<>> \/ (\E i \in DOMAIN q.sel : HasAgg(q.sel[i]))
       gkey(r) == [i \in DOMAIN q.group |-> Val(q.group[i], r, <<>>)]
       gkeys == Dedup([i \in DOMAIN filtered |-> gkey(filtered[i])])
       groups == IF q.group = <<>> THEN << filtered >>
                 ELSE [g \in DOMAIN gkeys |-> SelectSeq(filtered, LAMBDA r : gkey(r) = gkeys[g])]
       \* each unit = [env, grp]
       units == IF grouped THEN [g \in DOMAIN groups |-> [env |-> IF groups[g] = <<>> THEN NullEnv(Keys(q.src)) ELSE groups[g][1], grp |-> groups[g]]]
                ELSE [i \in DOMAIN filtered |-> [env |-> filtered[i], grp |-> <<>>]]
       having == IF q.having = <<>> THEN units ELSE SelectSeq(units, LAMBDA u : Val(q.having[1], u.env, u.grp) = 1)
       ordered == IF q.order = <<>> THEN having
                  ELSE LET envs == [i \in DOMAIN having |-> having[i].env] IN
                       \* order keys here are non-aggregate expressions over env; keep unit with env
                       LET RECURSIVE S(_), ins(_, _)
                           ins(x, s) == IF s = <<>> THEN <<x>> ELSE IF ~KeyLess(q.order, x.env, Head(s).env) THEN <<Head(s)>> \o ins(x, Tail(s)) ELSE <<x>> \o s
                           S(s) == IF s = <<>> THEN <<>> ELSE ins(Head(s), S(Tail(s)))
                       IN S(having)
       limited == IF q.limit < 0 THEN ordered ELSE SubSeq(ordered, q.offset + 1, IF q.offset + q.limit < Len(ordered) THEN q.offset + q.limit ELSE Len(ordered))
   IN [i \in DOMAIN limited |-> [j \in DOMAIN q.sel |-> Val(q.sel[j], limited[i].env, limited[i].grp)]]

\* ---------- batch validation ----------
VARIABLE k
Init == k = 0
Next == k < Len(Obs) /\ k' = k + 1
Spec == Init /\ [][Next]_k
Accept(o) == LET exp == Query(o.q, o.db) IN IF o.ordered THEN exp = o.rows ELSE BagEq(exp, o.rows)
Check == k > 0 => (Accept(Obs[k]) \/ PrintT(<<"REJECT", k, Query(Obs[k].q, Obs[k].db)>>))
Post == PrintT(<<"DONE", Len(Obs)>>)
====
