SPECIFICATION Spec
INVARIANT Check
POSTCONDITION Post
CHECK_DEADLOCK FALSE
