from forml.io import dsl
class A(dsl.Schema):
    x = dsl.Field(dsl.Integer())
    k = dsl.Field(dsl.Integer())
class B(dsl.Schema):
    y = dsl.Field(dsl.Integer())
    k = dsl.Field(dsl.Integer())
p = (A.x == 1) & (B.y == 2)
try:
    print('factors and', dict(p.factors))
except Exception as e: print('ERR and', type(e), e)
p = (A.x == 1) | (B.y == 2)
try:
    print('factors or', dict(p.factors))
except Exception as e: print('ERR or', type(e), e)
p = ~(A.x == 1)
print('factors not', dict(p.factors))
p = (A.x == 1) | ((A.x==3) & (B.y == 2))
try:
    print('factors or2', dict(p.factors))
except Exception as e: print('ERR or', type(e), e)
print(bool(dsl.Literal(-1)==dsl.Literal(-2)), bool(dsl.Literal(0)==dsl.Literal(2**61-1)), bool(A.x == B.y), bool(A.k==B.k))
q1=A.where(A.x==-1); q2=A.where(A.x==-2)
print(q1==q2, hash(q1)==hash(q2))
