SPECIFICATION Spec
CONSTANTS MaxW = 7
 K = 4
 Rule = "maxdef"
INVARIANT NeverFails
INVARIANT ShareBound
CHECK_DEADLOCK FALSE
