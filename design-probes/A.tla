---- MODULE A ----
EXTENDS Integers, Sequences, FiniteSets, TLC
CONSTANTS MaxW, K, Rule
\* weights: non-increasing sequences of K integers in 1..MaxW (slots sorted by target descending)
VARIABLES w, d, started
Slots == 1..K
W == LET RECURSIVE S(_) S(i) == IF i > K THEN 0 ELSE w[i] + S(i + 1) IN S(1)
Init == /\ w \in {v \in [Slots -> 1..MaxW] : \A i \in 1..(K-1) : v[i] >= v[i+1]}
        /\ d = [i \in Slots |-> 0] /\ started = FALSE
\* deficit before the request n: d[i] = w[i]*(n-1) - W*count[i]; eligible(i) iff d[i] + w[i] > 0
Elig(i) == d[i] + w[i] > 0
FirstEligible == IF \E i \in Slots : Elig(i) THEN {CHOOSE i \in Slots : Elig(i) /\ \A j \in 1..(i-1) : ~Elig(j)} ELSE {}
MaxDeficit == {CHOOSE i \in Slots : \A j \in Slots : (d[i] + w[i] > d[j] + w[j]) \/ (d[i] + w[i] = d[j] + w[j] /\ i <= j)}
Pick == IF Rule = "first" THEN FirstEligible ELSE MaxDeficit
Select == \E s \in Pick : d' = [i \in Slots |-> d[i] + w[i] - (IF i = s THEN W ELSE 0)] /\ started' = TRUE /\ UNCHANGED w
Next == Select
Spec == Init /\ [][Next]_<<w, d, started>>
NeverFails == Pick # {}
\* |count_i - n*w_i/W| <= 1  <=>  |d_i| <= W
ShareBound == \A i \in Slots : d[i] <= W /\ -d[i] <= W
====
