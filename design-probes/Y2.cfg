SPECIFICATION Spec
CONSTANTS N = 5
 MaxArgs = 2
INVARIANT Export
CHECK_DEADLOCK FALSE
