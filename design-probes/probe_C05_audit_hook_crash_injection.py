import sys, os, pathlib, tempfile, uuid, warnings, shutil, datetime
warnings.simplefilter('ignore')
events=[]; crash_at=[None]
class Crash(BaseException): pass
FS={'open','os.mkdir','os.rename','os.remove','os.rmdir','shutil.copytree','shutil.copyfile','os.scandir','os.listdir'}
root=[None]
def hook(ev,args):
    if ev in FS and root[0] and any(isinstance(a,(str,bytes,os.PathLike)) and str(a).startswith(root[0]) for a in args[:2]):
        if ev in ('os.scandir','os.listdir'): return
        if ev=='open' and not any(c in str(args[1]) for c in 'wa+x'): return
        events.append((ev,)+tuple(str(a).replace(root[0],'') for a in args[:2]))
        if crash_at[0] is not None and len(events)==crash_at[0]: raise Crash()
sys.addaudithook(hook)
from forml.io import asset
from forml.provider.registry.filesystem import posix
def scenario(k):
    d=tempfile.mkdtemp(); root[0]=d; events.clear(); crash_at[0]=k
    reg=posix.Registry(d)
    try:
        # simulate release dir with package file
        rel=pathlib.Path(d)/'prj'/'1'; rel.mkdir(parents=True); (rel/'package.4ml').write_bytes(b'x')
        directory=asset.Directory(reg)
        release=directory.get('prj').get('1')
        s1=release.dump(b'state1'); s2=release.dump(b'state2')
        tag=asset.Tag(training=asset.Tag.Training(datetime.datetime(2024,1,1),1), states=[s1,s2])
        release.put(tag)
        res='done'
    except Crash: res='crash'
    crash_at[0]=None
    # fresh reader
    from forml.io.asset._directory.level import minor, major
    minor.TAGS.clear(); minor.STATES.clear()
    d2=asset.Directory(posix.Registry(d))
    try:
        gens=list(d2.get('prj').get('1').list())
        info=[]
        for g in gens:
            try:
                t=d2.get('prj').get('1').get(g).tag; info.append((int(g), len(t.states)))
            except Exception as e: info.append((int(g),'ERR '+type(e).__name__))
    except Exception as e: info='LISTERR '+type(e).__name__
    n=len(events); shutil.rmtree(d); root[0]=None
    return res,n,info
res,n,info=scenario(None); print('full',res,n,info); print(events)
for k in range(1,n+1): print(k, scenario(k))
