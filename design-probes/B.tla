---- MODULE B ----
EXTENDS Naturals, Sequences, TLC, Json, IOUtils, TLCExt
\* batch validation probe: traces of counter events; per-trace verdict via TLCSet registers
Batch == JsonDeserialize(IOEnv.TRACE_FILE)
VARIABLES tid, l, c
Nil == [tag |-> "nil", label |-> "", args |-> <<>>]
App(lbl, a) == [tag |-> "app", label |-> lbl, args |-> a]
Init == tid \in 1..Len(Batch.traces) /\ l = 1 /\ c = 0
Tr == Batch.traces[tid]
Inc == l <= Len(Tr) /\ Tr[l].ev = "inc" /\ c' = c + 1 /\ c' = Tr[l].c /\ l' = l + 1 /\ UNCHANGED tid
Rst == l <= Len(Tr) /\ Tr[l].ev = "rst" /\ c' = 0 /\ l' = l + 1 /\ UNCHANGED tid
Next == Inc \/ Rst
Spec == Init /\ [][Next]_<<tid,l,c>>
\* record furthest position per trace
Track == TLCSet(tid, IF TLCGet(tid) < l THEN l ELSE TLCGet(tid))
Reg == \A i \in 1..Len(Batch.traces) : TLCSet(i, 0)
Post == \A i \in 1..Len(Batch.traces) : PrintT(<<"VERDICT", i, TLCGet(i) - 1, Len(Batch.traces[i])>>)
TermEq == App("a", <<Nil, App("b", <<>>)>>) # App("a", <<Nil>>) /\ App("a", <<Nil>>) = App("a", <<Nil>>)
ASSUME TermEq
ASSUME Reg
====
