---- MODULE P ----
EXTENDS Naturals, Sequences, FiniteSets, TLC
CONSTANTS MaxN, MaxOut, MaxIn

\* ---------- terms (uniform record shape) ----------
Nil == [tag |-> "nil", id |-> 0, args |-> <<>>]
T(tag, id, args) == [tag |-> tag, id |-> id, args |-> args]

\* ---------- graph ----------
\* node: [szin, szout, grp, trained, ins] ; ins = sequence of <<pub, idx>> (apply inputs, or <<train,label>> sources for trained)
VARIABLES nodes, sfgrp, pers, phase, visited, index, absl, prel, committer, fresh
vars == <<nodes, sfgrp, pers, phase, visited, index, absl, prel, committer, fresh>>

N == Len(nodes)
Mappers == {n \in 1..N : ~nodes[n].trained}
Outs == {<<n, i>> : n \in Mappers, i \in 1..MaxOut}
ValidOuts == {o \in Outs : o[2] <= nodes[o[1]].szout}
Groups == {nodes[n].grp : n \in 1..N}
TrainedOf(g) == {n \in 1..N : nodes[n].grp = g /\ nodes[n].trained}
Derived(n) == ~nodes[n].trained /\ sfgrp[nodes[n].grp] /\ TrainedOf(nodes[n].grp) # {}
Persistent(g) == \E i \in 1..Len(pers) : pers[i] = g
Offset(g) == CHOOSE i \in 1..Len(pers) : pers[i] = g

Init == /\ nodes = << [szin |-> 0, szout |-> 1, grp |-> 1, trained |-> FALSE, ins |-> <<>>] >>
        /\ sfgrp = [g \in 1..MaxN |-> FALSE]
        /\ pers = <<>> /\ phase = "build" /\ visited = {} /\ index = <<>> /\ absl = <<>> /\ prel = <<>>
        /\ committer = 0 /\ fresh = 1000

SeqsOf(S, k) == [1..k -> S]

AddWorker == /\ phase = "build" /\ N < MaxN
             /\ \E szin \in 1..MaxIn, szout \in 1..MaxOut, sf \in BOOLEAN :
                \E ins \in SeqsOf(ValidOuts, szin) :
                   /\ nodes' = Append(nodes, [szin |-> szin, szout |-> szout, grp |-> N+1, trained |-> FALSE, ins |-> ins])
                   /\ sfgrp' = [sfgrp EXCEPT ![N+1] = sf]
             /\ UNCHANGED <<pers, phase, visited, index, absl, prel, committer, fresh>>

AddFork == /\ phase = "build" /\ N < MaxN
           /\ \E m \in Mappers \ {1} : \E ins \in SeqsOf(ValidOuts, nodes[m].szin) :
                 nodes' = Append(nodes, [nodes[m] EXCEPT !.ins = ins])
           /\ UNCHANGED <<sfgrp, pers, phase, visited, index, absl, prel, committer, fresh>>

RECURSIVE Up(_)
Up(n) == {n} \cup UNION {Up(nodes[n].ins[i][1]) : i \in 1..Len(nodes[n].ins)}
GroupFree(o, g) == \A m \in Up(o[1]) : nodes[m].grp # g
AddTrainer == /\ phase = "build" /\ N < MaxN
              /\ \E g \in Groups : /\ sfgrp[g] /\ TrainedOf(g) = {}
                   /\ \E ts \in ValidOuts, ls \in ValidOuts : GroupFree(ts, g) /\ GroupFree(ls, g) /\
                        nodes' = Append(nodes, [szin |-> 0, szout |-> 0, grp |-> g, trained |-> TRUE, ins |-> <<ts, ls>>])
              /\ UNCHANGED <<sfgrp, pers, phase, visited, index, absl, prel, committer, fresh>>

\* choose persistent list: any sequence without repetition of stateful groups
StatefulGroups == {g \in Groups : sfgrp[g]}
Perms(S) == {s \in UNION {[1..k -> S] : k \in 0..Cardinality(S)} : \A i, j \in DOMAIN s : i # j => s[i] # s[j]}
Finish == /\ phase = "build" /\ N >= 2
          /\ \E p \in Perms(StatefulGroups) :
                /\ LET tr == {i \in DOMAIN p : TrainedOf(p[i]) # {}} IN tr = {} \/ tr = DOMAIN p
                /\ pers' = p
          /\ phase' = "compile"
          /\ UNCHANGED <<nodes, sfgrp, visited, index, absl, prel, committer, fresh>>

\* ---------- denotation of the graph ----------
RECURSIVE Den(_), StateOf(_)
OutTerm(o) == IF nodes[o[1]].szout = 1 THEN Den(o[1]) ELSE T("out", o[2], <<Den(o[1])>>)
PrevState(g) == IF Persistent(g) THEN T("loaded", Offset(g), <<>>) ELSE Nil
StateOf(g) == IF TrainedOf(g) # {} THEN Den(CHOOSE n \in TrainedOf(g) : TRUE) ELSE PrevState(g)
Den(n) == IF nodes[n].trained
          THEN T("st", nodes[n].grp, <<PrevState(nodes[n].grp), OutTerm(nodes[n].ins[1]), OutTerm(nodes[n].ins[2])>>)
          ELSE T("app", n, <<IF sfgrp[nodes[n].grp] THEN StateOf(nodes[n].grp) ELSE Nil>>
                             \o [i \in 1..nodes[n].szin |-> OutTerm(nodes[n].ins[i])])
ExpectedCommit == [i \in 1..Len(pers) |-> IF TrainedOf(pers[i]) # {} THEN T("dumped", 0, <<StateOf(pers[i])>>) ELSE Nil]

\* ---------- CompilerImpl: Table.add transcribed ----------
\* instruction record: [k, node, mode, preset, g]
Ins(k, node, mode, preset, g) == [k |-> k, node |-> node, mode |-> mode, preset |-> preset, g |-> g]
Gid(g) == 100 + g
HasKey(k) == \E i \in 1..Len(index) : index[i].key = k
IdxSet(ix, k, ins) == Append(ix, [key |-> k, ins |-> ins])
IdxDel(ix, k) == SelectSeq(ix, LAMBDA e : e.key # k)
IdxGet(ix, k) == (CHOOSE i \in 1..Len(ix) : ix[i].key = k)
\* linkage: sequence of [ins, pos, arg]
Subscribers(n, i) == {<<m, p>> \in (1..N) \X (1..(IF MaxIn > 2 THEN MaxIn ELSE 2)) : \* p: position among ins of m
                        p <= Len(nodes[m].ins) /\ nodes[m].ins[p] = <<n, i>>}

Visit(n) ==
  LET nd == nodes[n] g == nd.grp state0 == Gid(g)
      persistent == sfgrp[g] /\ Persistent(g)
      needLoader == persistent /\ ~HasKey(state0)
      ix1 == IF needLoader THEN IdxSet(index, state0, Ins("loader", 0, "", FALSE, g)) ELSE index
      trainedP == nd.trained /\ persistent
      mkCommitter == trainedP /\ committer = 0
      ckey == IF mkCommitter THEN fresh ELSE committer
      f1 == IF mkCommitter THEN fresh + 1 ELSE fresh
      ix2 == IF mkCommitter THEN IdxSet(ix1, ckey, Ins("committer", 0, "", FALSE, 0)) ELSE ix1
      dkey == f1
      f2 == IF trainedP THEN f1 + 1 ELSE f1
      ix3 == IF trainedP THEN IdxSet(ix2, dkey, Ins("dumper", 0, "", FALSE, g)) ELSE ix2
      \* reset loader under a new key
      lkey == f2
      f3 == IF trainedP THEN f2 + 1 ELSE f2
      ix4 == IF trainedP THEN IdxSet(IdxDel(ix3, state0), lkey, ix3[IdxGet(ix3, state0)].ins) ELSE ix3
      state == IF trainedP THEN lkey ELSE state0
      preset == sfgrp[g] /\ (persistent \/ Derived(n))
      functor == Ins("fun", n, IF nd.trained THEN "train" ELSE "apply", preset, g)
      ix5 == IF sfgrp[g] /\ nd.trained THEN IdxSet(IdxSet(ix4, n, functor), state0, functor) ELSE IdxSet(ix4, n, functor)
      abs1 == IF trainedP THEN absl \o << [ins |-> dkey, pos |-> 1, arg |-> n], [ins |-> ckey, pos |-> Offset(g), arg |-> dkey] >> ELSE absl
      pre1 == IF preset THEN Append(prel, [ins |-> n, arg |-> state]) ELSE prel
      \* update: register node as argument of subscribers (getters for multi-output)
      single == nd.szout = 1
      gkeys == [i \in 1..nd.szout |-> f3 + i - 1]
      f4 == IF ~nd.trained /\ ~single THEN f3 + nd.szout ELSE f3
      ix6 == IF ~nd.trained /\ ~single
             THEN ix5 \o [i \in 1..nd.szout |-> [key |-> gkeys[i], ins |-> Ins("getter", i, "", FALSE, gkeys[i])]]
             ELSE ix5
      SubLinks(i, src) == LET S == Subscribers(n, i) IN
             \* as a sequence in arbitrary but fixed order
             LET RECURSIVE mk(_)
                 mk(R) == IF R = {} THEN <<>> ELSE LET x == CHOOSE y \in R : TRUE IN
                            <<[ins |-> x[1], pos |-> x[2], arg |-> src]>> \o mk(R \ {x})
             IN mk(S)
      RECURSIVE allLinks(_)
      allLinks(i) == IF i > nd.szout THEN <<>>
                     ELSE (IF single THEN SubLinks(i, n)
                           ELSE <<[ins |-> gkeys[i], pos |-> 1, arg |-> n]>> \o SubLinks(i, gkeys[i])) \o allLinks(i + 1)
      abs2 == IF nd.trained THEN abs1 ELSE abs1 \o allLinks(1)
  IN /\ index' = ix6 /\ absl' = abs2 /\ prel' = pre1 /\ committer' = ckey /\ fresh' = f4
     /\ visited' = visited \cup {n}

Compile == /\ phase = "compile"
           /\ \E n \in (1..N) \ visited : Visit(n)
           /\ phase' = IF visited' = 1..N THEN "done" ELSE "compile"
           /\ UNCHANGED <<nodes, sfgrp, pers>>

Next == AddWorker \/ AddFork \/ AddTrainer \/ Finish \/ Compile
Spec == Init /\ [][Next]_vars

\* ---------- emission + reference evaluation of the table ----------
InsSet == {index[i].ins : i \in 1..Len(index)}
KeysOf(ins) == {index[i].key : i \in {j \in 1..Len(index) : index[j].ins = ins}}
InsOfKey(k) == index[IdxGet(index, k)].ins
\* positional args of an instruction: prefixed (reversed) then absolute merged over all keys
AbsArg(ins, p) == LET L == {i \in 1..Len(absl) : absl[i].ins \in KeysOf(ins) /\ absl[i].pos = p} IN
                  IF L = {} THEN 0 ELSE absl[CHOOSE i \in L : TRUE].arg
AbsCount(ins) == LET P == {absl[i].pos : i \in {j \in 1..Len(absl) : absl[j].ins \in KeysOf(ins)}} IN
                 IF P = {} THEN 0 ELSE CHOOSE m \in P : \A q \in P : q <= m
PreArgs(ins) == LET L == SelectSeq(prel, LAMBDA e : e.ins \in KeysOf(ins)) IN [i \in 1..Len(L) |-> L[Len(L) + 1 - i].arg]
ArgKeys(ins) == PreArgs(ins) \o [p \in 1..AbsCount(ins) |-> AbsArg(ins, p)]
Stub(ins) == ins.k = "getter" /\ ~\E i \in 1..Len(absl) : absl[i].arg \in KeysOf(ins)
NoCollision == \A ins \in InsSet : \A p \in 1..AbsCount(ins) :
                  Cardinality({i \in 1..Len(absl) : absl[i].ins \in KeysOf(ins) /\ absl[i].pos = p}) <= 1

RECURSIVE Ev(_)
Ev(ins) == LET a == ArgKeys(ins) av == [i \in 1..Len(a) |-> IF a[i] = 0 THEN T("MISSING", 0, <<>>) ELSE Ev(InsOfKey(a[i]))] IN
   CASE ins.k = "loader" -> T("loaded", Offset(ins.g), <<>>)
     [] ins.k = "getter" -> T("out", ins.node, av)
     [] ins.k = "dumper" -> T("dumped", 0, av)
     [] ins.k = "committer" -> T("commit", 0, av)
     [] ins.k = "fun" /\ ins.mode = "apply" -> T("app", ins.node, IF ins.preset THEN av ELSE <<Nil>> \o av)
     [] ins.k = "fun" /\ ins.mode = "train" -> T("st", ins.g, IF ins.preset THEN av ELSE <<Nil>> \o av)

FunOf(n) == CHOOSE ins \in InsSet : ins.k = "fun" /\ ins.node = n
Sound == phase = "done" =>
           /\ NoCollision
           /\ \A n \in 1..N : Cardinality({ins \in InsSet : ins.k = "fun" /\ ins.node = n}) = 1
           /\ \A n \in 1..N : Ev(FunOf(n)) = Den(n)
           /\ (committer # 0 => Ev(InsOfKey(committer)).args =
                   [i \in 1..Len(pers) |-> IF TrainedOf(pers[i]) # {} THEN ExpectedCommit[i] ELSE T("MISSING", 0, <<>>)])
View == <<nodes, sfgrp, pers, phase, visited, index, absl, prel, committer>>
====
