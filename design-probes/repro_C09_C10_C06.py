import warnings; warnings.simplefilter('ignore')
import sqlalchemy
from forml import io
from forml.io import dsl
from forml.provider.feed import alchemy
from forml.provider.feed.reader import alchemy as ralch
class A(dsl.Schema):
    x = dsl.Field(dsl.Integer()); k = dsl.Field(dsl.Integer())
class B(dsl.Schema):
    y = dsl.Field(dsl.Integer()); k = dsl.Field(dsl.Integer())
J = A.inner_join(B, A.k == B.k)
class F(io.Feed):
    Reader = ralch.Reader
    def __init__(self, srcs): super().__init__(); self._s=srcs
    @property
    def sources(self): return self._s
f1 = F({J: sqlalchemy.table('ab')})
imp = io.Importer(f1)
stmt = J.select(A.x, B.y)
print('match ->', imp.match(stmt))
try:
    with ralch.Parser(f1.sources, {}) as v:
        stmt.accept(v); print(v.fetch())
except Exception as e: print('parser ERR', type(e).__name__, e)
# C10 falsy
from forml.io._input import extract
p = extract.Statement.Prepared(A.select(A.x), None)
for lo in (0, 1):
    try: p(lo, None); print('lower',lo,'accepted on non-ordinal')
    except Exception as e: print('lower',lo,'refused', type(e).__name__)
# 2-table where
try:
    with ralch.Parser({A: sqlalchemy.table('a'), B: sqlalchemy.table('b')}, {}) as v:
        J.select(A.x).where((A.x == 1) & (B.y == 2)).accept(v); print(v.fetch())
except Exception as e: print('2-table where ERR', type(e).__name__, e)
