SPECIFICATION Spec
CONSTANTS MaxN = 4
 MaxOut = 2
 MaxIn = 2
INVARIANT Sound
VIEW View
CHECK_DEADLOCK FALSE
