import itertools, warnings
warnings.simplefilter('ignore')
from forml.application import _strategy as S
worst=(0,None)
for k in range(2,6):
    for ws in itertools.combinations_with_replacement(range(1,8),k):
        variants=[S.ABTest.Variant('p','1',i+1,w) for i,w in enumerate(ws)]
        ab=S.ABTest(*variants)
        W=sum(ws)
        for n in range(1,3*W+1):
            ab._total+=1
            for slot in ab._slots:
                if slot.eligible(ab._total): break
            else:
                print('FAIL no eligible',ws,n); break
            slot.count+=1
            for s in ab._slots:
                dev=abs(s.count - s.target*n)
                if dev>worst[0]: worst=(dev,(ws,n,[(x.variant.target,x.count) for x in ab._slots]))
print(worst)
