import asyncio, sys, warnings, time, shutil, os
warnings.simplefilter('ignore')
import vlib
from forml import io, project as prj
from forml.io import asset, layout
from forml.provider.registry.filesystem import posix
from forml.provider.runner import dask as daskr
from forml.runtime import _service
if __name__=='__main__':
    shutil.rmtree('/tmp/e2e/reg', ignore_errors=True)
    reg=posix.Registry('/tmp/e2e/reg')
    d=asset.Directory(reg)
    d.get('vproj').put(prj.Package('/tmp/e2e/pkg'))
    feed=vlib.Feed()
    for i in range(2):
        inst=asset.Instance('vproj','1',None,d)
        daskr.Runner(inst, feed, None, scheduler='synchronous').train()
    print('gens', list(d.get('vproj').get('1').list()), d.get('vproj').get('1').get(2).tag.states)
    inv=vlib.Inventory([vlib.Desc('app1','vproj','1',1), vlib.Desc('app2','vproj','1',2)])
    async def main():
        eng=_service.Engine(inv, reg, io.Importer(feed), processes=2)
        csv=layout.Encoding('text/csv')
        def req(rid, delay): return layout.Request(f'rid,delay\n{rid},{delay}\n'.encode(), csv, {}, [csv])
        t=time.time()
        try:
            res=await asyncio.gather(*[eng.apply('app1' if i%2 else 'app2', req(i, (7*i)%50)) for i in range(12)], return_exceptions=True)
            for i,r in enumerate(res):
                print(i, r.payload.data if hasattr(r,'payload') else repr(r), getattr(r,'instance',None))
            r=await asyncio.gather(eng.apply('nope', req(99,0)), eng.apply('app1', req(100,0)), return_exceptions=True)
            print(r[0].__class__.__name__, r[1].payload.data)
            bad=layout.Request(b'foo\n1\n', csv, {}, [csv])
            r=await asyncio.gather(eng.apply('app1', bad), eng.apply('app1', req(101,0)), return_exceptions=True)
            print(repr(r[0])[:100], r[1].payload.data if hasattr(r[1],'payload') else repr(r[1]))
        finally:
            eng.shutdown()
        print('wall', time.time()-t)
    asyncio.run(main())
