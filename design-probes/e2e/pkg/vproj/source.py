from forml import project
import vlib
project.setup(project.Source.query(vlib.T.select(vlib.T.rid, vlib.T.delay), vlib.T.y))
