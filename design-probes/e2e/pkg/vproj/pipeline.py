from forml import project
from forml.pipeline import wrap
import vlib
Op = wrap.Operator.apply(vlib.Model)
project.setup(Op(marker='m1'))
