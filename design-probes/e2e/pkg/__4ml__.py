NAME = 'vproj'
VERSION = '1'
PACKAGE = 'vproj'
MODULES = {}
