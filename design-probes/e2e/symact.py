from forml import flow
class F(flow.Actor):
    def __init__(self, name): self.name=name
    def apply(self, *a): return (self.name,)+tuple(a)
    def get_params(self): return {'name': self.name}
class Sink(flow.Actor):
    def __init__(self, path): self.path=path
    def apply(self, *a):
        open(self.path,'a').write(repr(a)+'\n'); return a
def mk(name, szin=1, szout=1, cls=F):
    return flow.Worker(cls.builder(name), szin, szout)
