import sys, os, warnings
warnings.simplefilter('ignore')
from forml import flow
from forml.provider.runner import dask as daskr
import symact
from symact import mk
out='/tmp/hmod/out.txt'
if __name__=='__main__':
    for sched in ('synchronous','threads','processes'):
        if os.path.exists(out): os.remove(out)
        h=mk('H'); a=mk('A'); b=mk('B'); b2=mk('B2'); c=mk('A'); z=mk(out,2,1,symact.Sink)
        a[0].subscribe(h[0]); c[0].subscribe(h[0])
        b[0].subscribe(a[0]); b2[0].subscribe(b[0])
        z[0].subscribe(c[0]); z[1].subscribe(b2[0])
        syms=flow.compile(flow.Segment(h,z))
        import dask
        with dask.config.set(scheduler=sched):
            daskr.Runner.run(syms)
        print(sched, open(out).read().strip())
    