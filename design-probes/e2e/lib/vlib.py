import time, typing
from forml import io, flow, application as appmod
from forml.io import dsl, layout, asset
from forml.io.dsl import parser as parsmod
class T(dsl.Schema):
    rid = dsl.Field(dsl.Integer())
    delay = dsl.Field(dsl.Integer())
    y = dsl.Field(dsl.Integer())
TRAIN = ((1,0,5),(2,0,7))
class Feed(io.Feed[str,str]):
    class Reader(io.Feed.Reader[str,str,layout.RowMajor]):
        class Parser(parsmod.Visitor[str,str]):
            resolve_feature = generate_alias = generate_expression = generate_join = generate_literal = generate_set = lambda *_: ''
            generate_reference = lambda *_: ('','')
            def generate_element(self, origin, element): return f'{origin}-{element}'
            def generate_query(self, source, features, where, groupby, having, orderby, rows): return f'n{len(features)}'
        @classmethod
        def parser(cls, sources, features): return cls.Parser(sources, features)
        @classmethod
        def read(cls, statement, **kw):
            return TRAIN if statement=='n3' else tuple(r[:2] for r in TRAIN)
    @property
    def sources(self): return {T: 't'}
class Model(flow.Actor):
    def __init__(self, marker='m'): self.marker=marker; self.state=None
    def train(self, x, y): self.state=('trained', self.marker, sum(int(v) for v in y))
    def apply(self, x):
        rows=[tuple(r) for r in x]
        for r in rows: time.sleep(int(r[1])/1000.0)
        return [(int(r[0]), self.state[2]) for r in rows]
    def get_params(self): return {'marker': self.marker}
    def set_params(self, marker): self.marker=marker
class Desc(appmod.Descriptor):
    def __init__(self, name, project, release, generation):
        self._name=name; self._sel=appmod.Explicit(project, release, generation)
    @property
    def name(self): return self._name
    def receive(self, request):
        return layout.Request.Decoded(layout.get_decoder(request.payload.encoding).loads(request.payload.data), None)
    def select(self, registry, context, stats): return self._sel.select(registry, context, stats)
    def respond(self, outcome, encoding, context):
        enc=layout.get_encoder(*encoding); return layout.Payload(enc.dumps(outcome), enc.encoding)
class Inventory(asset.Inventory):
    def __init__(self, ds): self._c={d.name:d for d in ds}
    def list(self): return self._c.keys()
    def get(self, a): return self._c[a]
    def put(self, d): raise NotImplementedError
