from forml import flow
from forml.provider.runner import pyfunc
from forml.pipeline import wrap

class F(flow.Actor):
    def __init__(self, name): self.name=name
    def apply(self, *a): return (self.name,)+a
    def get_params(self): return {'name': self.name}

def mk(name, szin=1, szout=1):
    return flow.Worker(F.builder(name), szin, szout)

a=mk('A'); b=mk('B'); b2=mk('B2'); c=mk('C'); z=mk('Z',2,1)
b[0].subscribe(a[0]); b2[0].subscribe(b[0]); c[0].subscribe(a[0])
z[0].subscribe(c[0]); z[1].subscribe(b2[0])
seg=flow.Segment(a,z)
syms=flow.compile(seg)
for s in syms: print(s)
e=pyfunc.Expression(syms)
print(e)
print(e('x'))
