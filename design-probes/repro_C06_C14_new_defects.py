"""Standalone reproductions of the defects found while building the C06 / C14 checks (run: cd /tmp &&
PYTHONPATH=/repo /venv/bin/python -W ignore /verif/design-probes/repro_C06_C14_new_defects.py)."""
import sqlalchemy
from forml.io import dsl
from forml.io.dsl import function
from forml.provider.feed.reader import alchemy


class A(dsl.Schema):
    i = dsl.Field(dsl.Integer())
    k = dsl.Field(dsl.Integer())
    b = dsl.Field(dsl.Boolean())


class B(dsl.Schema):
    i = dsl.Field(dsl.Integer())
    k = dsl.Field(dsl.Integer())


class Hints(alchemy.Parser):
    def generate_table(self, table, features, predicate):
        print('      generate_table(%s, %s, %s)' % (table, sorted(f.name for f in features), predicate))
        return table


def sql(stmt, parser=alchemy.Parser):
    with parser({A: sqlalchemy.table('a'), B: sqlalchemy.table('b')}, {}) as visitor:
        stmt.accept(visitor)
        return ' '.join(str(visitor.fetch().compile(compile_kwargs={'literal_binds': True})).split())


def show(title, fn):
    try:
        print(f'{title}\n   -> {fn()}')
    except Exception as exc:  # pylint: disable=broad-except
        print(f'{title}\n   -> {type(exc).__name__}: {exc}')


r = A.reference('r')
s = A.select(A.i.alias('n')).reference('s')
u = A.select(A.i, A.k).union(B.select(B.i, B.k)).reference('u')
print('--- C06')
show('Not rendered by python: ~(A.k == 1)', lambda: sql(A.select(A.i).where(~(A.k == 1))))
show('Not rendered by python: ~(A.k > 1)', lambda: sql(A.select(A.i).where(~(A.k > 1))))
show('Abs rendered by python', lambda: sql(A.select(function.Abs(A.i).alias('x'))))
show('boolean column as predicate', lambda: sql(A.select(A.i).where(A.b)))
show('table column vs reference element', lambda: sql(A.inner_join(r, A.i > r.i).select(A.i)))
show('one reference in two query contexts', lambda: sql(s.select(s.n).union(s.select(s.n).where(s.n == 2))))
show('select-all over a reference of a set', lambda: sql(u.where(u.k == 2)))
show('cross join', lambda: sql(A.cross_join(B).select(A.i, B.i)))
show('two-table And', lambda: sql(A.inner_join(B, A.i < B.i).select(A.i).where((A.k == 1) & (B.k == 2))))
print('--- C14 (hints offered to generate_table)')
show('Not keeps the un-negated factor', lambda: sql(A.select(A.i).where(~(A.k == 1)), Hints))
show('Or keeps a one-sided factor', lambda: sql(A.inner_join(B, A.i < B.i).select(A.i).where((A.k == 1) | (A.i < B.k)), Hints))
show('equality join condition not registered', lambda: sql(A.inner_join(B, A.i == B.i).select(A.k, B.k), Hints))
show('join-condition factor offered for the preserved side of a LEFT join',
     lambda: sql(A.left_join(B, (A.k == 1) & (A.i < B.i)).select(A.i, B.k), Hints))
show('IS NULL where-factor offered for the NULL-supplying side', lambda: sql(A.left_join(B, A.i < B.i).select(A.i).where(function.IsNull(B.k)), Hints))
show('columns used through a reference are not offered', lambda: sql(r.select(r.i), Hints))
show('filter of the direct table offered for the table under its reference',
     lambda: sql(A.inner_join(r, A.k == r.k).select(A.i, r.i).where(A.i == 1), Hints))
