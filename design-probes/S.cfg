SPECIFICATION Spec
CONSTANTS NReq = 5
 NWorkers = 2
 Apps <- Apps5
 BadReq = {4}
 MissReq = {3}
INVARIANT NoCross
INVARIANT FailAlone
INVARIANT Good
PROPERTY AllAnswered
CHECK_DEADLOCK FALSE
