import re, warnings, collections
warnings.simplefilter('ignore')
from forml import flow
from forml.provider.runner import pyfunc
class F(flow.Actor):
    def __init__(self, name): self.name=name
    def apply(self, *a): return ('app', self.name, tuple(a))
    def get_params(self): return {'name': self.name}
def ref(dag, n):
    return ('app', n, (('in',),)) if n==1 else ('app', n, tuple(ref(dag, a) for a in dag[n-1]))
res=collections.Counter(); mism=[]
for line in open('/tmp/tl/vec.txt'):
    m=re.match(r'<<"VEC", (<<.*>>), "(\w+)">>', line.strip())
    dag=eval(m.group(1).replace('<<','[').replace('>>',']')); verdict=m.group(2)
    # build symbols directly (uninterpreted instructions): use functors
    ins={n: flow.Functor(F.builder(n), flow.Apply()) for n in range(1,len(dag)+1)}
    syms=[flow.Symbol(ins[n], [ins[a] for a in dag[n-1]]) for n in ins]
    try:
        e=pyfunc.Expression(syms)
    except IndexError: obs='build'
    else:
        try:
            v=e(('in',)); obs='ok' if v==ref(dag,len(dag)) else 'wrong'
        except IndexError: obs='eval'
        except AssertionError: obs='eval'
    res[(verdict,obs)]+=1
    if verdict!=obs: mism.append((dag,verdict,obs))
print(res); print(mism[:5])
