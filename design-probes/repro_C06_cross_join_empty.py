import warnings; warnings.simplefilter('ignore')
import sqlite3, sqlalchemy, pandas
print('sqlite', sqlite3.sqlite_version)
from forml.io import dsl
from forml.provider.feed.reader import alchemy as ralch
class A(dsl.Schema):
    x = dsl.Field(dsl.Integer())
class B(dsl.Schema):
    y = dsl.Field(dsl.Integer())
eng=sqlalchemy.create_engine('sqlite://')
with eng.connect() as c:
    c.execute(sqlalchemy.text('create table a (x int)')); c.execute(sqlalchemy.text('create table b (y int)'))
    c.execute(sqlalchemy.text('insert into a values (1),(2)'))
    with ralch.Parser({A: sqlalchemy.table('a'), B: sqlalchemy.table('b')}, {}) as v:
        A.cross_join(B).select(A.x, B.y).accept(v); q=v.fetch()
    print(q)
    print(pandas.read_sql(q, c))
