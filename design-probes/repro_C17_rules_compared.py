import itertools
from fractions import Fraction as Fr
def run(ws, rule, N=None):
    W=sum(ws); k=len(ws)
    order=sorted(range(k), key=lambda i:-ws[i])
    cnt=[0]*k; worst=0
    for n in range(1,(N or 3*W)+1):
        if rule=='first':
            for i in order:
                if Fr(cnt[i],n) < Fr(ws[i],W): break
        else:
            i=max(order, key=lambda i: Fr(ws[i]*n,W)-cnt[i])
        cnt[i]+=1
        worst=max(worst, max(abs(cnt[j]-Fr(ws[j]*n,W)) for j in range(k)))
    return worst
for rule in ('first','maxdef'):
    w=(0,None)
    for k in range(2,7):
        for ws in itertools.combinations_with_replacement(range(1,8),k):
            d=run(ws,rule)
            if d>w[0]: w=(d,ws)
    print(rule, float(w[0]), w[1])
w=(0,None)
for ws in itertools.combinations_with_replacement(range(1,30),2):
    d=run(ws,'first')
    if d>w[0]: w=(d,ws)
print('2var first', float(w[0]), w[1])
import random
random.seed(1)
w=(0,None)
for _ in range(3000):
    k=random.randint(3,6)
    ws=tuple(sorted(random.randint(1,60) for _ in range(k)))
    d=run(ws,'maxdef',N=2*sum(ws))
    if d>w[0]: w=(d,ws); print(float(d),ws)
