SPECIFICATION Spec
VIEW View
CONSTRAINT Bound
INVARIANT Export
