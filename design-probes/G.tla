---- MODULE G ----
EXTENDS Naturals, Sequences, TLC, Json, FiniteSets
VARIABLES edges, hist
N == 1..3
Init == edges = {} /\ hist = <<>>
Add(a,b) == a # b /\ <<a,b>> \notin edges /\ edges' = edges \cup {<<a,b>>} /\ hist' = Append(hist, [op |-> "add", a |-> a, b |-> b])
Next == \E a,b \in N : Add(a,b)
Spec == Init /\ [][Next]_<<edges,hist>>
View == edges
Bound == Cardinality(edges) <= 2
Export == Cardinality(edges) = 2 => PrintT(ToJson([hist |-> hist, n |-> Cardinality(edges)]))
====
