SPECIFICATION Spec
CONSTANTS N = 5
 MaxArgs = 2
INVARIANT ConstructOKExceptHead
INVARIANT EvalOK
CHECK_DEADLOCK FALSE
