---- MODULE Y ----
EXTENDS Naturals, Sequences, FiniteSets, TLC
CONSTANTS N, MaxArgs
\* DAG: node 1 = single source (no args); node i > 1 has 1..MaxArgs args among nodes < i; node N = tail;
\* every node < N is consumed by someone.
VARIABLE dag
Nodes == 1..N
ArgSeqs(i) == UNION {[1..k -> 1..(i-1)] : k \in 1..MaxArgs}
Consumed(d, n) == \E m \in Nodes : \E j \in DOMAIN d[m] : d[m][j] = n
Init == dag \in {d \in [Nodes -> UNION {ArgSeqs(i) : i \in 2..N} \cup {<<>>}] :
                    /\ d[1] = <<>>
                    /\ \A i \in 2..N : d[i] \in ArgSeqs(i)
                    /\ \A n \in 1..(N-1) : Consumed(d, n)}
Next == UNCHANGED dag
Spec == Init /\ [][Next]_dag

T(tag, id, args) == [tag |-> tag, id |-> id, args |-> args]
\* ---------- reference ----------
RECURSIVE Ref(_)
Ref(n) == IF n = 1 THEN T("app", 1, <<T("in", 0, <<>>)>>) ELSE T("app", n, [j \in DOMAIN dag[n] |-> Ref(dag[n][j])])

\* ---------- pyfunc _order ----------
\* level = longest distance from the tail
RECURSIVE Level(_)
Consumers(n) == {m \in Nodes : \E j \in DOMAIN dag[m] : dag[m][j] = n}
Level(n) == IF n = N THEN 0 ELSE LET L == {Level(m) + 1 : m \in Consumers(n)} IN CHOOSE x \in L : \A y \in L : y <= x
\* first-visit DFS preorder from the tail over args left to right
RECURSIVE Pre(_, _), PreList(_, _)
PreList(ns, seen) == IF ns = <<>> THEN seen ELSE PreList(Tail(ns), Pre(Head(ns), seen))
Pre(n, seen) == LET s1 == IF \E i \in DOMAIN seen : seen[i] = n THEN seen ELSE Append(seen, n) IN PreList(dag[n], s1)
PreOrder == Pre(N, <<>>)
\* stable sort by level descending
RECURSIVE InsSorted(_, _)
InsSorted(x, s) == IF s = <<>> THEN <<x>> ELSE IF Level(Head(s)) >= Level(x) THEN <<Head(s)>> \o InsSorted(x, Tail(s)) ELSE <<x>> \o s
RECURSIVE SortAll(_, _)
SortAll(src, acc) == IF src = <<>> THEN acc ELSE SortAll(Tail(src), InsSorted(Head(src), acc))
Order == SortAll(PreOrder, <<>>)

\* ---------- Expression.__init__: provider deques ----------
Uses(n) == LET RECURSIVE C(_) C(m) == IF m > N THEN 0 ELSE Cardinality({j \in DOMAIN dag[m] : dag[m][j] = n}) + C(m + 1) IN C(1)
\* expression terms: [k, n, subs]; k in raw, chain, zip, push, pop ; "ERR" marks construction failure
X(k, n, subs) == [k |-> k, n |-> n, subs |-> subs]
Fork(term, n) == IF Uses(n) > 1 THEN <<X("push", n, <<term>>)>> \o [i \in 1..(Uses(n) - 1) |-> X("pop", n, <<>>)] ELSE <<term>>
\* prov: function node -> sequence of terms ; step over Order[2..]
RECURSIVE Build(_, _, _)
\* returns [prov, err]
PopArgs(args, prov) == \* returns [ok, terms, prov]
   LET RECURSIVE P(_, _, _)
       P(i, acc, pv) == IF i > Len(args) THEN [ok |-> TRUE, terms |-> acc, prov |-> pv]
                        ELSE IF pv[args[i]] = <<>> THEN [ok |-> FALSE, terms |-> acc, prov |-> pv]
                        ELSE P(i + 1, Append(acc, Head(pv[args[i]])), [pv EXCEPT ![args[i]] = Tail(@)])
   IN P(1, <<>>, prov)
Build(i, prov, err) == IF err \/ i > Len(Order) THEN [prov |-> prov, err |-> err]
   ELSE LET n == Order[i] pa == PopArgs(dag[n], prov) IN
        IF ~pa.ok \/ pa.prov[n] = <<>> THEN [prov |-> prov, err |-> TRUE]
        ELSE LET raw == Head(pa.prov[n])
                 term == IF Len(pa.terms) > 1 THEN X("zip", n, pa.terms) ELSE X("chain", n, pa.terms)
                 pv2 == [pa.prov EXCEPT ![n] = Tail(@) \o Fork(term, n)]
             IN Build(i + 1, pv2, FALSE)
Prov0 == [n \in Nodes |-> <<X("raw", n, <<>>)>>]
Built == Build(2, Prov0, Order[1] # 1)
BuildOK == ~Built.err /\ Len(Built.prov[N]) = 1

\* ---------- evaluation machine (functional threading of the queues) ----------
\* returns [v, q, err]; q: function node -> sequence of values
RECURSIVE Ev(_, _)
EvSeq(ts, q) == LET RECURSIVE E(_, _, _)
                    E(i, acc, qq) == IF i > Len(ts) THEN [vs |-> acc, q |-> qq, err |-> FALSE]
                                     ELSE LET r == Ev(ts[i], qq) IN IF r.err THEN [vs |-> acc, q |-> r.q, err |-> TRUE] ELSE E(i + 1, Append(acc, r.v), r.q)
                IN E(1, <<>>, q)
Ev(t, q) == CASE t.k = "raw" -> [v |-> T("app", t.n, <<T("in", 0, <<>>)>>), q |-> q, err |-> FALSE]
              [] t.k \in {"chain", "zip"} -> LET r == EvSeq(t.subs, q) IN [v |-> T("app", t.n, r.vs), q |-> r.q, err |-> r.err]
              [] t.k = "push" -> IF q[t.n] # <<>> THEN [v |-> T("bad", 0, <<>>), q |-> q, err |-> TRUE]
                                 ELSE LET r == Ev(t.subs[1], q) IN
                                      [v |-> r.v, q |-> [r.q EXCEPT ![t.n] = [i \in 1..(Uses(t.n) - 1) |-> r.v]], err |-> r.err]
              [] t.k = "pop" -> IF q[t.n] = <<>> THEN [v |-> T("bad", 0, <<>>), q |-> q, err |-> TRUE]
                                ELSE [v |-> Head(q[t.n]), q |-> [q EXCEPT ![t.n] = Tail(@)], err |-> FALSE]
Q0 == [n \in Nodes |-> <<>>]
Run == Ev(Built.prov[N][1], Q0)

\* known-finding input classes (as predicates on the DAG)
HeadFanout == Uses(1) > 1
\* requirement
ConstructOK == BuildOK
EvalOK == BuildOK => (~Run.err /\ Run.v = Ref(N) /\ \A n \in Nodes : Run.q[n] = <<>>)
ConstructOKExceptHead == ~HeadFanout => BuildOK
Export == PrintT(<<"VEC", dag, IF ~BuildOK THEN "build" ELSE IF Run.err THEN "eval" ELSE IF Run.v = Ref(N) THEN "ok" ELSE "wrong">>)
====
