SPECIFICATION Spec
INVARIANT FamilyWellFormed
INVARIANT Export
POSTCONDITION Post
CHECK_DEADLOCK FALSE
