------------------------------ MODULE Lifecycle ------------------------------
(***************************************************************************)
(* C04 - persisted states are bound to the actors that produced them, in   *)
(* every mode.  A release holds generations 1..gens; generation g was       *)
(* committed by the g-th training run, which trained every PERSISTENT actor *)
(* incrementally on top of its own state of generation g-1 (non-persistent  *)
(* stateful actors - train-only, label path, splitters - start from         *)
(* scratch).  Loading generation g in any mode gives every persistent actor *)
(* exactly its own state of that generation:                                *)
(*   Gen(x, g): the term x (a value of the first training) as it looks when *)
(*   produced with generation g - every state node s becomes                *)
(*   St(actor, Gen(s, g-1) if s is persistent else Nil, Gen(features), ...) *)
(* An actor is persistent iff its state is used by an application on the   *)
(* apply path (PersistentOf).                                               *)
(***************************************************************************)
EXTENDS Composition
CONSTANTS Pipeline,     \* index into Pipelines
          MaxGen, Depth
VARIABLES gens, hist
vars == <<gens, hist>>

M(sf) == E("mapper", sf, 0, <<>>)
Ap(sf) == E("apply", sf, 0, <<>>)
Tr(sf) == E("train", sf, 0, <<>>)
Lb(sf) == E("label", sf, 0, <<>>)
Sq(l, r) == E("seq", FALSE, 0, <<l, r>>)
MR(a, b) == E("mapreduce", FALSE, 0, <<M(a), M(b)>>)
Stk(bs, k) == E("stack", FALSE, k, bs)
Cu(sf) == E("custom", sf, 0, <<>>)
Pipelines(z) == << Sq(M(TRUE), M(TRUE)),
                   Sq(Sq(M(TRUE), Tr(TRUE)), Ap(TRUE)),
                   Sq(Lb(TRUE), M(TRUE)),
                   MR(TRUE, TRUE),
                   Sq(M(TRUE), MR(TRUE, FALSE)),
                   Sq(MR(TRUE, TRUE), M(TRUE)),
                   Sq(Ap(TRUE), Sq(M(FALSE), M(TRUE))),
                   Stk(<<M(TRUE)>>, 2),
                   Sq(M(TRUE), Stk(<<M(TRUE), Ap(TRUE)>>, 2)),
                   Sq(Sq(Lb(TRUE), Tr(TRUE)), Sq(M(TRUE), MR(FALSE, TRUE))),
                   Sq(Stk(<<Cu(TRUE)>>, 2), Cu(TRUE)),
                   Sq(Cu(TRUE), Stk(<<M(TRUE), Cu(TRUE)>>, 2)) >>
Pipe == Pipelines(0)[Pipeline]
\* the project pipeline is e >> Probe; F its trunk function, C the closed first-training denotation
F == Compose(Probe, ProbeId, Expand(Pipe, 1))
C == After(F, Src)
MetricId == 950
PT == After([a |-> SymA, l |-> SymL, t |-> App(MetricId, Nil, <<SymL, Sub(F.a, Env(SymT, SymT, SymL))>>)], Src)

RECURSIVE PersistentOf(_)
PersistentOf(x) == IF x.tag = "app"
                   THEN (IF x.args[1].tag = "st" THEN {x.args[1]} ELSE {}) \cup UNION {PersistentOf(x.args[i]) : i \in 2..Len(x.args)}
                   ELSE IF x.tag = "out" THEN PersistentOf(x.args[1]) ELSE {}
P == PersistentOf(C.a)
RECURSIVE Gen(_, _)
Gen(x, g) == IF x.tag = "st"
             THEN St(x.id, IF x \in P /\ g > 1 THEN Gen(x, g - 1) ELSE Nil, Gen(x.args[2], g), Gen(x.args[3], g))
             ELSE [x EXCEPT !.args = [i \in DOMAIN x.args |-> Gen(x.args[i], g)]]
SetToSeq(S) == LET RECURSIVE Fn(_) Fn(R) == IF R = {} THEN <<>> ELSE LET x == CHOOSE y \in R : TRUE IN <<x>> \o Fn(R \ {x}) IN Fn(S)

Ev(op, g, res, exp) == [op |-> op, g |-> g, resolved |-> res, expect |-> exp, w |-> "none"]
Init == gens = 0 /\ hist = <<>>
\* a training may be given an ordinal window (none / upper bound / both bounds): it selects the data, it does not change
\* what is persisted where.  The window is a function of the position (no additional states), varying over pipelines.
Window == CASE (Len(hist) + Pipeline) % 3 = 0 -> "none" [] (Len(hist) + Pipeline) % 3 = 1 -> "upper" [] OTHER -> "both"
Train == /\ gens < MaxGen /\ gens' = gens + 1
         /\ hist' = Append(hist, [Ev("train", 0, gens + 1, SetToSeq({Gen(s, gens + 1) : s \in P})) EXCEPT !.w = Window])
\* g = 0 means "latest"
Load(op, g, term) == /\ gens >= 1 /\ g \in 0..gens /\ UNCHANGED gens
                     /\ LET r == IF g = 0 THEN gens ELSE g IN hist' = Append(hist, Ev(op, g, r, <<Gen(term, r)>>))
Apply(g) == Load("apply", g, C.a)
Serve(g) == Load("serve", g, C.a)
Perftrack(g) == Load("perftrack", g, PT.t)
\* the latest generation is loaded while another trainer commits the next one between two state loads: the action must
\* see ONE generation (the old or the new one), never a mixture
Race(op, term) == /\ gens >= 1 /\ gens < MaxGen /\ gens' = gens + 1
                  /\ hist' = Append(hist, Ev(op, 0, gens, <<Gen(term, gens), Gen(term, gens + 1)>>))
\* the first state read of the load meets an I/O error (descriptor limit, stale handle ...): the action may fail - loudly -
\* or deliver the right states; it never goes on with an actor silently left without its state
Fault(op, term) == /\ gens >= 1 /\ UNCHANGED gens
                   /\ hist' = Append(hist, Ev(op, 0, gens, <<Gen(term, gens)>>))
ApplyFault == Fault("apply-fault", C.a)
ServeFault == Fault("serve-fault", C.a)
ApplyRace == Race("apply-race", C.a)
ServeRace == Race("serve-race", C.a)
AnyApply == \E g \in 0..MaxGen : Apply(g)
AnyServe == \E g \in 0..MaxGen : Serve(g)
AnyPerftrack == \E g \in 0..MaxGen : Perftrack(g)
Next == Train \/ AnyApply \/ AnyServe \/ AnyPerftrack \/ ApplyRace \/ ServeRace \/ ApplyFault \/ ServeFault
Spec == Init /\ [][Next]_vars
Bound == Len(hist) <= Depth

\* design-level lemmas on the requirement itself
\* every persistent actor has one state per generation, distinct generations give distinct states (no confusion possible)
Distinct == \A s \in P : \A g1, g2 \in 1..MaxGen : g1 # g2 => Gen(s, g1) # Gen(s, g2)
\* the state an actor receives at generation g was produced on top of its own state of generation g-1
OwnChain == \A s \in P : \A g \in 2..MaxGen : Gen(s, g).args[1] = Gen(s, g - 1) /\ Gen(s, g).id = s.id
NonEmpty == P # {}
Export == (Len(hist) = Depth /\ \E i \in 1..Len(hist) : hist[i].op # "train") => PrintT(ToJson([pipeline |-> Pipe, hist |-> hist]))
=============================================================================
