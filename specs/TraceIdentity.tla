--------------------------- MODULE TraceIdentity ---------------------------
(***************************************************************************)
(* C08, code -> spec.  Validates the key relation MEASURED on the real     *)
(* DSL objects against structural identity.                                *)
(*                                                                         *)
(* An observation is a pair of abstract terms (a, b) of one sort (source / *)
(* feature in the DslAst encoding, schema = <<[name, kind]...>>, kind =    *)
(* [k, names, args]) - b is either a again (built a second time from       *)
(* scratch) or a with exactly one leaf changed - together with what the    *)
(* objects built from them did:                                            *)
(*   eq, eqr   bool(x == y), bool(y == x) (x_eq: the comparison raised)     *)
(*   heq       hash(x) == hash(y)                                          *)
(*   dhit      y found in {x: ...}                 ssize len({x, y})       *)
(*   pk_self   pickle round trip of x is == x and hash-equal to x          *)
(*   pk_b      (pickle round trip of x) == y       (x_pk: pickling raised) *)
(*   a_na / a_ok   reading every public attribute of x, then of y, yields  *)
(*             y's own structure (attribute access is cached by key)       *)
(*   c_na / c_ret_ok / c_hit   the real Reader._parse_statement cache after *)
(*             parsing x: parsing y returns what a fresh reader returns    *)
(*             for y (c_ret_ok); whether it was re-parsed (c_hit) is a      *)
(*             matter of speed, not of identity: measured, never judged    *)
(*   g_na / g_ok   item access x[name] for every output name, then y[name] *)
(*             yields y's own features                                     *)
(*   u_na / u_ok   x still survives a pickle round trip after all that     *)
(* Requirement: with same == (a = b), i.e. structural identity,            *)
(*   eq = eqr = dhit = pk_b = same,  ssize = 1 iff same,  same => heq,     *)
(*   pk_self,  a_ok,  c_ret_ok,  g_ok,  u_ok,                              *)
(*   nothing raises.                                                       *)
(* Unequal structures with colliding hashes (heq without eq) are allowed.  *)
(*                                                                         *)
(* resp: y was built from the same term as x with every literal leaf       *)
(* RESPELLED - another python value that is == to the original one, hashes *)
(* like it and is reflected to the same kind (numpy / pandas scalars read  *)
(* back from data, the sign of a float zero).  Whether such objects are    *)
(* "the same structure" is the implementation's choice, which it announces *)
(* with ==; the requirement "compare equal - AND hash equal - ..., so      *)
(* equal objects are interchangeable as mapping keys" then binds hash,     *)
(* dict, set and pickling to that answer: Eqv = eq instead of same.        *)
(* hash_consistency states the same for every observation: objects that    *)
(* compare equal hash equal and are one mapping key.                       *)
(***************************************************************************)
EXTENDS Integers, Sequences, FiniteSets, TLC, Json, IOUtils, TLCExt
Batch == JsonDeserialize(IOEnv.TRACE_FILE)
N == Len(Batch.obs)
VARIABLES tid
vars == <<tid>>
O == Batch.obs[tid]
Same == O.a = O.b
Eqv == IF O.resp THEN O.eq ELSE Same
Clauses == <<
    [n |-> "eq", ok |-> ~O.x_eq /\ O.eq = Eqv],
    [n |-> "eq_reversed", ok |-> ~O.x_eq /\ O.eqr = Eqv],
    [n |-> "hash", ok |-> Eqv => O.heq],
    [n |-> "dict", ok |-> O.dhit = Eqv],
    [n |-> "set", ok |-> O.ssize = (IF Eqv THEN 1 ELSE 2)],
    [n |-> "pickle", ok |-> ~O.x_pk /\ O.pk_self /\ (O.pk_b = Eqv)],
    [n |-> "attribute_access", ok |-> O.a_na \/ O.a_ok],
    [n |-> "parser_cache", ok |-> O.c_na \/ O.c_ret_ok],
    [n |-> "item_access", ok |-> O.g_na \/ O.g_ok],
    [n |-> "pickle_after_use", ok |-> O.u_na \/ O.u_ok],
    [n |-> "hash_consistency", ok |-> (O.eq \/ O.eqr) => (O.heq /\ O.dhit /\ O.ssize = 1)] >>
\* failing clauses as a bit mask (clause i = bit 2^(i-1)): printed values must stay on one line
RECURSIVE Mask(_)
Mask(i) == IF i = 0 THEN 0 ELSE Mask(i - 1) + (IF Clauses[i].ok THEN 0 ELSE 2 ^ (i - 1))
Failing == Mask(Len(Clauses))
Init == tid \in 1..N
Next == UNCHANGED vars
Spec == Init /\ [][Next]_vars
B(x) == IF x THEN 1 ELSE 0
Judge == TLCSet(tid, <<B(Same), B(Failing = 0), Failing>>)
ASSUME \A i \in 1..N : TLCSet(i, <<>>)
Post == \A i \in 1..N : PrintT(<<"VERDICT", i>> \o TLCGet(i))
=============================================================================
