------------------------------- MODULE Reducer -------------------------------
(***************************************************************************)
(* C12 (apply mode of the stacked ensemble).  The fold models of one base  *)
(* learner all predict for the SAME input: prediction f of record i is     *)
(* preds[f][i]; the records carry index labels `labels[i]` (whatever the   *)
(* serving input carried: not necessarily sorted, not necessarily unique). *)
(* The reducer combines the fold models record by record: output row i is  *)
(* the mean of the NFolds predictions for record i and keeps the record's  *)
(* label and position.  Built row by row.                                  *)
(***************************************************************************)
EXTENDS Naturals, Sequences, TLC, Json
CONSTANTS NRows, NFolds, Values
VARIABLES labels, preds
Folds == 1..NFolds
Init == labels = <<>> /\ preds = [f \in Folds |-> <<>>]
AddRow == /\ Len(labels) < NRows
          /\ \E l \in 0..(NRows - 1), v \in [Folds -> Values] :
                /\ labels' = Append(labels, l)
                /\ preds' = [f \in Folds |-> Append(preds[f], v[f])]
Next == AddRow
Spec == Init /\ [][Next]_<<labels, preds>>
RECURSIVE Sum(_, _)
Sum(i, f) == IF f = 0 THEN 0 ELSE preds[f][i] + Sum(i, f - 1)
\* NFolds times the mean (kept integral)
Sums == [i \in 1..Len(labels) |-> Sum(i, NFolds)]
\* every fold contributes exactly once to every record, and to no other record
Combined == \A i \in 1..Len(labels) : \A f \in Folds : Sums[i] >= preds[f][i]
Export == Len(labels) = NRows => PrintT(ToJson([labels |-> labels, preds |-> preds, sums |-> Sums]))
=============================================================================
