------------------------------- MODULE Config -------------------------------
(***************************************************************************)
(* C20 (configuration layering).  A Config object is created from a first  *)
(* source and updated with further sources (files read in order, update()  *)
(* calls); `cur` is what the as-is recursive merge makes of it, `stack`    *)
(* the sources so far.  One invariant per clause of the property:          *)
(*   LaterOverrides    later sources override earlier ones key by key at   *)
(*                     any nesting depth                                   *)
(*   UnrelatedSurvive  keys a source does not mention survive the update   *)
(*   ListsNewFirst     list values are merged new-first without duplicates *)
(*   NothingInvented   nothing is in the result that no source said        *)
(*   Denotation        the result is the requirement-level denotation of   *)
(*                     the stack (trailing-run semantics, ConfigOps!Den)   *)
(*   Lemmas            idempotence, neutral element, associativity (on     *)
(*                     kind-stable stacks), relational acceptance          *)
(* Every stack of MaxStack sources is exported with the results after each *)
(* step; the driver replays them on the real forml.setup Config.           *)
(***************************************************************************)
EXTENDS ConfigOps, Json
CONSTANTS Paths,       \* paths that sources may assign
          Leaves,      \* leaf values they may assign
          MaxAssign,   \* assignments per source
          MaxStack,    \* sources per stack
          DoExport     \* print every complete stack as JSON
VARIABLES stack, prev, cur, trail
vars == <<stack, prev, cur, trail>>

P6 == {<<"a">>, <<"b">>, <<"a", "a">>, <<"a", "b">>, <<"a", "a", "a">>, <<"a", "a", "b">>}
P4 == {<<"a">>, <<"b">>, <<"a", "a">>, <<"a", "a", "a">>}
L7 == {Sc(1), Sc(2), Li(<<11>>), Li(<<11, 12>>), Li(<<12, 11>>), Li(<<12, 13>>), Em}
L5 == {Sc(1), Li(<<11, 12>>), Li(<<12, 11>>), Li(<<12, 13>>), Em}
L4 == {Sc(1), Sc(2), Li(<<11, 12>>), Li(<<12, 13>>)}

Entries == {Entry(p, v) : p \in Paths, v \in Leaves}
\* sources with 1..MaxAssign (<= 3) assignments, built explicitly (SUBSET Entries would be 2^|Entries|)
Src == {T \in {{e} : e \in Entries}
              \cup (IF MaxAssign >= 2 THEN {{e1, e2} : e1 \in Entries, e2 \in Entries} ELSE {})
              \cup (IF MaxAssign >= 3 THEN {{e1, e2, e3} : e1 \in Entries, e2 \in Entries, e3 \in Entries} ELSE {})
        : WF(T)}

Init == stack = <<>> /\ prev = {} /\ cur = {} /\ trail = <<>>
Update(src) == /\ Len(stack) < MaxStack
               /\ stack' = Append(stack, src)
               /\ prev' = cur
               /\ cur' = Merge(cur, src)
               /\ trail' = Append(trail, cur')
Next == \E src \in Src : Update(src)
Spec == Init /\ [][Next]_vars

Last == stack[Len(stack)]
N == Len(stack)

WellFormed == WF(cur)
\* a scalar (or empty-table) assignment of source i is in force iff no later source overrides its path
LaterOverrides ==
    \A i \in 1..N : \A e \in stack[i] : e.v.k # "l" =>
        /\ (\A j \in (i + 1)..N : ~Overrides(stack[j], e.p)) =>
               (e \in cur \/ (e.v.k = "e" /\ \E f \in cur : IsProper(e.p, f.p)))
        /\ (e.v.k = "s" /\ e \in cur) => \E j \in i..N : e \in stack[j] /\ \A h \in (j + 1)..N : ~Overrides(stack[h], e.p)
\* what the newest source does not touch is exactly as before
UnrelatedSurvive ==
    N >= 1 => /\ \A e \in prev : ~Touches(Last, e.p) => e \in cur
              /\ \A e \in cur : ~Touches(Last, e.p) => e \in prev
ListsNewFirst ==
    N >= 1 => \A e \in Last : e.v.k = "l" =>
        /\ HasList(cur, e.p)
        /\ LET q == ListOf(cur, e.p)
               old == IF HasList(prev, e.p) THEN ListOf(prev, e.p) ELSE <<>>
           IN /\ SubSeq(q, 1, Len(e.v.l)) = e.v.l                      \* new first
              /\ NoDup(q)                                             \* without duplicates
              /\ Range(q) = Range(e.v.l) \cup Range(old)              \* nothing lost, nothing added
              /\ SubSeq(q, Len(e.v.l) + 1, Len(q)) = SelectSeq(old, LAMBDA x : ~InSeq(x, e.v.l))
NothingInvented ==
    \A e \in cur :
        /\ e.v.k = "s" => \E i \in 1..N : e \in stack[i]
        /\ e.v.k = "l" => \A x \in Range(e.v.l) : \E i \in 1..N : HasList(stack[i], e.p) /\ InSeq(x, ListOf(stack[i], e.p))
        /\ e.v.k = "e" => \E i \in 1..N : \E f \in stack[i] : IsPrefix(e.p, f.p)
Denotation == N >= 1 => cur = Den(stack)
Lemmas ==
    N >= 1 => /\ Merge(cur, Last) = cur                       \* idempotent
              /\ Merge(cur, {}) = cur /\ Merge({}, cur) = cur  \* neutral element
              /\ Accepts(stack, cur)                          \* the relational form accepts the denotation
              /\ (N >= 2 /\ KindStable(stack)) =>
                     Merge(Fold(SubSeq(stack, 1, N - 2)), Merge(stack[N - 1], Last)) = cur
Export == (DoExport /\ N = MaxStack) => PrintT(ToJson([stack |-> stack, trail |-> trail]))
=============================================================================
