------------------------------ MODULE Packages ------------------------------
(***************************************************************************)
(* C18 (manifest / package part).  A project source tree is packaged       *)
(* (zip based `.4ml` file or directory based package), the package is      *)
(* installed onto a path (possibly over an earlier install) and the        *)
(* principal components are loaded from the installed artifact.            *)
(*                                                                         *)
(* Abstract values                                                         *)
(*   manifest  [name, version, package, modules]; modules maps a component *)
(*             to how its module is referenced: 0 = not listed (the        *)
(*             conventional module <package>.<component>), 1 = a name      *)
(*             relative to the package, 2 = an absolute name inside it,    *)
(*             3 = a name relative to the package whose TEXT begins with   *)
(*             the package's top-level name without being qualified by it  *)
(*             (module "app_pipeline" of the package "app"): names are     *)
(*             qualified segment-wise, not character-wise                  *)
(*   module    [pkg, c, w]  (python package, component, which reference);  *)
(*             pkg = Top: a top-level module of the distribution           *)
(*   tree      [mods, data, rev]: module files present (each defines the   *)
(*             component marked <<module, rev>>), a non-python data file   *)
(*             (makes a zip package non zip-safe), revision of the content.*)
(*             Next to the project package the tree ships top-level        *)
(*             modules carrying the very names the map uses relatively     *)
(*             (DECOYS: a relative name never denotes a top-level module)  *)
(* Requirement: a manifest reads back equal from wherever it was written   *)
(* (source directory, zip package, directory package, installed path);     *)
(* the components loaded from the installed artifact are exactly the ones  *)
(* the packaged tree defines under the resolution rule of the manifest     *)
(* (missing evaluation = no evaluation).                                   *)
(***************************************************************************)
EXTENDS Integers, Sequences, FiniteSets, TLC, Json
CONSTANTS NNames, NVersions,   \* project names / release versions (rendered by the harness)
          Pkgs,                \* python packages: 1 = one level ("app"), 2 = two levels ("app.sub")
          Refs,                \* subset of 0..3: module reference styles in use
          Trees,               \* subset of {"all", "noeval"}
          Datas,               \* subset of BOOLEAN
          Priors               \* subset of {"none", "older", "olderzip", "same"}: what sits at the install path beforehand
                               \* (an earlier release installed as a directory / as a zip file, this very release)
VARIABLES src,     \* the project source directory: [tree, own] (own = manifest written into it or NoManifest)
          given,   \* the manifest the developer packages with
          pkg,     \* the package: [kind, manifest, tree] or NoPkg
          inst,    \* content of the install path: [manifest, tree] or NoInst
          art,     \* the artifact handle returned by install: [package, modules] or NoArt
          comps,   \* components loaded from the artifact, or NotLoaded
          seen,    \* manifests read back so far: set of [from, manifest]
          prior    \* what was at the install path before (export only; never read by an action)
vars == <<src, given, pkg, inst, art, comps, seen, prior>>

Comps == {"source", "pipeline", "evaluation"}
Maps == [Comps -> Refs]
NoManifest == [name |-> 0, version |-> 0, package |-> 0, modules |-> [c \in Comps |-> 0]]
Manifests == [name : 1..NNames, version : 1..NVersions, package : Pkgs, modules : Maps]
Module(p, c, w) == [pkg |-> p, c |-> c, w |-> w]
Top == 0 - 2                                      \* "package" of the top-level modules
Relative == {0, 1, 3}                             \* reference styles naming the module relatively to the package
AllModules(p) == {Module(p, c, w) : c \in Comps, w \in 0..3}
Decoys == {Module(Top, c, w) : c \in Comps, w \in Relative}      \* top-level namesakes of every relative name
TreeOf(p, t, d, rev) == [mods |-> (IF t = "all" THEN AllModules(p) ELSE {m \in AllModules(p) : m.c # "evaluation"}) \cup Decoys,
                         data |-> d, rev |-> rev]
NoTree == [mods |-> {}, data |-> FALSE, rev |-> 0]
NoPkg == [kind |-> "none", manifest |-> NoManifest, tree |-> NoTree]
NoInst == [manifest |-> NoManifest, tree |-> NoTree]
NoArt == [package |-> 0, modules |-> [c \in Comps |-> 0]]
Missing == [pkg |-> 0, c |-> "", w |-> 0, rev |-> 0]
NotLoaded == [c \in Comps |-> [pkg |-> 0 - 1, c |-> "", w |-> 0, rev |-> 0]]

\* the resolution rule: a listed module replaces the conventional one; a name that is not qualified by the package (its
\* leading SEGMENTS are not the package's) is relative to it - whatever characters it begins with and whatever top-level
\* module of the same name exists; in every style the component is a module OF THE PACKAGE
Resolve(package, modules, c) == Module(package, c, modules[c])
LoadFrom(tree, package, modules) ==
    [c \in Comps |-> LET m == Resolve(package, modules, c) IN
                       IF m \in tree.mods THEN [pkg |-> m.pkg, c |-> m.c, w |-> m.w, rev |-> tree.rev] ELSE Missing]

Older(m) == [m EXCEPT !.version = 0]        \* an earlier release of the same project
Init == /\ \E m \in Manifests, t \in Trees, d \in Datas, stale \in BOOLEAN :
             /\ given = m
             /\ src = [tree |-> TreeOf(m.package, t, d, 1), own |-> IF stale THEN Older(m) ELSE NoManifest]
             /\ prior \in Priors
             /\ inst = CASE prior = "none" -> NoInst
                         [] prior \in {"older", "olderzip"} -> [manifest |-> Older(m), tree |-> TreeOf(m.package, "all", FALSE, 0)]
                         [] prior = "same" -> [manifest |-> m, tree |-> TreeOf(m.package, t, d, 1)]
        /\ pkg = NoPkg /\ art = NoArt /\ comps = NotLoaded /\ seen = {}

\* Manifest.write(source directory) / Manifest.read(source directory)
WriteManifest == /\ src.own # given /\ pkg = NoPkg
                 /\ src' = [src EXCEPT !.own = given]
                 /\ UNCHANGED <<given, pkg, inst, art, comps, seen, prior>>
ReadSource == /\ src.own = given
              /\ seen' = seen \cup {[from |-> "source", manifest |-> src.own]}
              /\ UNCHANGED <<src, given, pkg, inst, art, comps, prior>>
\* Package.create(source, manifest, path): the given manifest is packaged, whatever descriptor the source itself holds
CreateZip == /\ pkg = NoPkg
             /\ pkg' = [kind |-> "zip", manifest |-> given, tree |-> src.tree]
             /\ UNCHANGED <<src, given, inst, art, comps, seen, prior>>
\* Package(source directory): a directory holding its own manifest is a package
OpenDir == /\ pkg = NoPkg /\ src.own = given
           /\ pkg' = [kind |-> "dir", manifest |-> src.own, tree |-> src.tree]
           /\ UNCHANGED <<src, given, inst, art, comps, seen, prior>>
ReadPackage == /\ pkg # NoPkg
               /\ seen' = seen \cup {[from |-> "package", manifest |-> pkg.manifest]}
               /\ UNCHANGED <<src, given, pkg, inst, art, comps, prior>>
\* Package.install(path): a path already holding this very release is kept, anything else is replaced
Install == /\ pkg # NoPkg /\ art = NoArt
           /\ inst' = IF inst # NoInst /\ inst.manifest = pkg.manifest THEN inst ELSE [manifest |-> pkg.manifest, tree |-> pkg.tree]
           /\ art' = [package |-> pkg.manifest.package, modules |-> pkg.manifest.modules]
           /\ UNCHANGED <<src, given, pkg, comps, seen, prior>>
ReadInstalled == /\ art # NoArt
                 /\ seen' = seen \cup {[from |-> "installed", manifest |-> inst.manifest]}
                 /\ UNCHANGED <<src, given, pkg, inst, art, comps, prior>>
\* Artifact.components
Load == /\ art # NoArt /\ comps = NotLoaded
        /\ comps' = LoadFrom(inst.tree, art.package, art.modules)
        /\ UNCHANGED <<src, given, pkg, inst, art, seen, prior>>
Next == WriteManifest \/ ReadSource \/ CreateZip \/ OpenDir \/ ReadPackage \/ Install \/ ReadInstalled \/ Load
Spec == Init /\ [][Next]_vars

\* one invariant per clause
ManifestReadBack == \A s \in seen : s.manifest = given                   \* reads back exactly what was written
InstalledIsPackaged == art # NoArt => inst.manifest = given /\ inst.tree = src.tree
SameComponents == comps # NotLoaded => comps = LoadFrom(src.tree, given.package, given.modules)
SourceAndPipelinePresent == comps # NotLoaded => comps["source"] # Missing /\ comps["pipeline"] # Missing
NeverTopLevel == comps # NotLoaded => \A c \in Comps : comps[c] = Missing \/ comps[c].pkg = given.package
EvaluationOptional == comps # NotLoaded => (comps["evaluation"] = Missing <=> Resolve(given.package, given.modules, "evaluation") \notin src.tree.mods)

\* export: one vector per finished behaviour
Froms == {s.from : s \in seen}
Done == comps # NotLoaded /\ {"package", "installed"} \subseteq Froms /\ (src.own = given => "source" \in Froms)
View == <<given, pkg, src, prior, Done>>
Export == Done => PrintT(ToJson([manifest |-> given, kind |-> pkg.kind, data |-> src.tree.data,
                                 haseval |-> (Module(given.package, "evaluation", 0) \in src.tree.mods),
                                 stale |-> (src.own # given /\ src.own # NoManifest), wrote |-> (src.own = given),
                                 prior |-> prior, comps |-> comps]))
=============================================================================
