SPECIFICATION Spec
CONSTANT RuleName = "edf"
CONSTRAINT Track
POSTCONDITION Post
CHECK_DEADLOCK FALSE
