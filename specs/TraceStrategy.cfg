SPECIFICATION Spec
CONSTANT RuleName = "maxdef"
CONSTRAINT Track
POSTCONDITION Post
CHECK_DEADLOCK FALSE
