SPECIFICATION Spec
CONSTANTS Cast <- CastA
 Depth = 0
 WithTrace = FALSE
CONSTRAINT Bound
