------------------------------- MODULE RelAlg -------------------------------
(***************************************************************************)
(* Reference (requirement-level) semantics of forml DSL statements: what a *)
(* statement DENOTES over the content of a storage (C06, C14, C09).        *)
(* Written from docs/dsl/query/syntax.rst + functions.rst and standard SQL *)
(* semantics the documentation defers to; nothing here is taken from the   *)
(* parser under test.                                                      *)
(*                                                                         *)
(* Statements are the ASTs of DslAst.tla / harness/dslgen.py, unchanged.   *)
(* Values are integers: booleans are 0/1, strings and literals are looked  *)
(* up in the dictionary Lits (repr of the python literal |-> integer, an   *)
(* order preserving code for strings), NULL is the sentinel below and SQL  *)
(* three-valued logic applies to it.  A database is a function             *)
(*      table name |-> sequence of rows (each aligned with the table's     *)
(*                     cols)                                               *)
(* optionally overridden per table OCCURRENCE by entries keyed with the    *)
(* occurrence path ("/l/r..." = the route from the statement root through  *)
(* the fields l / r; used by Hints.tla to restrict one occurrence).        *)
(*                                                                         *)
(*   Rel(s, db, p)    relation of an origin: [keys, rows]                  *)
(*   Cand(q, db, p)   candidate rows of a query before limit/offset, each  *)
(*                    with its ordering key, sorted by that key            *)
(*   RowsOf(s, db, p) the bag (sequence) of rows a statement denotes       *)
(*   Eval(s, db)      == RowsOf(s, db, "")                                 *)
(*   Accepts(s, db, rows)  rows is one of the results the statement        *)
(*                    allows: equal as a bag when unordered, equal up to   *)
(*                    permutation inside groups of equal ordering keys     *)
(*                    when ordered, and with limit/offset the window of    *)
(*                    SOME such order (a sub-bag of each tie group of the  *)
(*                    right size)                                          *)
(* Outside this semantics (excluded by the generators, see relgen.py):     *)
(* division, avg anywhere but as a top-level output (then a normalised     *)
(* <<num, den>> pair), ordering keys that can be NULL, non-integral floats.*)
(***************************************************************************)
EXTENDS DslAst

CONSTANT Lits          \* literal dictionary: x.v (repr text) |-> integer value

\* Switch used ONLY to recognise known deviations of reader.alchemy (never the requirement): with the key "$asis"
\* in the literal dictionary the semantics is the AS-IS rendering - a cross join emitted as FULL OUTER JOIN ON
\* true, and Not mapped to python's "not" (a constant: the negated python truth value of the operand's target
\* code, defined for == / != / nested not only; no SQL at all - an exception - for any other operand).
AsIs == "$asis" \in DOMAIN Lits          \* cross join rendered as FULL OUTER JOIN ON true
AsIsNot == "$asisnot" \in DOMAIN Lits    \* Not rendered as the python truth of its operand

NULL == -9999
Poison == -7777        \* value of an operator this semantics does not define: never equals an observed value

(* ------------------------------- helpers ------------------------------- *)
\* (recursion depth is kept logarithmic in the number of rows: joins of the small tables reach a few hundred rows
\* and TLC evaluates recursive operators on the Java stack)
RECURSIVE FlatRange(_, _, _)
FlatRange(ss, lo, hi) ==
    IF lo > hi THEN <<>>
    ELSE IF lo = hi THEN ss[lo]
    ELSE LET mid == (lo + hi) \div 2 IN FlatRange(ss, lo, mid) \o FlatRange(ss, mid + 1, hi)
Flat(ss) == FlatRange(ss, 1, Len(ss))
Count(s, x) == Cardinality({i \in DOMAIN s : s[i] = x})
SubBag(s, t) == \A i \in DOMAIN s : Count(s, s[i]) <= Count(t, s[i])
BagEq(s, t) == Len(s) = Len(t) /\ SubBag(s, t)
\* the elements of the positions idx of s, in order
Pick(s, idx) == [p \in 1..Cardinality(idx) |-> s[CHOOSE i \in idx : Cardinality({j \in idx : j < i}) = p - 1]]
\* first occurrences, order kept
Dedup(s) == Pick(s, {i \in DOMAIN s : \A j \in 1..(i - 1) : s[j] # s[i]})
Min2(a, b) == IF a < b THEN a ELSE b
Max2(a, b) == IF a > b THEN a ELSE b
Abs(a) == IF a < 0 THEN -a ELSE a
RECURSIVE Gcd(_, _)
Gcd(a, b) == IF b = 0 THEN a ELSE Gcd(b, a % b)
\* normalised rational <<num, den>> (den > 0, lowest terms); NULL is <<NULL, 1>>
Ratio(n, d) == LET g == Gcd(Abs(n), d) IN <<n \div g, d \div g>>
RECURSIVE SumRange(_, _, _)
SumRange(q, lo, hi) ==
    IF lo > hi THEN 0
    ELSE IF lo = hi THEN q[lo]
    ELSE LET mid == (lo + hi) \div 2 IN SumRange(q, lo, mid) + SumRange(q, mid + 1, hi)
SumSeq(q) == SumRange(q, 1, Len(q))

(* ------------------------- three-valued logic -------------------------- *)
B(b) == IF b THEN 1 ELSE 0
And3(a, b) == IF a = 0 \/ b = 0 THEN 0 ELSE IF a = NULL \/ b = NULL THEN NULL ELSE 1
Or3(a, b) == IF a = 1 \/ b = 1 THEN 1 ELSE IF a = NULL \/ b = NULL THEN NULL ELSE 0
Not3(a) == IF a = NULL THEN NULL ELSE 1 - a
Cmp(op, a, b) ==
    IF a = NULL \/ b = NULL THEN NULL ELSE
    CASE op = "eq" -> B(a = b) [] op = "ne" -> B(a # b) [] op = "lt" -> B(a < b)
      [] op = "le" -> B(a <= b) [] op = "gt" -> B(a > b) [] op = "ge" -> B(a >= b)
\* remainder with the sign of the dividend (SQL), defined here for a positive divisor only
TruncMod(a, b) == IF b <= 0 THEN Poison ELSE IF a >= 0 THEN a % b ELSE -((-a) % b)
Ari(op, a, b) ==
    IF a = NULL \/ b = NULL THEN NULL ELSE
    CASE op = "add" -> a + b [] op = "sub" -> a - b [] op = "mul" -> a * b
      [] op = "mod" -> TruncMod(a, b) [] OTHER -> Poison

(* ------------------------------ expressions ---------------------------- *)
\* keys: sequence of [src, name] naming the positions of a row; a column resolves to the first position
\* carrying its origin and name
KeyOf(src, name) == [src |-> src, name |-> name]
Idx(keys, x) == MinOf({i \in DOMAIN keys : keys[i].name = x.name /\ keys[i].src = x.src})
Resolvable(keys, x) == \E i \in DOMAIN keys : keys[i].name = x.name /\ keys[i].src = x.src

RECURSIVE Val(_, _, _, _)
NonNull(e, keys, grp) ==
    SelectSeq([i \in DOMAIN grp |-> Val(e, keys, grp[i], <<>>)], LAMBDA v : v # NULL)
Agg(fn, e, keys, grp) ==
    LET vs == NonNull(e, keys, grp) IN
    CASE fn = "count" -> Len(vs)
      [] fn = "sum" -> IF vs = <<>> THEN NULL ELSE SumSeq(vs)
      [] fn = "min" -> IF vs = <<>> THEN NULL ELSE CHOOSE m \in Range(vs) : \A x \in Range(vs) : m <= x
      [] fn = "max" -> IF vs = <<>> THEN NULL ELSE CHOOSE m \in Range(vs) : \A x \in Range(vs) : m >= x
      [] OTHER -> Poison     \* avg has no integer value: only OutVal knows it
\* value of feature e in the row (positions named by keys); grp = the rows of the group for aggregates
\* (the operands are named once - a1, a2 are evaluated lazily, a2 only by the binary operators)
\* AS-IS only: python's truth value of the target code of a predicate (SQLAlchemy defines it for == and != by
\* comparing the operands' identity, python's "not" negates it; -1 = undefined: the parser raises)
RECURSIVE PyTruth(_)
PyTruth(a) ==
    IF a.f # "op" THEN -1
    ELSE IF a.op = "eq" THEN 0      \* the operands' target code objects are created per visit: never identical
    ELSE IF a.op = "ne" THEN 1
    ELSE IF a.op = "not" THEN (IF PyTruth(a.args[1]) = -1 THEN -1 ELSE 1 - PyTruth(a.args[1]))
    ELSE -1
OpVal(e, a1, a2) ==
    CASE e.op \in Compare -> Cmp(e.op, a1, a2)
      [] e.op \in Arith -> Ari(e.op, a1, a2)
      [] e.op = "and" -> And3(a1, a2)
      [] e.op = "or" -> Or3(a1, a2)
      [] e.op = "not" ->
           IF ~AsIsNot THEN Not3(a1)
           ELSE IF PyTruth(e.args[1]) = -1 THEN Poison ELSE 1 - PyTruth(e.args[1])
      [] e.op = "isnull" -> B(a1 = NULL)
      [] e.op = "notnull" -> B(a1 # NULL)
      [] e.op = "abs" -> IF a1 = NULL THEN NULL ELSE Abs(a1)
      \* values are integral: casts between the numeric kinds, ceil and floor keep the value
      [] e.op \in {"cast", "ceil", "floor"} -> a1
      [] OTHER -> Poison
Val(e, keys, row, grp) ==
    CASE e.f = "col" -> row[Idx(keys, e)]
      [] e.f = "lit" -> Lits[e.v]
      [] e.f = "agg" -> Agg(e.op, e.args[1], keys, grp)
      [] e.f \in {"alias", "op"} ->
           LET a1 == Val(e.args[1], keys, row, grp)
               a2 == Val(e.args[2], keys, row, grp)
           IN IF e.f = "alias" THEN a1 ELSE OpVal(e, a1, a2)
      [] OTHER -> Poison
IsAvg(e) == Operable(e).f = "agg" /\ Operable(e).op = "avg"
\* an output cell: an integer, or the normalised <<num, den>> pair of a top-level avg
OutVal(e, keys, row, grp) ==
    IF IsAvg(e)
    THEN LET vs == NonNull(Operable(e).args[1], keys, grp) IN
         IF vs = <<>> THEN <<NULL, 1>> ELSE Ratio(SumSeq(vs), Len(vs))
    ELSE Val(e, keys, row, grp)

(* -------------------------------- sources ------------------------------ *)
TableRows(s, db, p) == IF p \in DOMAIN db THEN db[p] ELSE db[s.name]
NullRow(keys) == [i \in DOMAIN keys |-> NULL]
\* lexicographic order of key tuples under the directions dirs (TRUE = descending); NULL sorts lowest (keys that
\* can be NULL are excluded by the generators: engines disagree, the DSL is silent)
RECURSIVE KeyLessFrom(_, _, _, _)
KeyLessFrom(dirs, a, b, i) ==
    IF i > Len(dirs) THEN FALSE
    ELSE IF a[i] = b[i] THEN KeyLessFrom(dirs, a, b, i + 1)
    ELSE IF dirs[i] THEN a[i] > b[i] ELSE a[i] < b[i]
KeyLess(dirs, a, b) == KeyLessFrom(dirs, a, b, 1)
\* stable sort by rank: position of candidate i = 1 + the number of candidates that have to precede it
SortCand(dirs, s) ==
    LET n == Len(s)
        before(j, i) == KeyLess(dirs, s[j].key, s[i].key) \/ (j < i /\ ~KeyLess(dirs, s[i].key, s[j].key))
        ranks == [i \in 1..n |-> 1 + Cardinality({j \in 1..n : before(j, i)})] \o <<>>   \* (evaluated once)
    IN [p \in 1..n |-> s[CHOOSE i \in 1..n : ranks[i] = p]]

RECURSIVE Rel(_, _, _), Cand(_, _, _), RowsOf(_, _, _)

\* (each of the mutually recursive operators below is referenced from ONE place per operator: TLC's -coverage
\* start-up cost grows with the product of the call sites along the call graph)
JoinRel(s, db, p) ==
    LET side == [d \in {"l", "r"} |-> Rel(IF d = "l" THEN s.l ELSE s.r, db, p \o "/" \o d)]
        L == side["l"]
        R == side["r"]
        keys == L.keys \o R.keys
        ok(x, y) == s.on.f = "nil" \/ Val(s.on, keys, x \o y, <<>>) = 1
        hit == [i \in DOMAIN L.rows |-> {j \in DOMAIN R.rows : ok(L.rows[i], R.rows[j])}]
        matched == Flat([i \in DOMAIN L.rows |->
                       Flat([j \in DOMAIN R.rows |-> IF j \in hit[i] THEN <<L.rows[i] \o R.rows[j]>> ELSE <<>>])])
        lonly == Flat([i \in DOMAIN L.rows |-> IF hit[i] = {} THEN <<L.rows[i] \o NullRow(R.keys)>> ELSE <<>>])
        ronly == Flat([j \in DOMAIN R.rows |->
                       IF \E i \in DOMAIN L.rows : j \in hit[i] THEN <<>> ELSE <<NullRow(L.keys) \o R.rows[j]>>])
    IN [keys |-> keys,
        rows |-> CASE s.kind = "inner" -> matched
                   [] s.kind = "left" -> matched \o lonly
                   [] s.kind = "right" -> matched \o ronly
                   [] s.kind = "full" -> matched \o lonly \o ronly
                   [] s.kind = "cross" -> IF AsIs THEN matched \o lonly \o ronly ELSE matched]

\* relation of an origin (table, reference, join) or of a statement used as one
Rel(s, db, p) ==
    CASE s.t = "table" -> [keys |-> [i \in DOMAIN s.cols |-> KeyOf(s, s.cols[i][1])], rows |-> TableRows(s, db, p)]
      [] s.t = "join" -> JoinRel(s, db, p)
      [] OTHER ->
           \* a reference is an independently named handle of its instance: same rows, positions named
           \* <reference>.<output name of the instance>; a statement used directly is its own handle
           LET inst == IF s.t = "ref" THEN s.l ELSE s
               pp == IF s.t = "ref" THEN p \o "/l" ELSE p
           IN IF IsStatement(inst)
              THEN [keys |-> [i \in DOMAIN SchemaOf(inst) |-> KeyOf(s, SchemaOf(inst)[i].name)],
                    rows |-> RowsOf(inst, db, pp)]
              ELSE LET inner == Rel(inst, db, pp) IN
                   [keys |-> [i \in DOMAIN inner.keys |-> KeyOf(s, inner.keys[i].name)], rows |-> inner.rows]

(* -------------------------------- queries ------------------------------ *)
Grouped(q) == q.group # <<>> \/ \E x \in QueryFeatures(q) : HasAgg(x)
\* candidate output rows of a query, each with its ordering key, sorted by the key (ties in no particular order)
Cand(q, db, p) ==
    LET src == Rel(q.l, db, p \o "/l")
        keys == src.keys
        filtered == IF q.where.f = "nil" THEN src.rows
                    ELSE SelectSeq(src.rows, LAMBDA r : Val(q.where, keys, r, <<>>) = 1)
        gkey(r) == [i \in DOMAIN q.group |-> Val(q.group[i], keys, r, <<>>)]
        gkeys == Dedup([i \in DOMAIN filtered |-> gkey(filtered[i])])
        groups == IF q.group = <<>> THEN <<filtered>>
                  ELSE [g \in DOMAIN gkeys |-> SelectSeq(filtered, LAMBDA r : gkey(r) = gkeys[g])]
        units == IF Grouped(q)
                 THEN [g \in DOMAIN groups |->
                          [row |-> IF groups[g] = <<>> THEN NullRow(keys) ELSE groups[g][1], grp |-> groups[g]]]
                 ELSE [i \in DOMAIN filtered |-> [row |-> filtered[i], grp |-> <<>>]]
        kept == IF q.having.f = "nil" THEN units
                ELSE SelectSeq(units, LAMBDA u : Val(q.having, keys, u.row, u.grp) = 1)
        outs == IF q.sel = <<>> THEN [i \in DOMAIN keys |-> Col(keys[i].src, keys[i].name)] ELSE q.sel
        cands == [i \in DOMAIN kept |->
                    [key |-> [k \in DOMAIN q.order |-> Val(q.order[k].x, keys, kept[i].row, kept[i].grp)],
                     out |-> [j \in DOMAIN outs |-> OutVal(outs[j], keys, kept[i].row, kept[i].grp)]]]
    IN SortCand([k \in DOMAIN q.order |-> q.order[k].dir = "descending"], cands)

WinLo(q) == IF q.rows = <<>> THEN 1 ELSE q.rows[2] + 1
WinHi(q, n) == IF q.rows = <<>> THEN n ELSE Min2(n, q.rows[2] + q.rows[1])

\* the bag of rows a statement denotes (under limit/offset: the window of the sorted candidates, which is
\* determined only when the ordering is total - the generators' obligation for NESTED statements)
RowsOf(s, db, p) ==
    LET st == StatementOf(s)      \* a bare origin stands for its trivial query
    IN IF st.t = "query"
       THEN LET c == Cand(st, db, p) IN
            [i \in 1..Max2(0, WinHi(st, Len(c)) - WinLo(st) + 1) |-> c[WinLo(st) + i - 1].out]
       ELSE LET side == [d \in {"l", "r"} |-> Dedup(RowsOf(IF d = "l" THEN st.l ELSE st.r, db, p \o "/" \o d))]
                L == side["l"]
                R == side["r"]
            IN CASE st.kind = "union" -> Dedup(L \o R)
                 [] st.kind = "intersection" -> SelectSeq(L, LAMBDA x : x \in Range(R))
                 [] st.kind = "difference" -> SelectSeq(L, LAMBDA x : x \notin Range(R))

Eval(s, db) == RowsOf(s, db, "")

\* rows is an allowed result of statement s over db
Accepts(s, db, rows) ==
    IF s.t # "query" THEN BagEq(rows, Eval(s, db))
    ELSE LET c == Cand(s, db, "")
             lo == WinLo(s)
             hi == WinHi(s, Len(c))
             n == Max2(0, hi - lo + 1)
             \* all candidates sharing the ordering key of window position j / the observed rows at such positions
             group(j) == LET k == c[lo + j - 1].key IN
                         [out |-> SelectSeq([i \in DOMAIN c |-> IF c[i].key = k THEN <<c[i].out>> ELSE <<>>],
                                            LAMBDA x : x # <<>>),
                          got |-> SelectSeq([i \in 1..n |-> IF c[lo + i - 1].key = k THEN <<rows[i]>> ELSE <<>>],
                                            LAMBDA x : x # <<>>)]
         IN /\ Len(rows) = n
            /\ \A j \in 1..n : SubBag(group(j).got, group(j).out)
=============================================================================
