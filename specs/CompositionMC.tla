---------------------------- MODULE CompositionMC ----------------------------
(* Enumerates an expression universe and exports, per expression, the values  *)
(* the closed pipeline Source >> e >> Probe must produce in train mode and in *)
(* apply mode (with the states of that training).                             *)
EXTENDS Composition
CONSTANTS Level, NChunks
VARIABLES e, chunk
\* NB: the universes take a (dummy) parameter on purpose - TLC evaluates every parameterless constant-level definition
\* eagerly at start-up, also the ones a configuration does not use
E1(z) == Leaf \cup MapReduces \cup Combos \cup Chains
Ops2(z) == E1(z) \cup Twice \cup Stacks(Leaf, {2})
\* a fan-in that is not the tail of a copied scope / base: MapReduce >> mapper >> stack, stack of (MapReduce >> mapper)
FanIn(z) == Seqs(Seqs(MapReduces, Mappers), Stacks(Mappers, {2})) \cup Stacks(Seqs(MapReduces, Mappers), {2})
\* explicit scoping: a parenthesised group on the RIGHT of >> closed by a scope-wrapping operator - a >> (m >> stack),
\* a >> (m >> twice) - the only shape in which a compound is composed with an outer scope
RightNested(z) == Seqs(Mappers, Seqs(Leaf, Stacks(Mappers, {2}) \cup Twice))
                  \cup Seqs(Mappers, Seqs(Seqs(Mappers, Mappers), Stacks(Mappers, {2})))
E2(z) == Seqs(E1(z), Ops2(z)) \cup Stacks(Leaf, {2, 3}) \cup Seqs(Stacks(Leaf, {2}), Leaf) \cup FanIn(z) \cup RightNested(z)
\* size-3 expressions over reduced alphabets (the full size-3 universe has 145k members: hours of denotations)
L3(z) == Mappers \cup {E("train", TRUE, 0, <<>>), E("label", TRUE, 0, <<>>), E("apply", TRUE, 0, <<>>)}
O3(z) == Leaf \cup Twice \cup Stacks(Mappers, {2})
E3(z) == Seqs(Seqs(Leaf, Leaf), O3(z)) \cup Seqs(Leaf, Seqs(Leaf, O3(z)))
         \cup Seqs(Seqs(Leaf, Stacks(Mappers, {2})), Leaf)
         \cup Stacks(Seqs(L3(z), L3(z)), {2}) \cup Seqs(Mappers, Stacks(Seqs(L3(z), L3(z)), {2}))
\* the universe is spread over NChunks initial states so that TLC's workers evaluate the denotations in parallel
OpCode(o) == CASE o = "seq" -> 1 [] o = "mapper" -> 2 [] o = "apply" -> 3 [] o = "train" -> 4 [] o = "label" -> 5
               [] o = "dump" -> 6 [] o = "lmapper" -> 11 [] o = "lapply" -> 12 [] o = "ltrain" -> 13 [] o = "mapreduce" -> 7 [] o = "twice" -> 8 [] o = "stack" -> 9 [] o = "chain" -> 14 [] OTHER -> 10
RECURSIVE Hsh(_)
Hsh(x) == LET RECURSIVE Kids(_) Kids(i) == IF i > Len(x.kids) THEN 0 ELSE (7 * i + 1) * Hsh(x.kids[i]) + Kids(i + 1)
          IN (OpCode(x.op) + (IF x.sf THEN 11 ELSE 0) + 3 * x.k + Kids(1)) % 9973
Universe(z) == CASE Level = 1 -> E1(z) [] Level = 2 -> E1(z) \cup E2(z)
                 [] OTHER -> E1(z) \cup E2(z) \cup E3(z)
None == E("none", FALSE, 0, <<>>)
Init == chunk \in 0..(NChunks - 1) /\ e = None
Pick == e = None /\ e' \in {u \in Universe(chunk) : Hsh(u) % NChunks = chunk} /\ UNCHANGED chunk
Next == Pick
Spec == Init /\ [][Next]_<<e, chunk>>
\* design-level sanity of the semantics itself: a stateless-only expression has no state terms; the train path never
\* depends on the apply input; stacked predictions are fold clean
RECURSIVE Syms(_)
Syms(x) == (IF x.tag = "sym" THEN {x.id} ELSE {}) \cup UNION {Syms(x.args[i]) : i \in DOMAIN x.args}
\* one evaluation of the denotation per expression (LET-bound, zero-arity definitions are cached by TLC)
Check == e = None \/
         LET F == Expand(e, 1)
             C == After(Compose(Probe, ProbeId, F), Src)
         IN /\ 1 \notin Syms(F.t) /\ 1 \notin Syms(F.l)           \* the train path never depends on the apply input
            /\ Syms(C.a) = {} /\ Syms(C.t) = {}                     \* the closed pipeline has no free symbol
            /\ PrintT(ToJson([e |-> e, train |-> C.t, apply |-> C.a]))
=============================================================================
