--------------------------- MODULE TraceRegistry ---------------------------
(***************************************************************************)
(* C05 requirement level + trace validation.  Requirement state of one     *)
(* project: published (set of release versions) and hist[r] = sequence of   *)
(* committed generations, each [states, tag] as opaque content identifiers  *)
(* bound from the observation at commit time.  A fresh reader must always   *)
(* see exactly View(published, hist).  Events recorded from the real        *)
(* registry: publish v (ok | rejected | crash), train r with n states       *)
(* (ok | crash); after every event the projected reader view.  A crashed    *)
(* operation may or may not have taken effect (old or complete new item).   *)
(***************************************************************************)
EXTENDS Naturals, Sequences, FiniteSets, TLC, Json, IOUtils, TLCExt
Batch == JsonDeserialize(IOEnv.TRACE_FILE)
VARIABLES tid, l, published, hist
vars == <<tid, l, published, hist>>
Tr == Batch.traces[tid]
NR == Batch.nr
Rel == 1..NR
Max(S) == CHOOSE x \in S : \A y \in S : y <= x
\* a view = [rels: sequence of listed release versions (sorted), gens: for each release index the sequence of generations]
\* generation = [n: number, states: sequence of content ids or -1 when missing/unreadable, tag: content id, ok: readable]
GenOf(view, r) == view.gens[r]
ViewMatches(view, pub, h) ==
    /\ {view.rels[i] : i \in 1..Len(view.rels)} = pub /\ Len(view.rels) = Cardinality(pub)
    /\ \A i \in 1..(Len(view.rels) - 1) : view.rels[i] < view.rels[i + 1]           \* listing sorted, duplicate free
    /\ view.pkgok = [i \in 1..Len(view.rels) |-> TRUE]                               \* every listed package complete
    /\ \A r \in Rel : Len(GenOf(view, r)) = Len(h[r])
    /\ \A r \in Rel : \A g \in 1..Len(h[r]) :
          LET o == GenOf(view, r)[g] IN o.n = g /\ o.ok /\ o.states = h[r][g].states /\ o.tag = h[r][g].tag
\* the generation a successful (or completed-before-crash) training must have added, bound from the observation
NewGen(view, r, n) == LET gs == GenOf(view, r) IN gs[Len(gs)]
Fresh(view, r, h) == LET g == NewGen(view, r, 0) IN
    /\ g.ok /\ g.n = Len(h[r]) + 1
    /\ \A k \in 1..Len(g.states) : g.states[k] >= 0
    /\ \A q \in Rel : \A j \in 1..Len(h[q]) : g.tag # h[q][j].tag                   \* a new tag, new states
Init == tid \in 1..Len(Batch.traces) /\ l = 1 /\ published = {} /\ hist = [r \in 1..Batch.nr |-> <<>>]
Ev == Tr[l]
Unchanged == published' = published /\ hist' = hist
PublishOk == /\ Ev.op = "publish" /\ Ev.res = "ok"
             /\ (IF published = {} THEN TRUE ELSE Ev.v > Max(published))                           \* accepted only as an increment
             /\ published' = published \cup {Ev.v} /\ hist' = hist
PublishRejected == /\ Ev.op = "publish" /\ Ev.res = "rejected"
                   /\ (IF published = {} THEN FALSE ELSE ~(Ev.v > Max(published)))                    \* refused only when not an increment
                   /\ Unchanged
TrainOk == /\ Ev.op = "train" /\ Ev.res = "ok" /\ Ev.r \in published
           /\ Len(GenOf(Ev.view, Ev.r)) = Len(hist[Ev.r]) + 1 /\ Fresh(Ev.view, Ev.r, hist)
           /\ Len(NewGen(Ev.view, Ev.r, 0).states) = Ev.n /\ NewGen(Ev.view, Ev.r, 0).states = Ev.written
           /\ hist' = [hist EXCEPT ![Ev.r] = Append(@, [states |-> NewGen(Ev.view, Ev.r, 0).states, tag |-> NewGen(Ev.view, Ev.r, 0).tag])]
           /\ published' = published
\* a crash: either nothing happened, or the complete new item is there
CrashOld == Ev.res = "crash" /\ Unchanged
CrashNewPublish == /\ Ev.op = "publish" /\ Ev.res = "crash" /\ (IF published = {} THEN TRUE ELSE Ev.v > Max(published))
                   /\ published' = published \cup {Ev.v} /\ hist' = hist
CrashNewTrain == /\ Ev.op = "train" /\ Ev.res = "crash" /\ Ev.r \in published
                 /\ Len(GenOf(Ev.view, Ev.r)) = Len(hist[Ev.r]) + 1 /\ Fresh(Ev.view, Ev.r, hist)
                 /\ NewGen(Ev.view, Ev.r, 0).states = Ev.written
                 /\ hist' = [hist EXCEPT ![Ev.r] = Append(@, [states |-> NewGen(Ev.view, Ev.r, 0).states, tag |-> NewGen(Ev.view, Ev.r, 0).tag])]
                 /\ published' = published
TrainRejected == Ev.op = "train" /\ Ev.res = "rejected" /\ Ev.r \notin published /\ Unchanged
Read == Ev.op = "read" /\ Unchanged
Step == /\ l <= Len(Tr)
        /\ (PublishOk \/ PublishRejected \/ TrainOk \/ TrainRejected \/ CrashOld \/ CrashNewPublish \/ CrashNewTrain \/ Read)
        /\ ViewMatches(Ev.view, published', hist')                                   \* what the fresh reader saw afterwards
        /\ l' = l + 1 /\ UNCHANGED tid
Spec == Init /\ [][Step]_vars
Track == TLCSet(tid, IF TLCGet(tid) < l THEN l ELSE TLCGet(tid))
ASSUME \A i \in 1..Len(Batch.traces) : TLCSet(i, 0)
Post == \A i \in 1..Len(Batch.traces) : PrintT(<<"VERDICT", i, TLCGet(i) - 1, Len(Batch.traces[i])>>)
=============================================================================
