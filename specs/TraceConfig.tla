---------------------------- MODULE TraceConfig ----------------------------
(***************************************************************************)
(* C20 - validation of observations recorded from the real                 *)
(* forml.setup Config / Provider / Feed sections (code -> spec).           *)
(*                                                                         *)
(* observation kind "merge":   stack (sources in order) and trail (the     *)
(*    projected content of the real Config after steps[i] sources); accepted *)
(*    step by step with ConfigOps!Accepts; drift = steps whose result is   *)
(*    not literally the canonical denotation Den (allowed list orders).    *)
(* observation kind "resolve": a configuration, a section group, the       *)
(*    requested reference(s) (or none = the `default` selector) and the    *)
(*    observed outcome; accepted iff it is what Resolve says.              *)
(* One VERDICT line per observation: <<"VERDICT", i, matched, len, drift>> *)
(***************************************************************************)
EXTENDS ConfigOps, Json, IOUtils, TLCExt
Batch == JsonDeserialize(IOEnv.TRACE_FILE)
VARIABLES tid
vars == <<tid>>
Obs == Batch.obs[tid]
Tbl(q) == Range(q)                                   \* JSON array of entries -> flat table
Tbls(qs) == [i \in 1..Len(qs) |-> Tbl(qs[i])]

(******************************* merge *************************************)
MergeMatched(o) ==
    LET S == Tbls(o.stack)
        RECURSIVE Upto(_)
        Upto(n) == IF n > Len(o.trail) THEN n - 1
                   ELSE IF Accepts(SubSeq(S, 1, o.steps[n]), Tbl(o.trail[n])) THEN Upto(n + 1) ELSE n - 1
    IN Upto(1)
MergeDrift(o) ==
    LET S == Tbls(o.stack)
    IN Cardinality({n \in 1..Len(o.trail) : Tbl(o.trail[n]) # Den(SubSeq(S, 1, o.steps[n]))})

(****************************** resolve ************************************)
\* o.cfg : flat table, o.group / o.index : section names, o.feed : priority is a semantic field,
\* o.refs : sequence of [key, code] (empty = use the default selector), o.keys : [key, code] of every
\* reference key of the group, o.multi : result is a sequence, o.out : [status, items]
\* item = [provider |-> code, priority |-> n, params |-> flat table]
Missing == [status |-> "missing", items |-> <<>>]
Group(o) == Sub(Tbl(o.cfg), o.group)
Present(o, key) == key \in Heads(Group(o)) /\ KindAt(Group(o), key) = "t"
Semantic(o) == {"provider", "params"} \cup (IF o.feed THEN {"priority"} ELSE {})
Item(o, r) ==
    LET sec == Sub(Group(o), r.key)
        nested == Sub(sec, "params")
        generic == {e \in sec : e.p[1] \notin Semantic(o)}
    IN [provider |-> IF HasLeaf(sec, "provider") THEN LeafAt(sec, "provider").s ELSE r.code,
        priority |-> IF o.feed /\ HasLeaf(sec, "priority") THEN LeafAt(sec, "priority").s ELSE 0,
        params |-> {e \in generic : e.p[1] \notin Heads(nested)} \cup nested]
\* references actually looked up: the given ones, or those named by the default selector of the index section
Selected(o) ==
    IF Len(o.refs) > 0 THEN o.refs
    ELSE LET idx == Sub(Tbl(o.cfg), o.index)
             codes == IF ~HasLeaf(idx, "default") THEN <<>>
                      ELSE IF LeafAt(idx, "default").k = "s" THEN <<LeafAt(idx, "default").s>>
                      ELSE LeafAt(idx, "default").l
         IN [i \in 1..Len(codes) |->
                IF \E x \in Range(o.keys) : x.code = codes[i]
                THEN CHOOSE x \in Range(o.keys) : x.code = codes[i]
                ELSE [key |-> "?", code |-> codes[i]]]
Before(a, b) == a.priority < b.priority \/ (a.priority = b.priority /\ a.provider <= b.provider)
Count(q, x) == Cardinality({i \in 1..Len(q) : q[i] = x})
ItemOf(j) == [provider |-> j.provider, priority |-> j.priority, params |-> Tbl(j.params)]
ResolveOK(o) ==
    LET sel == Selected(o)
        out == o.out
    IN IF Len(sel) = 0 \/ \E i \in 1..Len(sel) : ~Present(o, sel[i].key)
       THEN out.status = "missing"
       ELSE LET want == [i \in 1..Len(sel) |-> Item(o, sel[i])]
                got == [i \in 1..Len(out.items) |-> ItemOf(out.items[i])]
            IN /\ out.status = "ok"
               /\ Len(got) = Len(want)
               /\ \A x \in Range(want) \cup Range(got) : Count(got, x) = Count(want, x)
               /\ (o.multi => \A i \in 1..(Len(got) - 1) : Before(got[i], got[i + 1]))

Verdict(o) == IF o.kind = "merge" THEN <<MergeMatched(o), Len(o.trail), MergeDrift(o)>>
              ELSE <<IF ResolveOK(o) THEN 1 ELSE 0, 1, 0>>

Init == tid \in 1..Len(Batch.obs)
Next == UNCHANGED vars
Spec == Init /\ [][Next]_vars
Track == TLCSet(tid, Verdict(Obs))
ASSUME \A i \in 1..Len(Batch.obs) : TLCSet(i, <<0, 0, 0>>)
Post == \A i \in 1..Len(Batch.obs) :
           PrintT(<<"VERDICT", i, TLCGet(i)[1], TLCGet(i)[2], TLCGet(i)[3]>>)
=============================================================================
