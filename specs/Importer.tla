------------------------------ MODULE Importer ------------------------------
(***************************************************************************)
(* C09.  A feed is selected exactly when it can resolve the statement.     *)
(* Requirement level.                                                      *)
(*                                                                         *)
(* Input (JSON, written by harness/drivers/C09.py from the shared          *)
(* generator harness/dslgen.py; shapes of DslAst):                         *)
(*   D.stmts[s] = [ast    - the statement,                                 *)
(*                 subs   - paths ("l"/"r" steps) of its distinct           *)
(*                          sub-sources = the catalog a feed may advertise: *)
(*                          tables, references, joins, sub-queries, sets    *)
(*                          and the statement itself,                      *)
(*                 tree / root - the statement as a tree over catalog       *)
(*                          indices (re-derived and compared by TLC:       *)
(*                          InputOK),                                      *)
(*                 extras - near-miss sources that are NOT part of the     *)
(*                          statement (other join kind, other reference    *)
(*                          name, twin table...),                          *)
(*                 obs    - observations recorded from the real code       *)
(*                          (TraceImporter only)]                          *)
(*                                                                         *)
(* State: the statement, the pool of registered feeds (priority,           *)
(* advertised subset of the catalog, near-misses advertised or not), the   *)
(* answer of the importer and the outcome of every feed's parser.          *)
(*                                                                         *)
(*   Register(p, a, x)  a feed joins the pool                              *)
(*   Match(j)           the importer answers feed j: j covers the          *)
(*                      statement and no covering feed has a higher        *)
(*                      priority (equal priorities: either is allowed)     *)
(*   Missing            the importer raises the missing-source error: only *)
(*                      when no feed covers the statement                  *)
(*   Parse(j)           feed j's parser is run on the statement: it        *)
(*                      resolves it iff the feed covers it, otherwise it   *)
(*                      reports an unprovisioned source                    *)
(*                                                                         *)
(* Covers(adv, n): n is advertised itself, or n is not a table and every   *)
(* source n is made of is covered ("directly or through an advertised      *)
(* sub-statement").  CutCovers is the same notion said independently:      *)
(* every path from the statement down to a table it reads meets an         *)
(* advertised source.  Resolve is what resolution has to do: stop at the   *)
(* outermost advertised source of every branch and use its native mapping. *)
(***************************************************************************)
EXTENDS DslAst, Json, IOUtils, TLCExt
CONSTANTS MaxFeeds,   \* pool size bound
          Prios,      \* priorities (integers; the driver maps them monotonically to configured priorities, the
                      \* largest one standing for an explicitly passed instance = infinite priority)
          Choice,     \* "all": every subset of the catalog is an advertised set; "menu": see Menu
          Extras,     \* TRUE: near-miss sources may be advertised on top of (small) advertised sets
          ExportOn    \* TRUE: print one JSON line per pool with the expected verdicts

D == JsonDeserialize(IOEnv.C09_INPUT)
NS == Len(D.stmts)
Ast(s) == D.stmts[s].ast

RECURSIVE At(_, _), SourcesOf(_)
At(node, path) == IF path = <<>> THEN node
                  ELSE At(IF Head(path) = "l" THEN node.l ELSE node.r, Tail(path))
\* the catalog of a statement: everything a feed can advertise to provide (a part of) it
SourcesOf(n) ==
    CASE n.t = "table" -> {n}
      [] n.t \in {"ref", "query"} -> {n} \cup SourcesOf(n.l)
      [] n.t \in {"join", "set"} -> {n} \cup SourcesOf(n.l) \cup SourcesOf(n.r)
      [] OTHER -> {}
KidsOf(n) == CASE n.t \in {"ref", "query"} -> <<n.l>>
               [] n.t \in {"join", "set"} -> <<n.l, n.r>>
               [] OTHER -> <<>>

Cat(s) == [i \in DOMAIN D.stmts[s].subs |-> At(Ast(s), D.stmts[s].subs[i])]
IdxIn(cat, node) == CHOOSE i \in DOMAIN cat : cat[i] = node
\* the statement as a tree over catalog indices: T[i] = [t |-> sort of source, kids |-> <<catalog indices>>]
TreeOf(s) == LET cat == Cat(s) IN
             [i \in DOMAIN cat |-> [t |-> cat[i].t,
                                    kids |-> [k \in DOMAIN KidsOf(cat[i]) |-> IdxIn(cat, KidsOf(cat[i])[k])]]]
\* the driver ships the same tree (D.stmts[s].tree / .root) so that TLC derives it only once per statement: InputOK
Trees == [s \in 1..NS |-> D.stmts[s].tree]
Roots == [s \in 1..NS |-> D.stmts[s].root]

\* the translation the driver did (paths of the distinct sub-sources) is exactly the spec's catalog; the near-misses
\* are foreign to the statement; the statement conforms to the documented grammar (the property is silent otherwise)
InputOK(s) == /\ TreeOf(s) = D.stmts[s].tree /\ IdxIn(Cat(s), Ast(s)) = D.stmts[s].root
              /\ {Cat(s)[i] : i \in DOMAIN Cat(s)} = SourcesOf(Ast(s))
              /\ \A i, j \in DOMAIN Cat(s) : Cat(s)[i] = Cat(s)[j] => i = j
              /\ \A k \in DOMAIN D.stmts[s].extras : D.stmts[s].extras[k] \notin SourcesOf(Ast(s))
              /\ IsStatement(Ast(s)) /\ WellFormed(Ast(s))

(* ------------------------------ the requirement, over a tree T --------------------------------------- *)
RECURSIVE Covers(_, _, _), LeafPaths(_, _), Resolve(_, _, _), TablesUnder(_, _)
Covers(T, adv, i) == \/ i \in adv
                     \/ /\ T[i].t # "table"
                        /\ \A k \in DOMAIN T[i].kids : Covers(T, adv, T[i].kids[k])
LeafPaths(T, i) == IF T[i].t = "table" THEN {<<i>>}
                   ELSE UNION {{<<i>> \o p : p \in LeafPaths(T, T[i].kids[k])} : k \in DOMAIN T[i].kids}
CutCovers(T, adv, i) == \A p \in LeafPaths(T, i) : \E j \in DOMAIN p : p[j] \in adv
TablesUnder(T, i) == IF T[i].t = "table" THEN {i} ELSE UNION {TablesUnder(T, T[i].kids[k]) : k \in DOMAIN T[i].kids}
\* resolution: [ok, reads] - reads = the advertised sources whose native mapping the resolved statement is built from
Resolve(T, adv, i) ==
    IF i \in adv THEN [ok |-> TRUE, reads |-> {i}]
    ELSE IF T[i].t = "table" THEN [ok |-> FALSE, reads |-> {}]
    ELSE LET rs == [k \in DOMAIN T[i].kids |-> Resolve(T, adv, T[i].kids[k])] IN
         [ok |-> \A k \in DOMAIN rs : rs[k].ok, reads |-> UNION {rs[k].reads : k \in DOMAIN rs}]
Resolvable(T, adv, i) == Resolve(T, adv, i).ok
\* input class used for triage: the feed covers the statement although a table the statement reads is not advertised
\* itself (it is only available inside an advertised enclosing reference / join / set / query)
ThroughNonLeafOnly(T, adv, i) == Covers(T, adv, i) /\ TablesUnder(T, i) \ adv # {}

(* ------------------------------ state machine --------------------------------------------------------- *)
VARIABLES sid, pool, phase, sel, parsed
vars == <<sid, pool, phase, sel, parsed>>
T == Trees[sid]
Root == Roots[sid]
Idx == DOMAIN Trees[sid]
Feeds == DOMAIN pool
FeedCovers(j) == Covers(T, pool[j].adv, Root)
Eligible == {j \in Feeds : FeedCovers(j)}
Best == {j \in Eligible : \A i \in Eligible : pool[i].prio <= pool[j].prio}
Expected(j) == IF Resolvable(T, pool[j].adv, Root) THEN "ok" ELSE "UnprovisionedError"

Menu == {a \in SUBSET Idx : Cardinality(a) <= 2} \cup {TablesUnder(T, Root)}
          \cup {TablesUnder(T, Root) \ {t} : t \in TablesUnder(T, Root)}
AdvChoices == IF Choice = "all" THEN SUBSET Idx ELSE Menu
XChoices(a) == IF Extras /\ Cardinality(a) <= 1 /\ D.stmts[sid].extras # <<>> THEN BOOLEAN ELSE {FALSE}

Init == sid \in 1..NS /\ pool = <<>> /\ phase = "pool" /\ sel = -1 /\ parsed = <<>>
Register(p, a, x) == /\ phase = "pool" /\ Len(pool) < MaxFeeds
                     /\ pool' = Append(pool, [prio |-> p, adv |-> a, x |-> x])
                     /\ UNCHANGED <<sid, phase, sel, parsed>>
Match(j) == /\ phase = "pool" /\ pool # <<>> /\ j \in Best
            /\ sel' = j /\ phase' = "matched" /\ UNCHANGED <<sid, pool, parsed>>
Missing == /\ phase = "pool" /\ pool # <<>> /\ Eligible = {}
           /\ sel' = 0 /\ phase' = "missing" /\ UNCHANGED <<sid, pool, parsed>>
\* the parsers are asked in pool order (one feed per step)
Parse(j) == /\ phase \in {"matched", "missing"} /\ j = Len(parsed) + 1 /\ j \in Feeds
            /\ parsed' = Append(parsed, Expected(j))
            /\ UNCHANGED <<sid, pool, phase, sel>>
RegisterAny == \E p \in Prios, a \in AdvChoices : \E x \in XChoices(a) : Register(p, a, x)
MatchAny == \E j \in Feeds : Match(j)
ParseNext == \E j \in Feeds : Parse(j)
Next == RegisterAny \/ MatchAny \/ Missing \/ ParseNext
Spec == Init /\ [][Next]_vars

(* ------------------------------ the clauses of the property ------------------------------------------- *)
Answered == phase \in {"matched", "missing"}
\* "returns [a] feed whose advertised sources cover everything the statement reads"
SelectedCovers == phase = "matched" => CutCovers(T, pool[sel].adv, Root)
\* "the highest-priority [one]"
HighestPriority == phase = "matched" => \A j \in Feeds : CutCovers(T, pool[j].adv, Root) => pool[j].prio <= pool[sel].prio
\* "raises the missing-source error only if no feed does", and an answer always exists
MissingOnlyIfNone == phase = "missing" => \A j \in Feeds : ~CutCovers(T, pool[j].adv, Root)
Decides == (phase = "pool" /\ pool # <<>>) => (Best # {} \/ Eligible = {})
\* "the selected feed's parser then resolves the statement without reporting an unprovisioned source"
SelectedParses == (phase = "matched" /\ sel \in DOMAIN parsed) => parsed[sel] = "ok"
\* "a feed passed over for lacking a source could not have parsed it"
PassedOverCannotParse == \A j \in DOMAIN parsed : ~CutCovers(T, pool[j].adv, Root) => parsed[j] = "UnprovisionedError"
\* Covers(feed, stmt) <=> Resolvable(feed, stmt), and the two readings of "covers" coincide
CoversIffResolvable == \A j \in Feeds : FeedCovers(j) <=> Resolvable(T, pool[j].adv, Root)
CoversIsCut == \A j \in Feeds : FeedCovers(j) <=> CutCovers(T, pool[j].adv, Root)
\* a resolved statement is built from advertised sources only: exactly the outermost advertised source on every
\* path from the statement to a table it reads
FirstAdvertised(p, adv) == p[MinOf({k \in DOMAIN p : p[k] \in adv})]
ReadsAdvertisedCut == \A j \in Feeds : LET r == Resolve(T, pool[j].adv, Root) IN
                         /\ r.reads \subseteq pool[j].adv
                         /\ r.ok => r.reads = {FirstAdvertised(p, pool[j].adv) : p \in LeafPaths(T, Root)}
\* near-miss sources never help; advertising more never hurts
Monotone == \A j \in Feeds : FeedCovers(j) => \A i \in Idx : Covers(T, pool[j].adv \cup {i}, Root)
InputsOK == (pool = <<>>) => InputOK(sid)

(* ------------------------------ export (spec -> code) -------------------------------------------------- *)
Shown(f) == [p |-> f.prio, a |-> f.adv, x |-> f.x]
Export == (ExportOn /\ phase = "pool" /\ pool # <<>>) =>
            PrintT(ToJson([s |-> sid, pool |-> [j \in Feeds |-> Shown(pool[j])],
                           best |-> Best,
                           cov |-> [j \in Feeds |-> FeedCovers(j)],
                           cls |-> [j \in Feeds |-> ThroughNonLeafOnly(T, pool[j].adv, Root)],
                           reads |-> [j \in Feeds |-> Resolve(T, pool[j].adv, Root).reads]]))
\* one witness per abstract pool (priority, covers, triage class of every feed) - used for the pool-level runs
Abstract == [j \in Feeds |-> <<pool[j].prio, FeedCovers(j), ThroughNonLeafOnly(T, pool[j].adv, Root)>>]
View == <<sid, Abstract, phase, sel, parsed>>
=============================================================================
