--------------------------- MODULE TraceStrategy ---------------------------
(* Validates pick sequences recorded from the real forml.application.ABTest *)
(* against the requirement of Strategy.tla (bound after EVERY prefix) and   *)
(* measures drift against the implementation rule RuleName.                 *)
EXTENDS Integers, Sequences, TLC, Json, IOUtils, TLCExt
CONSTANT RuleName
Batch == JsonDeserialize(IOEnv.TRACE_FILE)
VARIABLES tid, l, d, drift
vars == <<tid, l, d, drift>>
Tr == Batch.traces[tid]
K == Len(Tr.w)
Slots == 1..K
RECURSIVE SumTo(_, _)
SumTo(f, i) == IF i = 0 THEN 0 ELSE f[i] + SumTo(f, i - 1)
W == SumTo(Tr.w, K)
Ahead(i) == d[i] + Tr.w[i]
Eligible(i) == Ahead(i) > 0
After(s) == [i \in Slots |-> Ahead(i) - (IF i = s THEN W ELSE 0)]
Within(dd) == \A i \in Slots : dd[i] <= W /\ -dd[i] <= W
\* slot order of the implementation: descending weight, ties in construction order
Before(i, j) == Tr.w[i] > Tr.w[j] \/ (Tr.w[i] = Tr.w[j] /\ i < j)
FirstEligible == {i \in Slots : Eligible(i) /\ \A j \in Slots : Before(j, i) => ~Eligible(j)}
MaxDeficit == {i \in Slots : Eligible(i) /\ \A j \in Slots : Eligible(j) =>
                     (Ahead(i) > Ahead(j) \/ (Ahead(i) = Ahead(j) /\ (i = j \/ Before(i, j))))}
\* earliest deadline first with ties left open (see Strategy.tla)
Earlier(i, j) == (W - d[i]) * Tr.w[j] < (W - d[j]) * Tr.w[i]
Tied(i, j) == (W - d[i]) * Tr.w[j] = (W - d[j]) * Tr.w[i]
EdfAnyTie == {i \in Slots : Eligible(i) /\ \A j \in Slots : Eligible(j) => (Earlier(i, j) \/ Tied(i, j))}
RulePick == CASE RuleName = "first" -> FirstEligible [] RuleName = "maxdef" -> MaxDeficit [] OTHER -> EdfAnyTie

Init == tid \in 1..Len(Batch.traces) /\ l = 1 /\ d = [i \in 1..Len(Batch.traces[tid].w) |-> 0] /\ drift = 0
\* one event = one answered request; "fail" events (selection raised) are never accepted
Select == /\ l <= Len(Tr.picks)
          /\ Tr.picks[l] \in Slots
          /\ LET s == Tr.picks[l] IN
               /\ Within(After(s))                      \* requirement: the share bound after this prefix
               /\ d' = After(s)
               /\ drift' = drift + (IF s \in RulePick THEN 0 ELSE 1)
          /\ l' = l + 1 /\ UNCHANGED tid
Next == Select
Spec == Init /\ [][Next]_vars
Track == TLCSet(tid, IF TLCGet(tid)[1] < l THEN <<l, drift>> ELSE TLCGet(tid))
ASSUME \A i \in 1..Len(Batch.traces) : TLCSet(i, <<0, 0>>)
Post == \A i \in 1..Len(Batch.traces) :
           PrintT(<<"VERDICT", i, TLCGet(i)[1] - 1, Len(Batch.traces[i].picks), TLCGet(i)[2]>>)
=============================================================================
