----------------------------- MODULE GatewayMC -----------------------------
(* Bounded instances of Gateway.tla (cfg files cannot hold records).        *)
EXTENDS Gateway
Rg(t, s, o, q) == [t |-> t, s |-> s, opts |-> o, q |-> q]
Csv == <<Rg("text", "csv", {}, Neg!NoQ)>>
CsvLate == <<Rg("foo", "bar", {}, 500), Rg("text", "csv", {}, Neg!NoQ)>>        \* foo/bar;q=0.5, text/csv
FooFirst == <<Rg("foo", "bar", {}, Neg!NoQ), Rg("text", "*", {}, 500)>>         \* foo/bar, text/*;q=0.5
Foo == <<Rg("foo", "bar", {}, Neg!NoQ)>>
CsvUtf8 == <<Rg("text", "csv", {<<"charset", "utf-8">>}, Neg!NoQ)>>
Q(app, ct, acc, body, fault) == [app |-> app, ctype |-> ct, accept |-> acc, body |-> body, fault |-> fault]
McApps == [a \in {"app1", "app2"} |-> IF a = "app1" THEN [inst |-> "i1", stamp |-> 1] ELSE [inst |-> "i2", stamp |-> 2]]
McReqsA == <<Q("app1", Csv, <<>>, 1, "none"), Q("app2", CsvLate, FooFirst, 2, "none"),
             Q("nope", Csv, Csv, 3, "none"), Q("app1", Foo, Csv, 4, "none")>>
McReqsB == <<Q("app2", Csv, Foo, 1, "none"), Q("app1", <<>>, Csv, 2, "none"),
             Q("app1", Csv, CsvUtf8, 3, "none"), Q("app2", CsvUtf8, Csv, 4, "poison"), Q("app2", Csv, Csv, 5, "none")>>
=============================================================================
