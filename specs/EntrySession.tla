---------------------------- MODULE EntrySession ----------------------------
(***************************************************************************)
(* C15 (a reader serves many requests).  The feed reader behind a served    *)
(* project is one long-lived object: it answers request after request of    *)
(* the same apply query.  "For EVERY request entry ..." therefore ranges    *)
(* over every request of every such session: what is delivered for a        *)
(* request is determined by the query and by that request alone             *)
(* (Entry!Aligned mentions nothing else) - never by the requests the reader *)
(* happened to serve before (their column order, their kinds, whether they  *)
(* were refused).                                                           *)
(*                                                                          *)
(* Behaviours: a query is declared once; then up to MaxReq requests are     *)
(* served one after the other.  A follow-up request is                      *)
(*   - any entry of Entry.tla again (FreeFollowUp), or                      *)
(*   - the SAME columns sent again in another (or the same) arrangement:    *)
(*     fields and values move together (Resend) - the arrangements an       *)
(*     implementation is most likely to confuse with one another.           *)
(* Every clause of Entry.tla is checked at every request; in addition       *)
(* ArrangementFree: two well-formed requests of one session holding the     *)
(* same columns get the same table, however the columns are arranged and    *)
(* whatever was served in between.  Every complete session is exported and  *)
(* replayed on ONE real reader.                                             *)
(***************************************************************************)
EXTENDS MatchEntryImpl

CONSTANTS MaxReq,        \* requests per session
          FreeFollowUp   \* follow-up requests are also arranged from scratch

VARIABLE past            \* the requests served before the current one: <<[e, d, out], ...>>
ssvars == <<q, e, d, phase, out, past>>

Perms(n) == {p \in [1..n -> 1..n] : \A i, j \in 1..n : p[i] = p[j] => i = j}
Served1(E, D, o) == [e |-> E, d |-> D, out |-> o]

SessInit == Init /\ past = <<>>
ArrangeS == Build /\ UNCHANGED past
ServeS == ServeImpl /\ UNCHANGED past
More == phase = "served" /\ Len(past) + 1 < MaxReq
\* the next request is arranged from scratch
Another == /\ FreeFollowUp /\ More
           /\ past' = Append(past, Served1(e, d, out))
           /\ e' = <<>> /\ d' = <<>> /\ out' = NoOut /\ phase' = "entry"
           /\ UNCHANGED q
\* the next request holds the same columns, arranged by p
Resend(p) == /\ More
             /\ past' = Append(past, Served1(e, d, out))
             /\ e' = [c \in DOMAIN e |-> e[p[c]]]
             /\ d' = [r \in DOMAIN d |-> [c \in DOMAIN e |-> d[r][p[c]]]]
             /\ out' = NoOut /\ phase' = "filled"
             /\ UNCHANGED q
AnyResend == \E p \in Perms(Len(e)) : Resend(p)
SessNext == ArrangeS \/ ServeS \/ Another \/ AnyResend
SessSpec == SessInit /\ [][SessNext]_ssvars

(*************************** clauses (invariants) ***************************)
\* the columns of a request as a set: a field together with its values
ColumnsOf(E, D) == {[f |-> E[c], col |-> [r \in DOMAIN D |-> D[r][c]]] : c \in DOMAIN E}
SameColumns(E1, D1, E2, D2) == Len(E1) = Len(E2) /\ Len(D1) = Len(D2) /\ ColumnsOf(E1, D1) = ColumnsOf(E2, D2)
ArrangementFree == (Served /\ WellFormed(e)) =>
    \A k \in DOMAIN past : SameColumns(past[k].e, past[k].d, e, d) => past[k].out = out
\* every earlier answer was - and stays - one the requirement allows for that request alone
PastAligned == \A k \in DOMAIN past : Aligned(q, past[k].e, past[k].d, past[k].out)

Complete_ == Served /\ Len(past) + 1 = MaxReq
SessVector == [q |-> Vector.q,
               reqs |-> [k \in 1..(Len(past) + 1) |->
                            IF k <= Len(past) THEN VectorOf(q, past[k].e, past[k].d) ELSE Vector]]
ExportSess == (ExportOn /\ Complete_) => PrintT(ToJson(SessVector))
=============================================================================
