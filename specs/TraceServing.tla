---------------------------- MODULE TraceServing ----------------------------
(***************************************************************************)
(* C16 code -> spec: the task life-cycle events emitted by the guarded     *)
(* hooks in forml/runtime/_service/prediction.py (submit / take / done /   *)
(* resolve, start) and by the harness model (exec), one log per process    *)
(* with a per-process sequence number and NO global clock.  Every event    *)
(* must be a step of the task protocol of Serving.tla refined to task ids: *)
(*   submit(e, t)   t is the next id of executor e, never reused           *)
(*   take(w, t)     w is an idle worker of e's pool, t the oldest          *)
(*                  submitted and not yet taken task of e (FIFO queue)     *)
(*   exec(w, rid)   the model runs inside the task w holds                 *)
(*   done(w, t, s)  w finishes the task it holds                           *)
(*   resolve(e,t,s) a finished task is resolved once, with its own status  *)
(* Enabling is monotone (an enabled event stays enabled until taken), so   *)
(* a fixed scheduling - always the lowest process with an enabled event -   *)
(* consumes every event iff any interleaving does: validation is linear.   *)
(***************************************************************************)
EXTENDS Naturals, Sequences, FiniteSets, TLC, Json, IOUtils, TLCExt
Batch == JsonDeserialize(IOEnv.TRACE_FILE)
VARIABLES tid, pos, pools, nsub, sub, taken, running, fin, resolved, bind
vars == <<tid, pos, pools, nsub, sub, taken, running, fin, resolved, bind>>
Run == Batch.runs[tid]
Procs == 1..Len(Run.procs)
Log(p) == Run.procs[p]
More(p) == pos[p] <= Len(Log(p))
Ev(p) == Log(p)[pos[p]]
NoTask == <<0, 0>>
ExecOf(p) == LET S == {x \in pools : x[2] = Ev(p).ppid} IN IF S = {} THEN 0 ELSE (CHOOSE x \in S : TRUE)[1]
Untaken(e) == {x \in sub \ taken : x[1] = e}
Can(p) ==
    More(p) /\
    LET ev == Ev(p) IN
    CASE ev.ev = "start"   -> TRUE
      [] ev.ev = "submit"  -> ev.task = nsub[ev.executor] /\ <<ev.executor, ev.task>> \notin sub
      [] ev.ev = "take"    -> LET e == ExecOf(p) IN
                                /\ e # 0 /\ running[p] = NoTask /\ <<e, ev.task>> \in Untaken(e)
                                /\ \A x \in Untaken(e) : ev.task <= x[2]
      [] ev.ev = "exec"    -> running[p] # NoTask
      [] ev.ev = "done"    -> running[p] # NoTask /\ running[p][2] = ev.task
      [] ev.ev = "resolve" -> /\ \E x \in fin : x[1] = ev.executor /\ x[2] = ev.task /\ x[3] = ev.status
                              /\ <<ev.executor, ev.task>> \notin resolved
      [] OTHER -> FALSE
Sched == CHOOSE p \in Procs : Can(p) /\ \A q \in Procs : q < p => ~Can(q)
Init == /\ tid \in 1..Len(Batch.runs)
        /\ pos = [p \in 1..Len(Batch.runs[tid].procs) |-> 1]
        /\ pools = {} /\ nsub = [e \in 1..Batch.runs[tid].executors |-> 0] /\ sub = {} /\ taken = {}
        /\ running = [p \in 1..Len(Batch.runs[tid].procs) |-> NoTask] /\ fin = {} /\ resolved = {} /\ bind = {}
Step == /\ \E p \in Procs : Can(p)
        /\ LET p == Sched  ev == Ev(p) IN
           /\ pos' = [pos EXCEPT ![p] = @ + 1]
           /\ pools' = IF ev.ev = "start" THEN pools \cup {<<ev.executor, ev.pool>>} ELSE pools
           /\ nsub' = IF ev.ev = "submit" THEN [nsub EXCEPT ![ev.executor] = @ + 1] ELSE nsub
           /\ sub' = IF ev.ev = "submit" THEN sub \cup {<<ev.executor, ev.task>>} ELSE sub
           /\ taken' = IF ev.ev = "take" THEN taken \cup {<<ExecOf(p), ev.task>>} ELSE taken
           /\ running' = CASE ev.ev = "take" -> [running EXCEPT ![p] = <<ExecOf(p), ev.task>>]
                           [] ev.ev = "done" -> [running EXCEPT ![p] = NoTask]
                           [] OTHER -> running
           /\ fin' = IF ev.ev = "done" THEN fin \cup {<<running[p][1], ev.task, IF ev.status = "ok" THEN "ok" ELSE "error">>} ELSE fin
           /\ resolved' = IF ev.ev = "resolve" THEN resolved \cup {<<ev.executor, ev.task>>} ELSE resolved
           /\ bind' = IF ev.ev = "exec" THEN bind \cup {<<running[p][1], running[p][2], ev.rid, ev.stamp>>} ELSE bind
        /\ UNCHANGED tid
Spec == Init /\ [][Step]_vars
Consumed == LET RECURSIVE S(_) S(p) == IF p = 0 THEN 0 ELSE (pos[p] - 1) + S(p - 1) IN S(Len(Run.procs))
Total(i) == LET R == Batch.runs[i] RECURSIVE S(_) S(p) == IF p = 0 THEN 0 ELSE Len(R.procs[p]) + S(p - 1) IN S(Len(R.procs))
\* register: <<events consumed, complete?>> - complete = every submitted task was taken, finished and resolved exactly once
Complete == sub = taken /\ sub = resolved /\ Cardinality(fin) = Cardinality(sub) /\ \A p \in Procs : running[p] = NoTask
Track == TLCSet(tid, IF TLCGet(tid)[1] <= Consumed THEN <<Consumed, IF Complete THEN 1 ELSE 0, bind>> ELSE TLCGet(tid))
ASSUME \A i \in 1..Len(Batch.runs) : TLCSet(i, <<0, 0, {}>>)
Post == \A i \in 1..Len(Batch.runs) : PrintT(<<"VERDICT", i, TLCGet(i)[1], Total(i), TLCGet(i)[2]>>) /\ PrintT(ToJson([run |-> i, bind |-> TLCGet(i)[3]]))
=============================================================================
