------------------------------ MODULE Compiler ------------------------------
(***************************************************************************)
(* C01 - the compiled instruction table preserves the task-graph dataflow. *)
(*                                                                         *)
(* Three parts (developed from design-probes/P.tla):                        *)
(*  1. a generator of VALID segments (build phase): a 0:1 source, M:N        *)
(*     workers wired to arbitrary upstream output ports, forks inside a      *)
(*     group, one trainer per stateful group fed from arbitrary upstream     *)
(*     ports, and a persistent list = any permutation of any subset of the   *)
(*     stateful groups (train mode: every listed group has its trainer,      *)
(*     apply mode: none has);                                                *)
(*  2. the REQUIREMENT: Den(n), the value of every node obtained by          *)
(*     evaluating the task graph directly over uninterpreted terms, the      *)
(*     states loaded / committed at the persistent list positions;           *)
(*  3. CompilerImpl: Table.add transcribed (one Visit(n) per node, in ANY    *)
(*     order), emission (alias merge, prefixed-reversed + absolute args,     *)
(*     stub-getter pruning) and Ev, a dependency-ordered evaluation of the   *)
(*     emitted table.  Sound == Ev = Den for every node and commit.          *)
(***************************************************************************)
EXTENDS Naturals, Sequences, FiniteSets, TLC, Json
CONSTANTS MaxN, MaxOut, MaxIn,
          Orders     \* "all": every visit order; "none": stop after the build phase (export only)

\* ---------- terms (uniform record shape) ----------
Nil == [tag |-> "nil", id |-> 0, args |-> <<>>]
T(tag, id, args) == [tag |-> tag, id |-> id, args |-> args]

\* ---------- graph ----------
\* node: [szin, szout, grp, trained, ins] ; ins = sequence of <<pub, idx>> (apply inputs, or <<train,label>> sources for trained)
VARIABLES nodes, sfgrp, pers, phase, visited, index, absl, prel, committer, fresh
vars == <<nodes, sfgrp, pers, phase, visited, index, absl, prel, committer, fresh>>

N == Len(nodes)
Mappers == {n \in 1..N : ~nodes[n].trained}
Outs == {<<n, i>> : n \in Mappers, i \in 1..MaxOut}
ValidOuts == {o \in Outs : o[2] <= nodes[o[1]].szout}
Groups == {nodes[n].grp : n \in 1..N}
TrainedOf(g) == {n \in 1..N : nodes[n].grp = g /\ nodes[n].trained}
Derived(n) == ~nodes[n].trained /\ sfgrp[nodes[n].grp] /\ TrainedOf(nodes[n].grp) # {}
Persistent(g) == \E i \in 1..Len(pers) : pers[i] = g
Offset(g) == CHOOSE i \in 1..Len(pers) : pers[i] = g

Init == /\ nodes = << [szin |-> 0, szout |-> 1, grp |-> 1, trained |-> FALSE, ins |-> <<>>] >>
        /\ sfgrp = [g \in 1..MaxN |-> FALSE]
        /\ pers = <<>> /\ phase = "build" /\ visited = {} /\ index = <<>> /\ absl = <<>> /\ prel = <<>>
        /\ committer = 0 /\ fresh = 1000

SeqsOf(S, k) == [1..k -> S]

AddWorker == /\ phase = "build" /\ N < MaxN
             /\ \E szin \in 1..MaxIn, szout \in 1..MaxOut, sf \in BOOLEAN :
                \E ins \in SeqsOf(ValidOuts, szin) :
                   /\ nodes' = Append(nodes, [szin |-> szin, szout |-> szout, grp |-> N+1, trained |-> FALSE, ins |-> ins])
                   /\ sfgrp' = [sfgrp EXCEPT ![N+1] = sf]
             /\ UNCHANGED <<pers, phase, visited, index, absl, prel, committer, fresh>>

AddFork == /\ phase = "build" /\ N < MaxN
           /\ \E m \in Mappers \ {1} : \E ins \in SeqsOf(ValidOuts, nodes[m].szin) :
                 nodes' = Append(nodes, [nodes[m] EXCEPT !.ins = ins])
           /\ UNCHANGED <<sfgrp, pers, phase, visited, index, absl, prel, committer, fresh>>

\* upstream closure over data edges AND implicit state edges (an applied member of a trained group depends on
\* whatever feeds the group's trainer); fuel bounds the recursion
RECURSIVE UpR(_, _)
UpR(S, fuel) ==
    LET data == UNION {{nodes[n].ins[i][1] : i \in 1..Len(nodes[n].ins)} : n \in S}
        state == UNION {TrainedOf(nodes[n].grp) : n \in {m \in S : ~nodes[m].trained /\ sfgrp[nodes[m].grp]}}
        T2 == S \cup data \cup state
    IN IF fuel = 0 \/ T2 = S THEN T2 ELSE UpR(T2, fuel - 1)
Up(n) == UpR({n}, MaxN)
GroupFree(o, g) == \A m \in Up(o[1]) : nodes[m].grp # g
AddTrainer == /\ phase = "build" /\ N < MaxN
              /\ \E g \in Groups : /\ sfgrp[g] /\ TrainedOf(g) = {}
                   /\ \E ts \in ValidOuts, ls \in ValidOuts : GroupFree(ts, g) /\ GroupFree(ls, g) /\
                        nodes' = Append(nodes, [szin |-> 0, szout |-> 0, grp |-> g, trained |-> TRUE, ins |-> <<ts, ls>>])
              /\ UNCHANGED <<sfgrp, pers, phase, visited, index, absl, prel, committer, fresh>>

\* choose persistent list: any sequence without repetition of stateful groups
StatefulGroups == {g \in Groups : sfgrp[g]}
Perms(S) == {s \in UNION {[1..k -> S] : k \in 0..Cardinality(S)} : \A i, j \in DOMAIN s : i # j => s[i] # s[j]}
Finish == /\ phase = "build" /\ N >= 2
          /\ \E p \in Perms(StatefulGroups) :
                /\ LET tr == {i \in DOMAIN p : TrainedOf(p[i]) # {}} IN tr = {} \/ tr = DOMAIN p
                /\ pers' = p
          /\ phase' = "compile"
          /\ UNCHANGED <<nodes, sfgrp, visited, index, absl, prel, committer, fresh>>

\* ---------- denotation of the graph ----------
\* Evaluated bottom-up with memoisation (a recursive definition would re-evaluate shared sub-graphs exponentially):
\* vals[n] is the value of node n once all its dependencies (data inputs, and the trainer of its group when the node
\* is an applied member of a trained stateful group) have a value.
PrevState(g) == IF Persistent(g) THEN T("loaded", Offset(g), <<>>) ELSE Nil
Deps(n) == {nodes[n].ins[i][1] : i \in 1..Len(nodes[n].ins)}
           \cup (IF ~nodes[n].trained /\ sfgrp[nodes[n].grp] THEN TrainedOf(nodes[n].grp) ELSE {})
OutTermV(vals, o) == IF nodes[o[1]].szout = 1 THEN vals[o[1]] ELSE T("out", o[2], <<vals[o[1]]>>)
StateOfV(vals, g) == IF TrainedOf(g) # {} THEN vals[CHOOSE n \in TrainedOf(g) : TRUE] ELSE PrevState(g)
ValV(vals, n) ==
    IF nodes[n].trained
    THEN T("st", nodes[n].grp, <<PrevState(nodes[n].grp), OutTermV(vals, nodes[n].ins[1]), OutTermV(vals, nodes[n].ins[2])>>)
    ELSE T("app", nodes[n].grp, <<IF sfgrp[nodes[n].grp] THEN StateOfV(vals, nodes[n].grp) ELSE Nil>>
                                 \o [i \in 1..nodes[n].szin |-> OutTermV(vals, nodes[n].ins[i])])
RECURSIVE DenFix(_, _)
DenFix(vals, done) ==
    LET ready == {n \in (1..N) \ done : Deps(n) \subseteq done} IN
    IF ready = {} THEN vals                       \* all done (or a dependency cycle: invalid segment, values stay Nil)
    ELSE DenFix([n \in 1..N |-> IF n \in ready THEN ValV(vals, n) ELSE vals[n]], done \cup ready)
DenAll == DenFix([n \in 1..N |-> Nil], {})
Den(n) == DenAll[n]
StateOf(g) == StateOfV(DenAll, g)
ExpectedCommit == [i \in 1..Len(pers) |-> IF TrainedOf(pers[i]) # {} THEN T("dumped", 0, <<StateOf(pers[i])>>) ELSE Nil]

\* ---------- CompilerImpl: Table.add transcribed ----------
\* instruction record: [k, node, mode, preset, g]
Ins(k, node, mode, preset, g) == [k |-> k, node |-> node, mode |-> mode, preset |-> preset, g |-> g]
Gid(g) == 100 + g
HasKey(k) == \E i \in 1..Len(index) : index[i].key = k
IdxSet(ix, k, ins) == Append(ix, [key |-> k, ins |-> ins])
IdxDel(ix, k) == SelectSeq(ix, LAMBDA e : e.key # k)
IdxGet(ix, k) == (CHOOSE i \in 1..Len(ix) : ix[i].key = k)
\* linkage: sequence of [ins, pos, arg]
Subscribers(n, i) == {<<m, p>> \in (1..N) \X (1..(IF MaxIn > 2 THEN MaxIn ELSE 2)) : \* p: position among ins of m
                        p <= Len(nodes[m].ins) /\ nodes[m].ins[p] = <<n, i>>}

Visit(n) ==
  LET nd == nodes[n] g == nd.grp state0 == Gid(g)
      persistent == sfgrp[g] /\ Persistent(g)
      needLoader == persistent /\ ~HasKey(state0)
      ix1 == IF needLoader THEN IdxSet(index, state0, Ins("loader", 0, "", FALSE, g)) ELSE index
      trainedP == nd.trained /\ persistent
      mkCommitter == trainedP /\ committer = 0
      ckey == IF mkCommitter THEN fresh ELSE committer
      f1 == IF mkCommitter THEN fresh + 1 ELSE fresh
      ix2 == IF mkCommitter THEN IdxSet(ix1, ckey, Ins("committer", 0, "", FALSE, 0)) ELSE ix1
      dkey == f1
      f2 == IF trainedP THEN f1 + 1 ELSE f1
      ix3 == IF trainedP THEN IdxSet(ix2, dkey, Ins("dumper", 0, "", FALSE, g)) ELSE ix2
      \* reset loader under a new key
      lkey == f2
      f3 == IF trainedP THEN f2 + 1 ELSE f2
      ix4 == IF trainedP THEN IdxSet(IdxDel(ix3, state0), lkey, ix3[IdxGet(ix3, state0)].ins) ELSE ix3
      state == IF trainedP THEN lkey ELSE state0
      preset == sfgrp[g] /\ (persistent \/ Derived(n))
      functor == Ins("fun", n, IF nd.trained THEN "train" ELSE "apply", preset, g)
      ix5 == IF sfgrp[g] /\ nd.trained THEN IdxSet(IdxSet(ix4, n, functor), state0, functor) ELSE IdxSet(ix4, n, functor)
      abs1 == IF trainedP THEN absl \o << [ins |-> dkey, pos |-> 1, arg |-> n], [ins |-> ckey, pos |-> Offset(g), arg |-> dkey] >> ELSE absl
      pre1 == IF preset THEN Append(prel, [ins |-> n, arg |-> state]) ELSE prel
      \* update: register node as argument of subscribers (getters for multi-output)
      single == nd.szout = 1
      gkeys == [i \in 1..nd.szout |-> f3 + i - 1]
      f4 == IF ~nd.trained /\ ~single THEN f3 + nd.szout ELSE f3
      ix6 == IF ~nd.trained /\ ~single
             THEN ix5 \o [i \in 1..nd.szout |-> [key |-> gkeys[i], ins |-> Ins("getter", i, "", FALSE, gkeys[i])]]
             ELSE ix5
      SubLinks(i, src) == LET S == Subscribers(n, i) IN
             \* as a sequence in arbitrary but fixed order
             LET RECURSIVE mk(_)
                 mk(R) == IF R = {} THEN <<>> ELSE LET x == CHOOSE y \in R : TRUE IN
                            <<[ins |-> x[1], pos |-> x[2], arg |-> src]>> \o mk(R \ {x})
             IN mk(S)
      RECURSIVE allLinks(_)
      allLinks(i) == IF i > nd.szout THEN <<>>
                     ELSE (IF single THEN SubLinks(i, n)
                           ELSE <<[ins |-> gkeys[i], pos |-> 1, arg |-> n]>> \o SubLinks(i, gkeys[i])) \o allLinks(i + 1)
      abs2 == IF nd.trained THEN abs1 ELSE abs1 \o allLinks(1)
  IN /\ index' = ix6 /\ absl' = abs2 /\ prel' = pre1 /\ committer' = ckey /\ fresh' = f4
     /\ visited' = visited \cup {n}

Compile == /\ phase = "compile" /\ Orders = "all"
           /\ \E n \in (1..N) \ visited : Visit(n)
           /\ phase' = IF visited' = 1..N THEN "done" ELSE "compile"
           /\ UNCHANGED <<nodes, sfgrp, pers>>

Next == AddWorker \/ AddFork \/ AddTrainer \/ Finish \/ Compile
Spec == Init /\ [][Next]_vars

\* ---------- emission + reference evaluation of the table ----------
InsSet == {index[i].ins : i \in 1..Len(index)}
KeysOf(ins) == {index[i].key : i \in {j \in 1..Len(index) : index[j].ins = ins}}
InsOfKey(k) == index[IdxGet(index, k)].ins
\* positional args of an instruction: prefixed (reversed) then absolute merged over all keys
AbsArg(ins, p) == LET L == {i \in 1..Len(absl) : absl[i].ins \in KeysOf(ins) /\ absl[i].pos = p} IN
                  IF L = {} THEN 0 ELSE absl[CHOOSE i \in L : TRUE].arg
AbsCount(ins) == LET P == {absl[i].pos : i \in {j \in 1..Len(absl) : absl[j].ins \in KeysOf(ins)}} IN
                 IF P = {} THEN 0 ELSE CHOOSE m \in P : \A q \in P : q <= m
PreArgs(ins) == LET L == SelectSeq(prel, LAMBDA e : e.ins \in KeysOf(ins)) IN [i \in 1..Len(L) |-> L[Len(L) + 1 - i].arg]
ArgKeys(ins) == PreArgs(ins) \o [p \in 1..AbsCount(ins) |-> AbsArg(ins, p)]
Stub(ins) == ins.k = "getter" /\ ~\E i \in 1..Len(absl) : absl[i].arg \in KeysOf(ins)
NoCollision == \A ins \in InsSet : \A p \in 1..AbsCount(ins) :
                  Cardinality({i \in 1..Len(absl) : absl[i].ins \in KeysOf(ins) /\ absl[i].pos = p}) <= 1

RECURSIVE Ev(_)
Ev(ins) == LET a == ArgKeys(ins) av == [i \in 1..Len(a) |-> IF a[i] = 0 THEN T("MISSING", 0, <<>>) ELSE Ev(InsOfKey(a[i]))] IN
   CASE ins.k = "loader" -> T("loaded", Offset(ins.g), <<>>)
     [] ins.k = "getter" -> T("out", ins.node, av)
     [] ins.k = "dumper" -> T("dumped", 0, av)
     [] ins.k = "committer" -> T("commit", 0, av)
     [] ins.k = "fun" /\ ins.mode = "apply" -> T("app", ins.g, IF ins.preset THEN av ELSE <<Nil>> \o av)
     [] ins.k = "fun" /\ ins.mode = "train" -> T("st", ins.g, IF ins.preset THEN av ELSE <<Nil>> \o av)

FunOf(n) == CHOOSE ins \in InsSet : ins.k = "fun" /\ ins.node = n
Sound == phase = "done" =>
           /\ NoCollision
           /\ \A n \in 1..N : Cardinality({ins \in InsSet : ins.k = "fun" /\ ins.node = n}) = 1
           /\ \A n \in 1..N : Ev(FunOf(n)) = Den(n)
           /\ (committer # 0 => Ev(InsOfKey(committer)).args =
                   [i \in 1..Len(pers) |-> IF TrainedOf(pers[i]) # {} THEN ExpectedCommit[i] ELSE T("MISSING", 0, <<>>)])
View == <<nodes, sfgrp, pers, phase, visited, index, absl, prel, committer>>

\* a segment needs a simple tail: some non-trained leaf with a single output port
Leaves == {n \in Mappers : \A m \in 1..N : \A i \in 1..Len(nodes[m].ins) : nodes[m].ins[i][1] # n \/ nodes[m].trained}
HasTail == \E n \in Leaves : nodes[n].szout = 1
Export == (phase = "compile" /\ visited = {} /\ HasTail) =>
            PrintT(ToJson([nodes |-> nodes, sf |-> sfgrp, pers |-> pers,
                           den |-> DenAll, commit |-> ExpectedCommit]))
NoCompile == phase = "compile" => Orders # "none"
=============================================================================
