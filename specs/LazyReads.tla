------------------------------ MODULE LazyReads ------------------------------
(***************************************************************************)
(* C14 - the column sets a lazy feed reader offers its origins             *)
(* (lazy.Origin.partitions(columns, predicate)) over the reads of ONE      *)
(* process.  REQUIREMENT: the columns a read has to be offered are a       *)
(* function of ITS OWN statement - every column the statement uses through *)
(* an occurrence of the table (Hints!Occurrences: projection, filters,     *)
(* join conditions, grouping, ordering) - whatever the reader, or any      *)
(* other reader of the process, read before.  The property quantifies over *)
(* all statements; a reader serves them one after the other, so "all       *)
(* statements" includes a statement that follows a SIMILAR one.            *)
(*                                                                         *)
(* The histories: sequences of Depth reads, consecutive statements being   *)
(* TWINS - equal in every clause but one (origin / join condition,         *)
(* projection, filter, ordering).  Twins are the statements a reader that  *)
(* remembers something about earlier statements is most likely to mix up   *)
(* (same tables, same shape, same text up to one clause).  The family is   *)
(* the product of the clause alternatives below; TLC enumerates every      *)
(* history, records what each read needs (need) and exports them; the      *)
(* driver replays each history in a fresh process with origins that record *)
(* the columns they are asked for, and TraceHints.tla (LazyComplete)       *)
(* judges every read.                                                      *)
(***************************************************************************)
EXTENDS Hints, Json, TLCExt

CONSTANT Depth        \* reads per history

\* tables of the harness catalog (harness.dslgen.CATALOG): the replay uses origins over exactly these
TA == Src("table", "A", "", <<<<"i", "int">>, <<"f", "float">>, <<"s", "str">>, <<"b", "bool">>>>,
          NilS, NilS, NilF, <<>>, NilF, <<>>, NilF, <<>>, <<>>)
TB == Src("table", "B", "", <<<<"i", "int">>, <<"s", "str">>, <<"k", "int">>>>,
          NilS, NilS, NilF, <<>>, NilF, <<>>, NilF, <<>>, <<>>)
LazyLits == [k \in {"0", "1"} |-> IF k = "0" THEN 0 ELSE 1]
L0 == Feat("lit", NilS, "", "int", "0", "", <<>>)
L1 == Feat("lit", NilS, "", "int", "1", "", <<>>)
Bi == Col(TB, "i")  Bs == Col(TB, "s")  Bk == Col(TB, "k")  Ai == Col(TA, "i")  As == Col(TA, "s")
Eq(a, b) == Op("eq", <<a, b>>)
Lt(a, b) == Op("lt", <<a, b>>)

\* the alternatives per clause
Origins == << TB,                                           \* one table
              JoinOf(TB, TA, "inner", Eq(Bi, Ai)),          \* joins differing in the condition only ...
              JoinOf(TB, TA, "inner", Lt(Bk, Ai)),
              JoinOf(TB, TA, "inner", Eq(Bs, As)),
              JoinOf(TB, TA, "left", Lt(Bk, Ai)) >>         \* ... and in the kind only
Selections == << <<Bi>>, <<Bk>> >>
Filters == << NilF, Eq(Bk, L0), Lt(Bi, L1) >>               \* none, a bare equality, an inequality
Orderings == << <<>>, <<[x |-> Bk, dir |-> "ascending"]>> >>
Params == [o : DOMAIN Origins, sel : DOMAIN Selections, w : DOMAIN Filters, ord : DOMAIN Orderings]
Clauses == {"o", "sel", "w", "ord"}
Stmt(p) == QueryOf(Origins[p.o], Selections[p.sel], Filters[p.w], <<>>, NilF, Orderings[p.ord], <<>>)
Twins(p, q) == Cardinality({c \in Clauses : p[c] # q[c]}) = 1

\* what a read of the statement has to be offered: per table name the columns used through its occurrences
TableNames(stmt) == {o.table.name : o \in Occurrences(stmt)}
Required(stmt) ==
    [t \in TableNames(stmt) |-> UNION {o.used : o \in {x \in Occurrences(stmt) : x.table.name = t}}]

VARIABLES hist,       \* the statements (parameter records) read so far through the lazy readers of one process
          need        \* per read: what it has to be offered
vars == <<hist, need>>
Init == hist = <<>> /\ need = <<>>
Read(p) ==
    /\ Len(hist) < Depth
    /\ IF hist = <<>> THEN TRUE ELSE Twins(hist[Len(hist)], p)
    /\ hist' = Append(hist, p)
    /\ need' = Append(need, Required(Stmt(p)))      \* nothing of hist is in the formula
Next == \E p \in Params : Read(p)
Spec == Init /\ [][Next]_vars

\* the generator's promises (a broken family is a machinery error, never a verdict about the code)
FamilyWellFormed == \A k \in DOMAIN hist : WellFormed(Stmt(hist[k]))
TwinsDiffer == \A k \in DOMAIN hist : k > 1 => Stmt(hist[k - 1]) # Stmt(hist[k])
\* the requirement: what a read needs depends on its own statement only - equal statements, equal needs, wherever
\* they stand in a history
OwnStatementOnly == \A j, k \in DOMAIN hist : hist[j] = hist[k] => need[j] = need[k]
NeedCoversUse ==
    \A k \in DOMAIN hist : \A o \in Occurrences(Stmt(hist[k])) : o.used \subseteq need[k][o.table.name]
Export == Len(hist) = Depth =>
            PrintT(ToJson([asts |-> [k \in DOMAIN hist |-> Stmt(hist[k])],
                           need |-> [k \in DOMAIN need |->
                                        [t \in DOMAIN need[k] |-> need[k][t]]]]))
Post == PrintT(<<"LAZYREADS", Cardinality(Params), TLCGet("distinct")>>)
=============================================================================
