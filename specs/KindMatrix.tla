------------------------------ MODULE KindMatrix ------------------------------
(***************************************************************************)
(* C07 (operand kinds).  "Comparison and arithmetic operands have          *)
(* compatible kinds": two comparison operands are compatible iff both are   *)
(* numeric or they have the SAME kind (same constructor and, for compound   *)
(* kinds, the same element kinds - a Timestamp is not a Date here, an       *)
(* Array of strings is not an Array of integers); arithmetic operands must  *)
(* both be numeric.  The verdict does not depend on the operand order.      *)
(* Kinds are terms [k, args]; TLC enumerates every ordered pair of the      *)
(* universe and exports the required verdicts.                              *)
(***************************************************************************)
EXTENDS Naturals, Sequences, FiniteSets, TLC, Json
K(k, args) == [k |-> k, args |-> args]
Prim == {K(n, <<>>) : n \in {"boolean", "integer", "float", "decimal", "string", "date", "timestamp"}}
Elem == {K("integer", <<>>), K("string", <<>>), K("date", <<>>), K("timestamp", <<>>)}
Universe == Prim \cup {K("array", <<e>>) : e \in Elem} \cup {K("map", <<a, b>>) : a \in {K("string", <<>>)}, b \in Elem}
Numeric(x) == x.k \in {"integer", "float", "decimal"}
Comparable(a, b) == (Numeric(a) /\ Numeric(b)) \/ a = b
Arithmetic(a, b) == Numeric(a) /\ Numeric(b)
VARIABLE pair
Init == pair \in Universe \X Universe
Next == UNCHANGED pair
Spec == Init /\ [][Next]_pair
Symmetric == Comparable(pair[1], pair[2]) = Comparable(pair[2], pair[1]) /\ Arithmetic(pair[1], pair[2]) = Arithmetic(pair[2], pair[1])
Reflexive == Comparable(pair[1], pair[1])
Export == PrintT(ToJson([a |-> pair[1], b |-> pair[2], cmp |-> Comparable(pair[1], pair[2]), ari |-> Arithmetic(pair[1], pair[2])]))
=============================================================================
