--------------------------- MODULE TraceFlowGraph ---------------------------
(* code -> spec for C11: call sequences executed on the real flow objects,   *)
(* each event = (call, outcome class, projected graph); every event must be  *)
(* an outcome FlowGraph.tla allows in the current declared graph and the     *)
(* projection must equal Obs of the resulting declared graph.                *)
EXTENDS FlowGraphCasts, IOUtils, TLCExt
CONSTANT CastName
VARIABLES tid, l
Batch == JsonDeserialize(IOEnv.TRACE_FILE)
Mine == SelectSeq(Batch.traces, LAMBDA t : t.cast = CastName)
Tr == Mine[tid]
Range(s) == {s[k] : k \in DOMAIN s}
PairSet(s) == {<<x[1], x[2]>> : x \in Range(s)}
ObsEq(o, D) ==
    \A n \in Nodes :
        /\ \A i \in 1..Cast[n].zout : PairSet(o[n].out[i]) = Down(D, n, i - 1) /\ Len(o[n].out[i]) = Cardinality(Down(D, n, i - 1))
        /\ Range(o[n].inp) = Obs(D)[n].inp
        /\ o[n].trained = Obs(D)[n].trained /\ o[n].derived = Obs(D)[n].derived
TInit == tid \in 1..Len(Mine) /\ l = 1 /\ wire = {} /\ hist = <<>>
Step == /\ l <= Len(Tr.events)
        /\ LET e == Tr.events[l]
               c == [op |-> e.c.op, a |-> e.c.a]
           IN IF ~Generated(wire, c)
              THEN l' = Len(Tr.events) + 1 /\ UNCHANGED wire      \* property silent from here on
              ELSE /\ LET out == Outcome(wire, c) IN
                        \/ out = "topo" /\ e.got = "topo" /\ wire' = wire
                        \/ out = "ok" /\ e.got = "ok" /\ wire' = wire \cup Effect(c)
                        \/ out = "any" /\ e.got = "ok" /\ wire' = wire \cup Effect(c)
                        \/ out = "any" /\ e.got # "ok" /\ wire' = wire
                   /\ ObsEq(e.obs, wire')
                   /\ l' = l + 1
        /\ UNCHANGED <<tid, hist>>
TSpec == TInit /\ [][Step]_<<vars, tid, l>>
Track == TLCSet(tid, IF TLCGet(tid) < l THEN l ELSE TLCGet(tid))
ASSUME \A i \in 1..Len(Mine) : TLCSet(i, 0)
Post == \A i \in 1..Len(Mine) :
    PrintT(<<"VERDICT", Mine[i].id, (IF TLCGet(i) - 1 > Len(Mine[i].events) THEN Len(Mine[i].events) ELSE TLCGet(i) - 1), Len(Mine[i].events)>>)
=============================================================================
