---------------------------- MODULE FeedCacheImpl ----------------------------
(***************************************************************************)
(* C06, reader level - AS-IS model of the caches in front of the storage   *)
(* (forml/provider/feed/alchemy.py Results, Feed.Reader.read;              *)
(*  forml/provider/feed/lazy.py Feed.Reader BACKEND / PARTITIONS):         *)
(*   frames  per process: SQL text |-> rows           (Results._frames)    *)
(*   disk    under $FORML_HOME/.cache/alchemy/<sha256(SQL text)>.parquet,  *)
(*           survives a restart                                            *)
(*   reg     per process, lazy feeds only: the content that was registered *)
(*           into the process-global in-memory DuckDB under the table's    *)
(*           name the first time ANY lazy feed read it (PARTITIONS is      *)
(*           keyed by the origin, which compares by its source only)       *)
(* A read that has to go to an unavailable storage raises and leaves all   *)
(* of this untouched (nothing is cached, the origin is not recorded as     *)
(* registered); a read answered from a cache or from the registered        *)
(* content does not notice that the storage is gone.                       *)
(* The key is the SQL text alone: it names the tables, not the feed nor    *)
(* the storage, so with equally named tables it is the statement number.   *)
(* Feeds in OwnName provision the schema from a physical table of their    *)
(* own name inside a database they share (same connection): the SQL text   *)
(* names that table, so their key is the statement number AND the feed.    *)
(* Results is one class attribute shared by alchemy and lazy readers.      *)
(* TLC exhibits the histories in which ImplRead differs from the           *)
(* requirement (invariant Fresh, expected to be violated) and exports, for *)
(* every history of the bound, both the required and the as-is result of   *)
(* each read (invariant Export); the driver replays them on real feeds.    *)
(***************************************************************************)
EXTENDS Reads, Json, TLCExt

CONSTANTS Lazy,       \* the feeds that are lazy (monolite) feeds; the others are alchemy feeds
          OwnName     \* the alchemy feeds whose physical table carries a name of its own (the SQL text differs per feed)
VARIABLES frames, disk, reg, impl     \* impl: per Read action what the as-is model returns: [err, rows]
ivars == <<storage, avail, hist, outs, frames, disk, reg, impl>>

Key(f, s) == <<s, IF f \in OwnName THEN f ELSE "">>
IInit == Init /\ frames = <<>> /\ disk = <<>> /\ reg = 0 /\ impl = <<>>
Has(m, k) == \E i \in DOMAIN m : m[i].key = k
Get(m, k) == m[CHOOSE i \in DOMAIN m : m[i].key = k].rows
Put(m, k, rows) == IF Has(m, k) THEN m ELSE Append(m, [key |-> k, rows |-> rows])

IRead(f, s) ==
    LET k == Key(f, s)
        cached == Has(frames, k) \/ Has(disk, k)
        \* a lazy reader registers (loads) its origin unless the result is already known; once per process
        loads == f \in Lazy /\ ~cached /\ reg = 0
        \* the storage itself is needed by a load and by an alchemy reader executing the statement
        fails == ~cached /\ ~avail[f] /\ (f \notin Lazy \/ loads)
        reg2 == IF loads /\ avail[f] THEN storage[f] ELSE reg
        content == IF f \in Lazy THEN reg2 ELSE storage[f]
        rows == IF Has(frames, k) THEN Get(frames, k)
                ELSE IF Has(disk, k) THEN Get(disk, k)
                ELSE IF fails THEN <<>>
                ELSE Eval(Stmts[s], Contents[content])
    IN /\ Read(f, s)
       /\ impl' = Append(impl, [err |-> fails, rows |-> rows])
       /\ frames' = IF fails THEN frames ELSE Put(frames, k, rows)
       /\ disk' = IF fails THEN disk ELSE Put(disk, k, rows)
       /\ reg' = reg2
IMutate(f) == Mutate(f) /\ UNCHANGED <<frames, disk, reg, impl>>
IBreak(f) == Break(f) /\ UNCHANGED <<frames, disk, reg, impl>>
IRestart == Restart /\ frames' = <<>> /\ reg' = 0 /\ UNCHANGED <<disk, impl>>
INext == /\ Len(hist) < Depth
         /\ \/ \E f \in FeedSet, s \in ReadStmts : IRead(f, s)
            \/ \E f \in FeedSet : IMutate(f)
            \/ \E f \in Faulty : IBreak(f)
            \/ IRestart
ISpec == IInit /\ [][INext]_ivars

\* FeedCacheImpl => Reads would need this invariant; it does not hold (stale / foreign rows)
Fresh == \A k \in DOMAIN impl : outs[k].avail => ~impl[k].err /\ impl[k].rows = outs[k].rows
\* export of every complete history: the actions, what each read must return, what the as-is model returns
Export == Len(hist) = Depth =>
            PrintT(ToJson([hist |-> hist,
                           reads |-> [k \in DOMAIN outs |-> [at |-> outs[k].at, f |-> outs[k].f, s |-> outs[k].s,
                                                             avail |-> outs[k].avail, rows |-> outs[k].rows,
                                                             impl |-> impl[k].rows, implerr |-> impl[k].err]]]))
=============================================================================
