SPECIFICATION Spec
INVARIANT Symmetric
INVARIANT Reflexive
INVARIANT Export
CHECK_DEADLOCK FALSE
